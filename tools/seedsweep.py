"""Re-run the quick check of every stored seeded change against the current machinery (no test-suite run: the
changes were confirmed when they were stored).  One scratch worktree per property group, groups in parallel;
evidence / replay files of these runs go to a scratch directory (VF_OUT_DIR), nothing in /verif/evidence is touched.

usage: tools/seedsweep.py [-j N] [NAME-substring ...]"""
import glob
import json
import os
import shutil
import subprocess
import sys
import tempfile
import time
from concurrent.futures import ThreadPoolExecutor

HERE = os.path.dirname(os.path.dirname(os.path.abspath(__file__)))


def sh(cmd, **kw):
    return subprocess.run(cmd, shell=True, capture_output=True, text=True, **kw)


def group(pid, metas):
    wt = tempfile.mkdtemp(prefix=f"seedsweep_{pid}_", dir="/tmp")
    os.rmdir(wt)
    out = tempfile.mkdtemp(prefix=f"seedsweep_out_{pid}_", dir="/dev/shm")
    res = []
    r = sh(f"git -C /repo worktree add -f --detach {wt} HEAD")
    if r.returncode:
        return [(m, None, r.stderr[:200]) for m in metas]
    try:
        for m in metas:
            d = os.path.dirname(m)
            sh(f"git -C {wt} checkout -- . && git -C {wt} clean -fdq")
            ap = sh(f"cd {wt} && git apply {d}/patch.diff")
            if ap.returncode:
                res.append((m, None, "patch does not apply: " + ap.stderr[:200]))
                continue
            t0 = time.time()
            env = dict(os.environ, VF_REPO=wt, VF_OUT_DIR=out)
            c = sh(f"cd {HERE} && bin/vcheck {pid} --tier quick", env=env)
            lines = c.stdout.splitlines()
            viol = [l for l in lines if l.startswith("VIOLATION")]
            first = []
            for v in viol[:3]:
                try:
                    rec = json.load(open(v.split("replay=")[1].split()[0]))
                    first.append({"obligation": rec.get("obligation"), "kind": rec.get("kind"), "no_input": v.endswith("no-failing-input-found")})
                except Exception:
                    pass
            # proof obligations that fail although the patch does not touch the module they belong to are suspicious
            # (an unstable proof would be a false alarm on the unchanged tree too)
            touched = {l.split(" b/")[1].strip()[:-3].replace("/", ".") for l in open(f"{d}/patch.diff") if l.startswith("diff --git")}
            suspicious = []
            for v in viol:
                try:
                    rec = json.load(open(v.split("replay=")[1].split()[0]))
                except Exception:
                    continue
                if rec.get("kind") == "proof":
                    modname = str(rec.get("obligation", "")).split("::")[0].rsplit(".", 2)[0]
                    if not any(modname == t or modname.startswith(t + ".") or t.startswith(modname) for t in touched):
                        suspicious.append(rec.get("obligation"))
            if suspicious:
                print("SUSPICIOUS (proof obligation outside the patched modules):", os.path.basename(d), suspicious, flush=True)
                keep = f"/dev/shm/suspicious_{os.path.basename(d)}_{int(time.time())}"
                shutil.copytree(out, keep, dirs_exist_ok=True)
                open(os.path.join(keep, "stdout.txt"), "w").write(c.stdout)
            res.append((m, c.returncode, {"exit": c.returncode, "violations": len(viol), "first": first,
                                          "summary": lines[-1][:200] if lines else "", "wall_s": round(time.time() - t0, 1)}))
    finally:
        sh(f"git -C /repo worktree remove --force {wt}")
        shutil.rmtree(out, ignore_errors=True)
    return res


def main():
    args = sys.argv[1:]
    j = 5
    if "-j" in args:
        j = int(args[args.index("-j") + 1])
        del args[args.index("-j"): args.index("-j") + 2]
    metas = sorted(glob.glob(os.path.join(HERE, "seeded", "*", "meta.json")))
    if args:
        metas = [m for m in metas if any(a in m for a in args)]
    groups = {}
    for m in metas:
        groups.setdefault(json.load(open(m))["property"], []).append(m)
    head = sh("git -C /repo log --format=%h -1").stdout.strip()
    missed = []
    with ThreadPoolExecutor(j) as ex:
        for res in ex.map(lambda kv: group(*kv), sorted(groups.items())):
            for m, code, info in res:
                d = json.load(open(m))
                pid = d["property"]
                if code is None:
                    print("ERROR", d["name"], info)
                    missed.append(d["name"])
                    continue
                d.setdefault("checks", {})[pid] = info
                d["caught_by"] = sorted(set([p for p in d.get("caught_by", []) if p != pid] + ([pid] if code == 1 else [])))
                d["rechecked"] = f"quick tier re-run against /repo {head} + this patch by tools/seedsweep.py"
                json.dump(d, open(m, "w"), indent=1)
                print(d["name"], "exit", code, "violations", info["violations"], [f["obligation"] for f in info["first"]][:2])
                if code != 1:
                    missed.append(d["name"])
    print("missed:", missed)
    return 1 if missed else 0


if __name__ == "__main__":
    sys.exit(main())
