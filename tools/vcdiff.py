"""developer tool: compare a dumped undecided VC (replays/<ID>/open_vcs/*.smt2) with the VC generated now for the same
obligation name and path.  usage: PYTHONHASHSEED=0 python3-vt tools/vcdiff.py <file.smt2>"""
import re
import sys

import z3

sys.path.insert(0, "/verif")
sys.path.insert(0, "/repo")
from contracts import load_all  # noqa: E402
from vf.pyvc.solve import to_smt2  # noqa: E402
from vf.pyvc.verify import Exec  # noqa: E402

z3.set_option(max_args=100000, max_lines=1000000, max_depth=100000, max_visited=10000000)
path = sys.argv[1]
head = open(path).readline()
m = re.match(r"; (\S+) path (\d+) ", head)
name, pnum = m.group(1), int(m.group(2))
qual = name.split("::")[0]
R = load_all()
c = [c for c in R.contracts.values() if c.qual == qual][0]
obs = [o for o in Exec(R, c).generate() if o.name == name]
print("instances now:", sorted(o.path for o in obs))
now = [o for o in obs if o.path == pnum]
norm = lambda t: re.sub(r"\s+", " ", str(t))
old = [norm(a) for a in z3.parse_smt2_file(path)]
if not now:
    print("no instance with path", pnum, "in the current generation")
    sys.exit(0)
import tempfile
with tempfile.NamedTemporaryFile("w", suffix=".smt2", delete=False) as fh:
    fh.write("(set-logic ALL)\n" + to_smt2(now[0]))
new = [norm(a) for a in z3.parse_smt2_file(fh.name)]
so, sn = set(old), set(new)
print(len(old), "assertions dumped,", len(new), "now;", len(so - sn), "only in dump,", len(sn - so), "only now")
for a in sorted(so - sn):
    print("  DUMP ONLY:", a[:500])
for a in sorted(sn - so):
    print("  NOW ONLY :", a[:500])
