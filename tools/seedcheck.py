"""Confirm a seeded defect and run the checks against it.

usage: tools/seedcheck.py <dir with patch.diff, demo.py, README.txt> <PROPERTY-ID> [--name NAME] [--keep]

1. fresh scratch worktree of /repo HEAD (under /tmp, removed afterwards);
2. demo.py on the clean tree must exit 0; patch must apply; the test-suite must still give 430 passed and
   only the 11 baseline failures; demo.py with the patch must exit non-zero;
3. bin/vcheck <ID> --tier quick with VF_REPO pointing at the patched tree (the checks read /repo's source
   and import rich from VF_REPO; nothing in /repo is touched) — records exit status and VIOLATION lines;
4. if everything in 2 holds, the mutant is stored as /verif/seeded/<NAME>/ with meta.json.
"""
import json
import os
import shutil
import subprocess
import sys
import time

HERE = os.path.dirname(os.path.dirname(os.path.abspath(__file__)))
BASELINE_FAIL = {
    "tests/test_card.py::test_card_render", "tests/test_inspect.py::test_inspect_text", "tests/test_inspect.py::test_inspect_builtin_function",
    "tests/test_inspect.py::test_inspect_integer_with_methods", "tests/test_log.py::test_log", "tests/test_markdown.py::test_markdown_render",
    "tests/test_markdown.py::test_inline_code", "tests/test_markdown_no_hyperlinks.py::test_markdown_render",
    "tests/test_syntax.py::test_python_render", "tests/test_syntax.py::test_python_render_indent_guides", "tests/test_syntax.py::test_option_no_wrap",
}


def sh(cmd, **kw):
    return subprocess.run(cmd, shell=True, capture_output=True, text=True, **kw)


def main():
    src = os.path.abspath(sys.argv[1])
    pid = sys.argv[2]
    name = sys.argv[sys.argv.index("--name") + 1] if "--name" in sys.argv else os.path.basename(src.rstrip("/"))
    others = sys.argv[sys.argv.index("--also") + 1].split(",") if "--also" in sys.argv else []
    wt = f"/tmp/seedchk_{os.getpid()}"
    meta = {"property": pid, "name": name, "source_dir": src, "ran": []}
    r = sh(f"git -C /repo worktree add -f {wt} HEAD")
    if r.returncode:
        print(r.stderr)
        return 3
    try:
        env = dict(os.environ, PYTHONPATH=wt)
        demo = os.path.join(src, "demo.py")
        r0 = sh(f"cd {wt} && timeout 120 /venv/bin/python -B {demo}", env=env)
        meta["demo_clean_exit"] = r0.returncode
        ap = sh(f"cd {wt} && git apply {src}/patch.diff")
        meta["patch_applies"] = ap.returncode == 0
        if ap.returncode:
            print("patch does not apply:", ap.stderr[:500])
        t = sh(f"cd {wt} && /venv/bin/python -B -m pytest -q -p no:cacheprovider --timeout=900 tests/ 2>&1 | tail -15", env=env)
        tail = t.stdout
        failed = {l.split(" ")[1] for l in tail.splitlines() if l.startswith("FAILED ")}
        import re
        m = re.search(r"(\d+) passed", tail)
        meta["tests_passed"] = int(m.group(1)) if m else None
        meta["tests_failed_beyond_baseline"] = sorted(failed - BASELINE_FAIL)
        r1 = sh(f"cd {wt} && timeout 120 /venv/bin/python -B {demo}", env=env)
        meta["demo_mutant_exit"] = r1.returncode
        meta["demo_mutant_output"] = (r1.stdout + r1.stderr)[-600:]
        confirmed = (meta["demo_clean_exit"] == 0 and meta["patch_applies"] and meta["tests_passed"] == 430
                     and not meta["tests_failed_beyond_baseline"] and meta["demo_mutant_exit"] != 0)
        meta["confirmed"] = confirmed
        meta["ran"].append(f"scratch worktree of /repo HEAD {sh('git -C /repo log --format=%h -1').stdout.strip()}; demo clean/mutant; full test-suite with the patch")
        # ---- run the checks against the patched tree
        results = {}
        for p in [pid] + others:
            t0 = time.time()
            c = sh(f"cd {HERE} && VF_REPO={wt} bin/vcheck {p} --tier quick", env=dict(os.environ, VF_REPO=wt))
            lines = c.stdout.splitlines()
            viol = [l for l in lines if l.startswith("VIOLATION")]
            detail = []
            for v in viol[:4]:
                path = v.split("replay=")[1].split()[0]
                try:
                    rec = json.load(open(path))
                    detail.append({"obligation": rec.get("obligation"), "kind": rec.get("kind"), "clause": str(rec.get("clause"))[:160],
                                   "what": str((rec.get("failing_input") or {}).get("what", ""))[:200], "no_input": v.endswith("no-failing-input-found")})
                except Exception:
                    pass
            results[p] = {"exit": c.returncode, "violations": len(viol), "first": detail, "summary": lines[-1][:200] if lines else "", "wall_s": round(time.time() - t0, 1)}
            if not os.environ.get("VF_OUT_DIR"):
                shutil.rmtree(os.path.join(HERE, "replays", p), ignore_errors=True)
        meta["checks"] = results
        meta["caught_by"] = [p for p, r_ in results.items() if r_["exit"] == 1]
        print(json.dumps({k: meta[k] for k in ("name", "property", "confirmed", "tests_passed", "tests_failed_beyond_baseline", "demo_clean_exit", "demo_mutant_exit", "caught_by")}, indent=1))
        for p, r_ in results.items():
            print(" ", p, "exit", r_["exit"], "violations", r_["violations"], [d["obligation"] for d in r_["first"]][:3], r_["summary"][:110])
        if confirmed:
            dst = os.path.join(HERE, "seeded", name)
            os.makedirs(dst, exist_ok=True)
            for f in ("patch.diff", "demo.py", "README.txt"):
                if os.path.exists(os.path.join(src, f)):
                    shutil.copy(os.path.join(src, f), os.path.join(dst, f))
            meta["needs_to_manifest"] = open(os.path.join(src, "README.txt")).read().strip() if os.path.exists(os.path.join(src, "README.txt")) else ""
            json.dump(meta, open(os.path.join(dst, "meta.json"), "w"), indent=1)
    finally:
        sh(f"git -C /repo worktree remove --force {wt}")
        # evidence files were rewritten by the runs against the mutant: restore the committed ones
        if not os.environ.get("VF_OUT_DIR"):
            sh(f"cd {HERE} && git checkout -- evidence")
    return 0


if __name__ == "__main__":
    sys.exit(main())
