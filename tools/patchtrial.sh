#!/bin/bash
# usage: tools/patchtrial.sh <seeded-name> <contract-substring>   -- developer tool: run the proofs on a scratch copy of rich with a stored patch
d=$(mktemp -d -p /dev/shm); cp -r /repo/rich $d/; (cd $d && patch -p1 -s < /verif/seeded/$1/patch.diff) || exit 3
VF_REPO=$d PYTHONPATH=/verif:$d python3-vt -m vf.pyvc.trial "$2" 2>&1 | grep -v SLOW | cut -c1-220 | head -${3:-6}
rm -rf $d
