"""Regenerates MANIFEST.json from levels.json (claimed properties) — keeps the manifest valid at all times."""
import json, os
HERE = os.path.dirname(os.path.dirname(os.path.abspath(__file__)))
props = [json.loads(l) for l in open(os.path.join(HERE, "properties.jsonl"))]
levels = json.load(open(os.path.join(HERE, "levels.json")))
claimed = json.load(open(os.path.join(HERE, "claimed.json")))
checks, na = [], []
for p in props:
    pid = p["id"]
    if pid in claimed["claimed"]:
        lv = levels[pid]
        checks.append({
            "property_id": pid,
            "quick_cmd": f"bin/vcheck {pid} --tier quick",
            "thorough_cmd": f"bin/vcheck {pid} --tier thorough",
            "evidence_file": f"/verif/evidence/{pid}.json",
            "replay_cmd_template": "bin/vcheck replay {path}",
            "engine": "pyvc+rtc",
            "level_claimed": {"category": lv["category"], "text": lv["text"], "design_ref": lv.get("design_ref", "DESIGN.md section 8")},
            "level_note": lv.get("note", "trusted: pyvc's encoding of the Python subset, z3/cvc5, built-in contracts, lemma induction schemas, floats as reals; bounded parts are labelled bounded in the evidence and never counted as proved"),
            "technique": lv.get("technique", "contract-based deductive verification: VCs generated from /repo's AST against sidecar contracts, discharged by z3/cvc5; bounded native contract evaluation as stand-in"),
        })
    else:
        na.append({"property_id": pid, "reason": claimed["not_applicable"].get(pid, "check not built yet (build in progress, see DESIGN.md section 12)")})
m = {
    "version": 1,
    "setup_cmd": "bin/vcheck list > /dev/null",
    "hooks": {"guard": "RICH_VERIF", "enable": "no hooks: contracts are sidecar files under /verif; runtime wrappers are installed in the checking process only",
              "baseline_off_cmd": "cd /repo && /venv/bin/python -m pytest -ra -q -p no:cacheprovider --timeout=900 --continue-on-collection-errors",
              "source_commits": [], "add_only": True},
    "engines": [
        {"name": "pyvc", "path": "vf/pyvc", "serves_properties": sorted(claimed["claimed"]), "kind_free_text": "VC generator over the real Python AST + z3/cvc5 portfolio (deductive, unbounded)"},
        {"name": "rtc", "path": "vf/rtc", "serves_properties": sorted(claimed["claimed"]), "kind_free_text": "native evaluation of the same contracts on the real functions over enumerated inputs (bounded stand-in, never counted as proved)"},
    ],
    "checks": checks,
    "notes": "exit codes: 0 held, 1 violation (VIOLATION line), 2 undecided (never on the unchanged tree), 3 checker crash. See DESIGN.md.",
    "not_applicable": na,
}
json.dump(m, open(os.path.join(HERE, "MANIFEST.json"), "w"), indent=1)
print("claimed:", sorted(claimed["claimed"]))
