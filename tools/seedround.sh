#!/bin/bash
# tools/seedround.sh <round-dir> <round-tag> <ID> [<ID> ...]: confirm and check the changes a sub-agent left in
# <round-dir>/<ID>/out/{1,2} (tools/seedcheck.py each; outputs of the check runs go to a scratch VF_OUT_DIR)
RD="$1"; TAG="$2"; shift 2
for id in "$@"; do
  for k in 1 2; do
    d="$RD/$id/out/$k"
    [ -f "$d/patch.diff" ] && [ -f "$d/demo.py" ] || continue
    out=$(mktemp -d -p /dev/shm seedround_XXXX)
    VF_OUT_DIR="$out" python3 "$(dirname "$0")/seedcheck.py" "$d" "$id" --name "${id}_${TAG}m${k}" ${ALSO:+--also $ALSO} > "$RD/$id/check_$k.log" 2>&1
    rm -rf "$out"
  done
done
