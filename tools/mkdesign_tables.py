"""Regenerates the generated tables of DESIGN.md (between the GENERATED markers) from the contracts,
the ledger, known_findings.json and the seeded mutants' meta.json files."""
import glob
import json
import os
import re
import sys

HERE = os.path.dirname(os.path.dirname(os.path.abspath(__file__)))
sys.path.insert(0, HERE)
os.environ.setdefault("VF_REPO", "/repo")
sys.path.insert(0, os.environ["VF_REPO"])

from contracts import load_all  # noqa: E402


def contracts_table():
    R = load_all()
    props = sorted(json.load(open(os.path.join(HERE, "levels.json"))))
    lines = ["| id | functions under discharged contracts (P) | lemmas / data obligations | inlined into callers | trusted / assumed contracts | ledger classes | bounded module |",
             "|---|---|---|---|---|---|---|"]
    for pid in props:
        cs, ls, ds = R.for_property(pid)
        proved = [c.func for c in cs if not c.inline and not c.trusted and not c.module.startswith("<") and c.verify]
        inl = [c.func for c in cs if c.inline]
        tr = [(c.func if not c.module.startswith("<") else c.module + c.func) for c in cs if c.trusted]
        led = os.path.join(HERE, "ledger", f"{pid}.json")
        n = len(json.load(open(led))["classes"]) if os.path.exists(led) else 0
        b = "vf/rtc/props/%s.py" % pid.lower() if os.path.exists(os.path.join(HERE, "vf/rtc/props", pid.lower() + ".py")) else "—"
        lines.append("| %s | %s | %s | %s | %s | %d | %s |" % (
            pid, ", ".join(f"`{x}`" for x in proved) or "—", ", ".join([f"lemma `{l.name}`" for l in ls] + [f"data `{d.name}`" for d in ds]) or "—",
            ", ".join(f"`{x}`" for x in inl) or "—", ", ".join(f"`{x}`" for x in tr) or "—", n, b))
    return "\n".join(lines)


def findings_table():
    d = json.load(open(os.path.join(HERE, "known_findings.json")))
    lines = ["| status | property | commit | what failed |", "|---|---|---|---|"]
    for f in d["findings"]:
        if f["status"] == "fixed":
            what = f["line"].split(" ", 3)[3] if f["line"].count(" ") >= 3 else f["line"]
            lines.append("| fixed | %s | `%s` | %s |" % (f["property"], f["commit"], what.replace("|", "\\|")))
        else:
            lines.append("| **open (known finding)** | %s | — | %s |" % (f["property"], f["what"].replace("|", "\\|")))
    return "\n".join(lines)


def seeded_table():
    lines = ["| mutant | property | what it needs to manifest (from the author's README) | confirmed (tests 430 pass, demo fails) | caught by (exit 1) | first failing obligations / clauses |",
             "|---|---|---|---|---|---|"]
    for m in sorted(glob.glob(os.path.join(HERE, "seeded", "*", "meta.json"))):
        d = json.load(open(m))
        need = re.sub(r"\s+", " ", d.get("needs_to_manifest", ""))[:260]
        firsts = []
        for p, r in d.get("checks", {}).items():
            for x in r.get("first", [])[:2]:
                firsts.append(f"{p}: {x.get('obligation')}" + (" (no-failing-input-found)" if x.get("no_input") else ""))
        lines.append("| %s | %s | %s | %s | %s | %s |" % (d["name"], d["property"], need.replace("|", "\\|"), "yes" if d.get("confirmed") else "NO",
                                                      ", ".join(d.get("caught_by", [])) or "**missed**", "; ".join(dict.fromkeys(firsts)) or "—"))
    return "\n".join(lines)


def main():
    p = os.path.join(HERE, "DESIGN.md")
    s = open(p).read()
    for name, fn in (("CONTRACTS", contracts_table), ("FINDINGS", findings_table), ("SEEDED", seeded_table)):
        a, b = f"<!-- BEGIN GENERATED:{name} -->", f"<!-- END GENERATED:{name} -->"
        if a in s and b in s:
            s = s[: s.index(a) + len(a)] + "\n" + fn() + "\n" + s[s.index(b):]
    open(p, "w").write(s)


if __name__ == "__main__":
    main()
