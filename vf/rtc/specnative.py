"""Native (CPython) implementations of the spec functions, written independently of rich's code,
and the translation of contract clause text into plain Python that can be eval()'d on real values."""
from __future__ import annotations

import ast
import copy
import os
import sys
from typing import Any, Callable, Dict

REPO = os.environ.get("VF_REPO", "/repo")
if REPO not in sys.path:
    sys.path.insert(0, REPO)

_WIDTH_TABLE = None


def width_table():
    """code point -> cell width by a *linear expansion* of the real CELL_WIDTHS table
    (independent of rich.cells' binary search and caches)"""
    global _WIDTH_TABLE
    if _WIDTH_TABLE is None:
        from rich._cell_widths import CELL_WIDTHS

        t = bytearray([1]) * 0x110000
        for start, end, w in CELL_WIDTHS:
            w = 0 if w == -1 else w
            for cp in range(start, min(end, 0x10FFFF) + 1):
                t[cp] = w
        _WIDTH_TABLE = t
    return _WIDTH_TABLE


def width_of(cp: int) -> int:
    return width_table()[cp]


def cells(s: str) -> int:
    t = width_table()
    return sum(t[ord(ch)] for ch in s)


def lsum(xs) -> int:
    return sum(xs)


def char_at(s: str, i: int) -> int:
    return ord(s[i])


def prefix_pad(result: str, text: str) -> bool:
    k = 0
    while k < len(result) and k < len(text) and result[k] == text[k]:
        k += 1
    # longest common prefix, then allow shorter prefixes when text itself has spaces there
    for kk in range(k, -1, -1):
        if all(c == " " for c in result[kk:]):
            return True
    return False


def seq_eq(a, b) -> bool:
    return list(a) == list(b) if not isinstance(a, str) else a == b


NATIVE_SPEC: Dict[str, Callable] = {
    "cells": cells,
    "width_of": width_of,
    "lsum": lsum,
    "char_at": char_at,
    "prefix_pad": prefix_pad,
    "seq_eq": seq_eq,
}


class _Rewrite(ast.NodeTransformer):
    """implies(a, b) -> (not a) or b ; iff(a,b) -> bool(a)==bool(b) ; ite(c,a,b) -> a if c else b ;
    old(e) -> __old__[<index>]"""

    def __init__(self):
        self.olds = []

    def visit_Call(self, node):
        self.generic_visit(node)
        if isinstance(node.func, ast.Name):
            n = node.func.id
            if n == "implies" and len(node.args) == 2:
                return ast.BoolOp(op=ast.Or(), values=[ast.UnaryOp(op=ast.Not(), operand=node.args[0]), node.args[1]])
            if n == "iff" and len(node.args) == 2:
                mk = lambda e: ast.Call(func=ast.Name(id="bool", ctx=ast.Load()), args=[e], keywords=[])
                return ast.Compare(left=mk(node.args[0]), ops=[ast.Eq()], comparators=[mk(node.args[1])])
            if n == "ite" and len(node.args) == 3:
                return ast.IfExp(test=node.args[0], body=node.args[1], orelse=node.args[2])
            if n == "old" and len(node.args) == 1:
                self.olds.append(node.args[0])
                return ast.Subscript(value=ast.Name(id="__old__", ctx=ast.Load()), slice=ast.Constant(value=len(self.olds) - 1), ctx=ast.Load())
        return node


class Clause:
    def __init__(self, text: str):
        self.text = text
        tree = ast.parse(text.strip(), mode="eval")
        rw = _Rewrite()
        tree = ast.fix_missing_locations(rw.visit(tree))
        self.code = compile(tree, f"<clause {text[:40]}>", "eval")
        self.old_codes = [compile(ast.fix_missing_locations(ast.Expression(body=o)), "<old>", "eval") for o in rw.olds]

    def eval_olds(self, ns: Dict[str, Any]):
        out = []
        for c in self.old_codes:
            try:
                out.append(copy.deepcopy(eval(c, ns)))
            except Exception as e:  # noqa
                out.append(e)
        return out

    def eval(self, ns: Dict[str, Any], olds=None):
        ns = dict(ns)
        ns["__old__"] = olds or []
        return eval(self.code, ns)


def make_namespace(registry, extra=None) -> Dict[str, Any]:
    ns: Dict[str, Any] = dict(NATIVE_SPEC)
    # spec macros become lambdas over the same namespace
    for name, sf in registry.specfns.items():
        cl = Clause(sf.body)

        def f(*args, _cl=cl, _params=sf.params):
            local = dict(ns)
            local.update(dict(zip(_params, args)))
            return _cl.eval(local)

        ns[name] = f
    ns.update(getattr(registry, "natives", {}))
    if extra:
        ns.update(extra)
    return ns
