"""Bounded native check of a contract: the same clause text that pyvc proves is evaluated by CPython on
the *real* function from the working tree over a small enumerated + seeded-random input space.

Used (a) as the CPython cross-check of every proved contract on every run (a contract that fails natively
on the unchanged tree is a wrong contract or an engine bug, never silently a pass), (b) to find a concrete
failing input to replay when a proof obligation stops being discharged, (c) as the bounded stand-in for
functions the prover cannot reach.  Always reported as *bounded*, never as proved.
"""
from __future__ import annotations

import importlib
import itertools
import json
import os
import random
import re
import time
import traceback
from typing import Any, Dict, List, Optional

from .specnative import Clause, make_namespace, REPO

INTS = [0, 1, 2, 3, 5, 8, -1, 13, 40, -3, 100]
CHARS = ["a", " ", "你", "̀", "b", "\x7f", "😽", "​", "z"]


def gen_values(sort_text: str, registry, rng: random.Random, budget: int) -> List[Any]:
    """small representative domain for a sort (deterministic prefix, then seeded random)"""
    t = sort_text.strip()
    low = t.lower()
    if low == "int":
        return list(INTS)
    if low == "bool":
        return [False, True]
    if low == "float":
        return [0.0, 1.0, 0.5, 2.5, -1.0, 100.0, 1e-3, 3.0]
    if low in ("none", "nonetype"):
        return [None]
    if low == "str":
        out = [""] + CHARS[:6]
        for n in (2, 3):
            for combo in itertools.islice(itertools.product(CHARS[:5], repeat=n), 0, 40):
                out.append("".join(combo))
        for _ in range(30):
            out.append("".join(rng.choice(CHARS) for _ in range(rng.randint(0, 12))))
        return out
    m = re.match(r"^(\w+)\[(.*)\]$", t)
    if m:
        head, inner = m.group(1).lower(), m.group(2)
        if head == "optional":
            return [None] + gen_values(inner, registry, rng, budget)
        if head == "list":
            base = gen_values(inner, registry, rng, budget)[:6]
            out = [[]]
            for n in (1, 2, 3):
                for combo in itertools.islice(itertools.product(base, repeat=n), 0, 60):
                    out.append(list(combo))
            for _ in range(30):
                out.append([rng.choice(base) for _ in range(rng.randint(0, 6))])
            return out
        if head == "tuple":
            parts = [gen_values(x, registry, rng, budget)[:5] for x in _split_top(inner)]
            return [tuple(c) for c in itertools.islice(itertools.product(*parts), 0, 200)]
    for name, fields, opts in registry.records:
        if name == t:
            factory = getattr(registry, "native_factories", {}).get(name)
            if factory is not None:
                return factory(rng)
            py = opts.get("pyclass")
            if py is None:
                raise NotImplementedError(f"no native factory for record {name}")
            modname, cls = py.rsplit(".", 1)
            klass = getattr(importlib.import_module(modname), cls)
            parts = [gen_values(fs, registry, rng, budget)[:6] for _f, fs in fields]
            return [klass(*c) for c in itertools.islice(itertools.product(*parts), 0, 300)]
    raise NotImplementedError(f"no native generator for sort {sort_text!r}")


def _split_top(s):
    out, depth, cur = [], 0, ""
    for ch in s:
        if ch == "[":
            depth += 1
        elif ch == "]":
            depth -= 1
        if ch == "," and depth == 0:
            out.append(cur)
            cur = ""
        else:
            cur += ch
    if cur.strip():
        out.append(cur)
    return out


def resolve_function(module: str, qual: str):
    mod = importlib.import_module(module)
    obj = mod
    parts = qual.split(".")
    owner = None
    for p in parts:
        owner = obj
        raw = owner.__dict__.get(p) if isinstance(owner, type) else None
        obj = getattr(obj, p)
    raw = owner.__dict__.get(parts[-1]) if isinstance(owner, type) else None
    if isinstance(raw, property):
        return raw.fget, "property"
    if isinstance(raw, classmethod):
        return obj, "classmethod"
    return obj, "function"


def shape_of(v) -> str:
    """abstract shape used to count distinct non-trivial cases"""
    if isinstance(v, bool) or v is None:
        return repr(v)
    if isinstance(v, int):
        return "neg" if v < 0 else ("0" if v == 0 else ("1" if v == 1 else "pos"))
    if isinstance(v, float):
        return "f-" if v < 0 else ("f0" if v == 0 else "f+")
    if isinstance(v, str):
        from .specnative import width_of

        return "s" + "".join(sorted({str(width_of(ord(c))) for c in v})) + f"#{min(len(v), 4)}"
    if isinstance(v, (list, tuple)):
        return f"[{min(len(v), 4)}:" + ",".join(sorted({shape_of(x) for x in v})) + "]"
    return type(v).__name__


def check_contract(c, registry, seed: int, budget: int, time_budget: float = 20.0) -> Dict[str, Any]:
    """Returns dict(evaluations, distinct, failures=[...], samples=[...], skipped_pre, error)"""
    rng = random.Random(seed * 7919 + hash(c.qual) % 1000)
    ns = make_namespace(registry)
    out: Dict[str, Any] = {"contract": c.qual, "evaluations": 0, "distinct": 0, "failures": [], "samples": [], "pre_rejected": 0, "error": None}
    try:
        fn, kind = resolve_function(c.module, c.func)
        names = list(c.params.keys())
        gens = getattr(c, "native_gen", None)
        domains = []
        for n in names:
            so = c.params[n]
            if n == "cls":
                domains.append([None])
                continue
            if gens and n in gens:
                domains.append(list(gens[n](rng)))
                continue
            alts = so if isinstance(so, (list, tuple)) else [so]
            vals: List[Any] = []
            for a in alts:
                vals.extend(gen_values(a, registry, rng, budget))
            domains.append(vals)
    except NotImplementedError as e:
        out["error"] = f"not natively checkable: {e}"
        return out
    except Exception as e:  # pragma: no cover
        out["error"] = f"setup failed: {e!r}"
        return out
    import inspect

    try:
        kwonly = {n for n, p_ in inspect.signature(fn).parameters.items() if p_.kind == inspect.Parameter.KEYWORD_ONLY}
    except (TypeError, ValueError):
        kwonly = set()
    req = [Clause(r) for r in c.requires]
    ens = [Clause(e) for e in c.ensures]
    shapes = set()
    t0 = time.time()
    total = 1
    for d in domains:
        total *= max(1, len(d))

    def cases():
        if total <= budget:
            yield from itertools.product(*domains)
        else:
            # pairwise-ish: deterministic diagonal sweep, then random
            m = max(len(d) for d in domains)
            for i in range(m):
                yield tuple(d[i % len(d)] for d in domains)
            while True:
                yield tuple(rng.choice(d) for d in domains)

    for case in cases():
        if out["evaluations"] + out["pre_rejected"] >= budget or time.time() - t0 > time_budget:
            break
        import copy as _copy

        env = dict(ns)
        args = []
        for v in case:
            try:
                args.append(_copy.deepcopy(v))
            except Exception:
                args.append(v)  # not copyable (e.g. LRUCache): shared across cases — a history of calls
        env.update(dict(zip(names, args)))
        try:
            if not all(r.eval(env) for r in req):
                out["pre_rejected"] += 1
                continue
        except Exception:
            out["pre_rejected"] += 1
            continue
        olds = [e.eval_olds(env) for e in ens]
        call_args = [a for n, a in zip(names, args) if n != "cls" and n not in kwonly]
        call_kwargs = {n: a for n, a in zip(names, args) if n in kwonly}
        raised = None
        result = None
        try:
            result = fn(*call_args, **call_kwargs)
            if hasattr(result, "__next__"):
                result = list(result)
        except Exception as e:  # noqa
            raised = e
        out["evaluations"] += 1
        shapes.add(tuple(shape_of(v) for v in case))
        if raised is not None:
            allowed = any(type(raised).__name__ == a or a in [k.__name__ for k in type(raised).__mro__] for a in c.raises)
            if not allowed:
                out["failures"].append({"args": _jsonable(dict(zip(names, case))), "clause": "raises: none but the declared exceptions", "raised": repr(raised)})
            continue
        env["result"] = result
        for cl, old in zip(ens, olds):
            try:
                ok = bool(cl.eval(env, old))
            except Exception as e:  # clause not evaluable natively on this case
                ok = True
                out.setdefault("clause_errors", []).append(f"{cl.text[:50]}: {e!r}"[:160])
            if not ok:
                out["failures"].append({"args": _jsonable(dict(zip(names, case))), "clause": cl.text, "result": _jsonable(result)})
                break
        if len(out["samples"]) < 3 and out["evaluations"] % 37 == 1:
            out["samples"].append({"args": _jsonable(dict(zip(names, case))), "result": _jsonable(result)})
        if len(out["failures"]) >= 3:
            break
    out["distinct"] = len(shapes)
    if "clause_errors" in out:
        out["clause_errors"] = sorted(set(out["clause_errors"]))[:5]
    return out


def _jsonable(v):
    try:
        json.dumps(v)
        return v
    except TypeError:
        if isinstance(v, dict):
            return {str(k): _jsonable(x) for k, x in v.items()}
        if isinstance(v, (list, tuple)):
            return [_jsonable(x) for x in v]
        return repr(v)
