"""C13 bounded check: cell-width arithmetic and line shaping (the bounded stand-in next to the proofs).

Oracle: vf.rtc.specnative (an independent linear expansion of CELL_WIDTHS); nothing from rich.cells
is used to judge rich.cells.  Clauses:
  c13.cell_len_history     cell_len(s) == sum of table widths, for every s, after arbitrary histories of other
                           measurements / resizes / crops (cache states incl. eviction via a small LRUCache)
  c13.table_lookup         get_character_cell_size(chr(cp)) == table width: boundary code points of every table row
                           (quick) / all 1,114,112 code points (thorough, exhaustive)
  c13.set_cell_size        exactly n cells, a prefix of the original followed by spaces
  c13.chop_cells           pieces concatenate to the original; every piece fits (first one with the position offset)
  c13.adjust_line_length   exact length when padding / cropping; characters and styles a prefix; pad carries the style
  c13.split_and_crop_lines.new_lines  include_new_lines=True: each line is the shaped line plus exactly one new-line segment, also
                            between consecutive blank lines; earlier lines are not changed by later ones
  c13.split_and_crop_lines every line exactly `length` cells (pad) / at most (no pad); characters and styles
                           unchanged; padding carries the requested style
  c13.set_shape            max(len(lines), height) lines of exactly `width` cells
  c13.simplify             same (character, style, control) stream
"""
from __future__ import annotations

import itertools
import random
import time
from typing import Any, Dict, List

ALPHA = ["a", " ", "你", "̀", "😽", "✅", "힣", "b", "​"]


def _strings(rng, n):
    out = [""]
    for k in (1, 2, 3):
        out += ["".join(c) for c in itertools.product(ALPHA[:6], repeat=k)]
    for _ in range(n):
        out.append("".join(rng.choice(ALPHA) for _ in range(rng.randint(0, 40))))
    # beyond the 64-character caching threshold of cell_len: all-ASCII (with zero-width control characters), mixed
    ascii_ctl = ["a", "b", " ", "-", "\t", "\x1b", "\x7f", "0"]
    for k in (64, 65, 66, 80, 130):
        out.append("x" * k)
        out.append("".join(ascii_ctl[(i * 7 + k) % len(ascii_ctl)] for i in range(k)))
        out.append("".join(ALPHA[(i * 5 + k) % len(ALPHA)] for i in range(k)))
    for _ in range(max(4, n // 50)):
        out.append("".join(rng.choice(ascii_ctl) for _ in range(rng.randint(60, 100))))
    return out


def run(tier: str = "quick", seed: int = 0) -> Dict[str, Any]:
    t0 = time.time()
    from rich import cells as rc
    from rich._cell_widths import CELL_WIDTHS
    from rich._lru_cache import LRUCache
    from rich.segment import Segment
    from rich.style import Style

    from vf.rtc.specnative import cells, width_of

    rng = random.Random(seed * 9176 + 13)
    quick = tier != "thorough"
    fails: List[Dict[str, Any]] = []
    clauses: Dict[str, int] = {}
    shapes = set()
    samples = []

    def hit(c):
        clauses[c] = clauses.get(c, 0) + 1

    def fail(check, what, key, inp, exp, obs):
        if sum(1 for f in fails if f["check"] == check) < 3:
            fails.append({"check": check, "what": what, "input_key": key, "input": inp, "expected": exp, "observed": obs})

    strings = _strings(rng, 300 if quick else 6000)

    # ---- table lookup
    cps = set()
    for s, e, _w in CELL_WIDTHS:
        cps.update(c for c in (s - 1, s, e, e + 1) if 0 <= c <= 0x10FFFF)
    cps.update([0, 31, 32, 126, 127, 0x10FFFF])
    if not quick:
        cps = range(0x110000)
    exhaustive = not quick
    for cp in cps:
        if 0xD800 <= cp <= 0xDFFF:
            continue
        hit("c13.table_lookup")
        got = rc.get_character_cell_size(chr(cp))
        if got != width_of(cp):
            fail("c13.table_lookup", f"code point U+{cp:04X}: width {got}, table says {width_of(cp)}", f"U+{cp:04X}", {"codepoint": cp}, width_of(cp), got)
    # ---- histories: cell_len must not depend on what happened before
    small = LRUCache(3)
    for round_ in range(3 if quick else 30):
        order = strings[:]
        rng.shuffle(order)
        for i, s in enumerate(order):
            op = rng.randrange(4)
            if op == 0:
                rc.set_cell_size(s, rng.randint(0, 12))
            elif op == 1 and s:
                Segment.adjust_line_length([Segment(s)], rng.randint(0, 10))
            elif op == 2:
                rc.cell_len(s, small)  # a tiny cache: constant eviction
            hit("c13.cell_len_history")
            for probe in (s, s[:1], s[:-1], s[1:]):
                got = rc.cell_len(probe)
                if got != cells(probe):
                    fail("c13.cell_len_history", f"cell_len({probe!r}) == {got} after a history of measurements, table sum is {cells(probe)}",
                         repr(probe), {"string": probe, "history_round": round_, "index": i}, cells(probe), got)
                got2 = rc.cell_len(probe, small)
                if got2 != cells(probe):
                    fail("c13.cell_len_history", f"cell_len({probe!r}, small cache) == {got2}, table sum is {cells(probe)}", repr(probe) + "|small", {"string": probe}, cells(probe), got2)
            shapes.add(("hist", min(len(s), 5), op))
    # ---- set_cell_size / chop_cells
    for s in strings:
        for n in (range(0, 9) if quick else range(0, 30)):
            hit("c13.set_cell_size")
            r = rc.set_cell_size(s, n)
            k = len(r.rstrip(" "))
            ok = cells(r) == n and any(r[:kk] == s[:kk] and set(r[kk:]) <= {" "} for kk in range(min(len(r), len(s)), -1, -1))
            if not ok:
                fail("c13.set_cell_size", f"set_cell_size({s!r}, {n}) == {r!r}: {cells(r)} cells / not prefix+spaces", f"{s!r}|{n}", {"text": s, "total": n}, n, r)
            shapes.add(("scs", min(len(s), 5), min(n, 5), cells(s) > n))
        for width in (2, 3, 5):
            for pos in (0, 1, width):
                hit("c13.chop_cells")
                pieces = rc.chop_cells(s, width, pos)
                ok = "".join(pieces) == s and all(cells(p) <= width for p in pieces[1:]) and all(p for p in pieces[1:])
                if pieces and pos <= width:
                    ok = ok and pos + cells(pieces[0]) <= width
                if not ok:
                    fail("c13.chop_cells", f"chop_cells({s!r}, {width}, {pos}) == {pieces!r}", f"{s!r}|{width}|{pos}", {"text": s, "max_size": width, "position": pos}, "pieces join to the text and fit", pieces)
    # ---- segment shaping
    styles = [None, Style.parse("red"), Style.parse("bold on blue")]
    pad_style = Style.parse("on green")

    def stream(segs):
        out = []
        for sg in segs:
            for ch in sg.text:
                out.append((ch, sg.style, sg.is_control))
        return out

    def line_cells(line):
        return sum(0 if sg.is_control else cells(sg.text) for sg in line)

    n_lines = 400 if quick else 8000
    for _ in range(n_lines):
        nseg = rng.randint(0, 4)
        segs = []
        for _s in range(nseg):
            txt = "".join(rng.choice(ALPHA + ["\n"] if rng.random() < 0.3 else ALPHA) for _c in range(rng.randint(0, 6)))
            ctrl = rng.random() < 0.1
            segs.append(Segment(txt, rng.choice(styles), ctrl))
        length = rng.randint(0, 10)
        pad = rng.random() < 0.6
        line = [sg for sg in segs if "\n" not in sg.text]
        # adjust_line_length
        hit("c13.adjust_line_length")
        res = Segment.adjust_line_length(list(line), length, style=pad_style, pad=pad)
        want = line_cells(line)
        okl = line_cells(res) == length if (pad or want > length) else stream(res) == stream(line)
        vis = lambda ss: [x for x in stream(ss) if not x[2]]
        if want <= length:
            okc = stream(res)[: len(stream(line))] == stream(line) and all(c == " " and st == pad_style for c, st, _ in stream(res)[len(stream(line)):])
        else:
            sr, sl = vis(res), vis(line)
            k = 0
            while k < len(sr) and k < len(sl) and sr[k] == sl[k]:
                k += 1
            okc = all(c == " " for c, _st, _ in sr[k:]) and len(sr) - k <= 1
        if not (okl and okc):
            fail("c13.adjust_line_length", f"adjust_line_length(line of {want} cells, {length}, pad={pad}) gives {line_cells(res)} cells / changed characters",
                 f"{[(s.text, str(s.style), s.is_control) for s in line]}|{length}|{pad}", {"line": [[s.text, str(s.style), s.is_control] for s in line], "length": length, "pad": pad},
                 length, [[s.text, str(s.style)] for s in res])
        shapes.add(("adj", len(line), min(length, 4), pad, want > length))
        # split_and_crop_lines
        hit("c13.split_and_crop_lines")
        lines = list(Segment.split_and_crop_lines(list(segs), length, style=pad_style, pad=pad, include_new_lines=False))
        ok = all((line_cells(ln) == length) if pad else (line_cells(ln) <= length) for ln in lines)
        # padding cells carry the requested style: any all-space tail beyond the source characters of a line
        src_lines: List[List] = [[]]
        for ch, st, ct in stream(segs):
            if ch == "\n" and not ct:
                src_lines.append([])
            else:
                src_lines[-1].append((ch, st, ct))
        if src_lines and not src_lines[-1] and len(src_lines) > len(lines):
            src_lines.pop()
        if len(lines) == len(src_lines):
            for ln, src in zip(lines, src_lines):
                got = stream(ln)
                srcv = [x for x in src]
                if line_cells(ln) >= sum(0 if ct else width_of(ord(ch)) for ch, _s, ct in srcv):
                    # nothing cropped: source is a prefix, the rest is padding in the requested style
                    if got[: len(srcv)] != srcv or any(not (c == " " and st == pad_style) for c, st, _ in got[len(srcv):]):
                        ok = False
        else:
            ok = False
        if not ok:
            fail("c13.split_and_crop_lines", f"split_and_crop_lines(..., {length}, pad={pad}): wrong length, characters or pad style",
                 f"{[(s.text, str(s.style), s.is_control) for s in segs]}|{length}|{pad}", {"segments": [[s.text, str(s.style), s.is_control] for s in segs], "length": length, "pad": pad},
                 "lines of the requested length, unchanged characters, padding in the requested style", [[[s.text, str(s.style)] for s in ln] for ln in lines])
        # the same call with its public default include_new_lines=True, also on the sequence framed by blank lines: every
        # line is the line of the call above followed by exactly one new-line segment, and a line already produced is not
        # changed by producing the next ones (the lines are collected first and compared afterwards)
        for segs2 in (list(segs), [Segment("\n\n")] + list(segs) + [Segment("\n"), Segment("\n\n")]):
            hit("c13.split_and_crop_lines.new_lines")
            plain2 = [list(ln) for ln in Segment.split_and_crop_lines(list(segs2), length, style=pad_style, pad=pad, include_new_lines=False)]
            with_nl = list(Segment.split_and_crop_lines(list(segs2), length, style=pad_style, pad=pad, include_new_lines=True))
            ends_nl = bool(segs2) and not segs2[-1].is_control and segs2[-1].text.endswith("\n")
            ok2 = len(with_nl) == len(plain2)
            if ok2:
                for idx2, (a2, b2) in enumerate(zip(with_nl, plain2)):
                    last2 = idx2 == len(plain2) - 1
                    want2 = stream(b2) + ([] if (last2 and not ends_nl) else [("\n", None, False)])
                    if stream(a2) != want2:
                        ok2 = False
            if not ok2:
                fail("c13.split_and_crop_lines.new_lines", f"split_and_crop_lines(..., {length}, pad={pad}, include_new_lines=True): a line is not the shaped line plus one new line",
                     f"{[(s.text, str(s.style), s.is_control) for s in segs2]}|{length}|{pad}", {"segments": [[s.text, str(s.style), s.is_control] for s in segs2], "length": length, "pad": pad},
                     [[[s.text, str(s.style)] for s in ln] for ln in plain2], [[[s.text, str(s.style)] for s in ln] for ln in with_nl])
        # set_shape
        hit("c13.set_shape")
        height = rng.choice([None, 0, 1, len(lines), len(lines) + 2])
        plain_lines = [[sg for sg in ln] for ln in lines]
        shaped = Segment.set_shape(plain_lines, length, height, style=pad_style)
        want_h = max(len(lines), height) if height is not None else len(lines)
        if len(shaped) != want_h or any(line_cells(ln) != length for ln in shaped):
            fail("c13.set_shape", f"set_shape({len(lines)} lines, {length}, {height}) gives {len(shaped)} lines of {[line_cells(l) for l in shaped]} cells",
                 f"{len(lines)}|{length}|{height}", {"lines": len(lines), "width": length, "height": height}, [want_h, length], [len(shaped)] + [line_cells(l) for l in shaped])
        # simplify
        hit("c13.simplify")
        simp = list(Segment.simplify(list(segs)))
        if stream(simp) != stream(segs):
            fail("c13.simplify", "simplify changed the (character, style, control) stream", f"{[(s.text, str(s.style), s.is_control) for s in segs]}",
                 {"segments": [[s.text, str(s.style), s.is_control] for s in segs]}, "same stream", [[s.text, str(s.style), s.is_control] for s in simp])
        if len(samples) < 3:
            samples.append({"segments": [[s.text, str(s.style), s.is_control] for s in segs], "length": length, "pad": pad})
    ev = sum(clauses.values())
    return {"evaluations": ev, "distinct_nontrivial": len(shapes), "rule": "strings over a mixed-width alphabet incl. width-table boundary code points; histories interleave measurements with resizes/crops and a 3-entry LRU cache; segment lists of 0..4 segments with newlines, control segments and three styles; distinct = distinct (operation, size class) shapes",
            "bound": f"tier {tier}: {len(strings)} strings (exhaustive to length 3 over 6 symbols, random to length 40), sizes 0..{8 if quick else 29}; {n_lines} random segment lists x lengths 0..10; code points: {'all 1,114,112 (exhaustive)' if exhaustive else 'both sides of every table row boundary'}",
            "samples": samples or [{"string": strings[5]}], "clauses": clauses, "failures": fails, "exhaustive": exhaustive, "wall_s": round(time.time() - t0, 2)}
