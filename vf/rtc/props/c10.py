"""C10 - Live / Progress / Status leave a correct screen after any history (bounded check).

Oracle (written from the property statement, not from rich/live*.py):

  * every character rich writes to ``Console.file`` is replayed, operation by operation, on the
    independent VT100-subset model ``_term.Term`` (unbounded scroll-back, cursor-up not clamped);
  * a sequential reference model keeps ``committed`` (the lines every print / log produced, obtained by
    performing the same call on a second console that has *no* live display attached) and ``shown`` (the
    lines of the most recently refreshed frame, obtained by printing the same renderable on that second
    console).  After every operation, and after stop, the screen must be ``committed ++ shown``
    (``shown`` is empty before the first refresh and after a transient stop; after a non-transient stop
    the last frame becomes part of ``committed``);
  * the cursor never moves above row ``len(committed)`` while an operation's output is replayed, never
    above the first row ever written, and - with the console height given to the model - never above the
    top of the visible window (where a real terminal would clamp);
  * DECTCEM: visible after stop;
  * fault injection: a renderable / progress column that raises on its k-th call for every k, and an
    exception raised at every position of the ``with`` body: afterwards ``sys.stdout`` / ``sys.stderr``
    are the original objects, ``console._render_hooks == []``, the last DECTCEM code is "show" and the
    exception propagates;
  * uncropped prints: every history family also has prints that do not go through the cropping step of
    ``Console.print`` (``print(soft_wrap=True)``, ``print(crop=False)``, ``Console.out``, a console created with
    ``soft_wrap=True``); the reference lines come from the same call on the second console and long lines
    auto-wrap on the terminal model.  The screen / cursor checks after such a call (and after a log or a
    stdout write on a ``soft_wrap`` console, where the log is the call whose wrap options differ) are the
    same checks under their own names, ``c10.screen_after_uncropped_print`` /
    ``c10.cursor_position_uncropped_print``.  On a ``soft_wrap`` console the reference for a *frame* is the
    renderable printed there with every logical line cut at the console width (a frame row cannot auto-wrap:
    the region is counted in rows);
  * faults inside a history ("the renderable itself raises at any point", and the history goes on): a printed
    renderable that emits r rows and then raises (``badprint``), or the live renderable / a progress column's
    renderable raising while a print / out / refresh re-renders the frame (``badframe``); the body catches the
    exception and carries on.  The exception must come out of the call (``c10.fault_propagates``); right after
    it the screen must still be the printed lines followed by the last refreshed frame
    (``c10.screen_after_fault`` / ``c10.cursor_position_fault``), the cursor must not have moved above the live
    region while the failed call's output is replayed, and every later operation and the final stop are
    checked exactly as before (no printed line overwritten, no remnant).

Model decisions that are *tolerances* (stated here because they make the oracle weaker than a literal
reading): (1) trailing blank rows of the screen are not compared - a blank row and an untouched row are
the same thing on a terminal - which tolerates the blank padding rows ``LiveRender`` keeps below a
``Progress`` frame that has shrunk; after a non-transient ``Progress.stop()`` at most
``max height shown so far - current height`` blank rows are accepted between the final frame and later
output (counted in ``samples``/``rule`` as ``padding_rows``).  (2) For ``Live``/``Status`` a print or log
while the display is running counts as a refresh (it re-renders the current renderable); for
``Progress`` it re-renders the frame of the last ``refresh()``.  (3) A print that raised half-way: the
property does not say whether the rows it produced before the exception count as printed, nor whether the
frame was re-rendered; the oracle accepts any prefix of those rows (including none), and for ``Live`` /
``Status`` either the frame shown before or the current renderable's frame - whichever the screen shows is
taken over into the model; anything else (frame missing, rows erased) is a violation.

Outside the precondition (never generated): ``vertical_overflow="visible"`` together with frames taller
than the console, and ``Progress`` frames taller than the console.
"""

import hashlib
import io
import json
import os
import random
import sys
import time
from datetime import datetime
from typing import Any, Dict, List, Optional, Tuple

from rich.console import Console
from rich.live import Live
from rich.panel import Panel
from rich.progress import (
    BarColumn,
    Progress,
    ProgressColumn,
    RenderableColumn,
    SpinnerColumn,
    TextColumn,
    TimeRemainingColumn,
)
from rich.status import Status
from rich.table import Table
from rich.text import Text

from ._term import Term

MAX_OPS = 40
MAX_FAIL_PER_CLAUSE = 3
_FIXED_DT = datetime(2020, 1, 2, 12, 0, 0)


# --------------------------------------------------------------------------- consoles / renderables
def _console(cfg: dict, file, live: bool) -> Console:
    return Console(
        file=file,
        force_terminal=True,
        width=cfg["width"],
        height=cfg["height"],
        color_system=cfg.get("color"),  # same on the reference console: ProgressBar draws differently without colour
        legacy_windows=False,
        log_path=False,
        log_time=bool(cfg.get("log_time")),
        get_datetime=lambda: _FIXED_DT,
        get_time=lambda: 0.0,
        soft_wrap=bool(cfg.get("soft_wrap")),
        _environ={},
    )


def _frame_text(fid: int, n: int) -> str:
    return "\n".join("F%d.%d" % (fid, i) for i in range(n))


def _build(spec: list):
    """Frame spec -> renderable.  ["lines", id, n] | ["panel", id, n] | ["table", id, n] | ["wrap", id, words]"""
    kind = spec[0]
    if kind == "lines":
        return _frame_text(spec[1], spec[2])
    if kind == "panel":
        return Panel(_frame_text(spec[1], spec[2]))
    if kind == "table":
        t = Table("c%d" % spec[1], "v")
        for i in range(spec[2]):
            t.add_row("r%d" % i, "F%d.%d" % (spec[1], i))
        return t
    if kind == "wrap":
        return " ".join("w%d.%d" % (spec[1], i) for i in range(spec[2]))
    if kind == "styled":
        return Text(_frame_text(spec[1], spec[2]), style="bold red")
    raise ValueError(spec)


def _lines_of(delta: str, width: int) -> List[str]:
    """Lines produced by a print on the reference console (ends with a newline)."""
    t = Term(width).feed(delta)
    rows = t.lines()
    if rows and rows[-1] == "" and t.col == 0:
        rows = rows[:-1]
    return rows


class _Ref:
    """A second console without any live display: what a print / log / frame looks like on its own."""

    def __init__(self, cfg: dict) -> None:
        self.cfg = cfg
        self.file = io.StringIO()
        self.console = _console(cfg, self.file, live=False)
        self.pos = 0

    def _delta(self) -> str:
        v = self.file.getvalue()
        d = v[self.pos :]
        self.pos = len(v)
        return d

    def print(self, obj, **kw) -> List[str]:
        self.console.print(obj, **kw)
        return _lines_of(self._delta(), self.cfg["width"])

    def log(self, obj) -> List[str]:
        self.console.log(obj)
        return _lines_of(self._delta(), self.cfg["width"])

    def frame(self, obj) -> List[str]:
        """Rows of a live frame.  On a ``soft_wrap`` console a print neither wraps nor crops, the terminal
        would auto-wrap; a live frame row cannot do that (the region is counted in rows), so the reference
        for a frame there is: each logical line cut at the console width."""
        if not self.cfg.get("soft_wrap"):
            return self.print(obj)
        self.console.print(obj)
        t = Term().feed(self._delta())
        rows = ["".join(t.rows.get(r, [])[: self.cfg["width"]]).rstrip() for r in range(0, t.max_row + 1)]
        if rows and rows[-1] == "" and t.col == 0:
            rows = rows[:-1]
        return rows

    def out(self, obj) -> List[str]:
        self.console.out(obj)
        return _lines_of(self._delta(), self.cfg["width"])


def _strip_tail(rows: List[str]) -> List[str]:
    rows = list(rows)
    while rows and rows[-1] == "":
        rows.pop()
    return rows


class _SnapProgress(Progress):
    """Progress that remembers the renderable handed to its last refresh (observation only)."""

    vf_snapshot: Any = None

    def get_renderable(self):
        r = super().get_renderable()
        self.vf_snapshot = r
        return r


class PrintFault(Exception):
    """injected fault of a printed renderable (the ordinary-Exception flavour; BoomError is the other one)"""


class _Partial:
    """Printed renderable that emits ``rows`` rows and then raises ``exc`` (``exc=None``: the twin that does
    not raise, printed on the reference console to learn what those rows look like)."""

    def __init__(self, pid: int, rows: int, exc) -> None:
        self.pid, self.rows, self.exc = pid, rows, exc

    def __rich_console__(self, console, options):
        for i in range(self.rows):
            yield Text("B%d.%d" % (self.pid, i))
        if self.exc is not None:
            raise self.exc("printed renderable B%d after %d rows" % (self.pid, self.rows))


class _Armable:
    """Wraps a live renderable; while ``arm[0]`` is set every render of it raises BoomError."""

    def __init__(self, inner, arm: list) -> None:
        self.inner, self.arm = inner, arm

    def __rich_console__(self, console, options):
        if self.arm[0]:
            self.arm[1] += 1
            raise BoomError("armed live renderable")
        yield self.inner


def _progress_columns(name: str, arm: Optional[list] = None):
    if name == "armed":  # the frame contains a renderable that can be made to raise while the table is rendered
        return [TextColumn("{task.description} {task.completed}/{task.total}"), RenderableColumn(_Armable(Text("ok"), arm))]
    if name == "text":
        return [TextColumn("{task.description} {task.completed}/{task.total}")]
    if name == "spinner":
        return [SpinnerColumn(), TextColumn("{task.description}"), BarColumn(bar_width=10)]
    if name == "bar":
        return [
            TextColumn("[progress.description]{task.description}"),
            BarColumn(),
            TextColumn("[progress.percentage]{task.percentage:>3.0f}%"),
            TimeRemainingColumn(),
        ]
    raise ValueError(name)


# --------------------------------------------------------------------------- history runner
class _Clock:
    def __init__(self, step: float) -> None:
        self.t = 0.0
        self.step = step

    def __call__(self) -> float:
        self.t += self.step
        return self.t


def run_history(cfg: dict, ops: List[list]) -> dict:
    """Run one history; returns {"fails": [...], "stats": {...}}.  Never leaves sys.stdout redirected."""
    orig_out, orig_err = sys.stdout, sys.stderr
    try:
        return _run_history(cfg, ops, orig_out, orig_err)
    finally:
        sys.stdout, sys.stderr = orig_out, orig_err


def _run_history(cfg: dict, ops: List[list], orig_out, orig_err) -> dict:
    W, H = cfg["width"], cfg["height"]
    kind = cfg["kind"]
    transient = True if kind == "Status" else bool(cfg.get("transient"))
    file = io.StringIO()
    console = _console(cfg, file, live=True)
    ref = _Ref(cfg)
    term = Term(W, H)
    fails: List[dict] = []
    seen_clauses = set()
    dead: List[str] = []

    def fail(check: str, what: str, expected, observed, at: int) -> None:
        if check in seen_clauses:
            return
        seen_clauses.add(check)
        dead.append(check)  # later operations of this history would only repeat the consequence
        fails.append(
            {"check": check, "what": what, "expected": expected, "observed": observed, "op_index": at}
        )

    # ----- object under check
    live = None
    progress = None
    status = None
    arm = [False, 0]  # [armed?, number of times the armed live renderable raised]
    armable = bool(cfg.get("armable")) or cfg.get("columns") == "armed"

    def build_live(spec):
        r = _build(spec)
        return _Armable(r, arm) if armable else r

    if kind == "Live":
        live = Live(
            build_live(cfg["initial"]),
            console=console,
            auto_refresh=False,
            transient=transient,
            vertical_overflow=cfg.get("overflow", "ellipsis"),
            redirect_stdout=bool(cfg.get("redirect", True)),
            redirect_stderr=bool(cfg.get("redirect", True)),
        )
    elif kind == "Progress":
        progress = _SnapProgress(
            *_progress_columns(cfg.get("columns", "text"), arm),
            console=console,
            auto_refresh=False,
            transient=transient,
            get_time=_Clock(0.25),
            redirect_stdout=bool(cfg.get("redirect", True)),
            redirect_stderr=bool(cfg.get("redirect", True)),
        )
    elif kind == "Status":
        status = Status("S0", console=console)
        status._live.auto_refresh = False  # no refresh thread: deterministic
    else:
        raise ValueError(kind)

    # ----- reference model
    committed: List[str] = []
    shown: Optional[List[str]] = None  # None: nothing of the live display is on screen
    started = False
    sessions = 0
    cur_spec = cfg.get("initial")  # Live: current renderable spec
    cur_status = "S0"
    max_h = 0  # Progress: tallest frame shown so far (bounds the tolerated padding)
    padding_rows = 0
    task_ids: List[int] = []
    heights = set()
    prints_live = 0
    uncropped_live = 0
    faults_live = 0
    ctx_counts: Dict[str, int] = {}
    pos = 0

    def full_frame() -> List[str]:
        if kind == "Live":
            return ref.frame(_build(cur_spec))
        if kind == "Status":
            return ref.frame(status._live.renderable)
        return ref.frame(progress.vf_snapshot)

    def frame(final: bool = False) -> List[str]:
        rows = full_frame()
        if kind == "Live" and not final and len(rows) > H:
            ov = cfg.get("overflow", "ellipsis")
            if ov == "crop":
                rows = rows[:H]
            elif ov == "ellipsis":
                rows = rows[: H - 1] + [(" " * ((W - 3) // 2) + "...")[:W].rstrip()]
        return rows

    def suffix() -> str:
        return ":restart" if sessions > 1 else ""

    n_exec = 0
    all_ops = list(ops)
    idx = -1
    while True:
        idx += 1
        if dead:
            if started:
                try:
                    (live or progress or status).stop()
                except Exception:
                    pass
            break
        if idx < len(all_ops):
            op = all_ops[idx]
        elif started:
            op = ["stop"]  # every history ends stopped
        else:
            break
        name = op[0]
        floor_before = len(committed)
        was_started = started
        stopping = False
        eff = op
        if name == "badframe":  # ["badframe", inner op]: the live renderable raises while the inner op renders it
            eff = op[1]
            name = eff[0]
            arm[0] = True
        raised_before = arm[1]
        fault: Optional[BaseException] = None
        expect_raise = False
        partial: List[str] = []
        skip = False
        # ---------------- execute on rich and on the model (the model is only updated when the call returned)
        try:
            if name == "print":
                opts = eff[2] if len(eff) > 2 else {}
                console.print(eff[1], **opts)
                committed += ref.print(eff[1], **opts)
                if started:
                    prints_live += 1
                    if opts or cfg.get("soft_wrap"):
                        uncropped_live += 1
                    if kind != "Progress":
                        shown = frame()
            elif name == "out":
                console.out(eff[1])
                committed += ref.out(eff[1])
                if started:
                    prints_live += 1
                    uncropped_live += 1
                    if kind != "Progress":
                        shown = frame()
            elif name == "badprint":  # ["badprint", id, rows, print options, 1: BaseException flavour]
                expect_raise = True
                partial = ref.print(_Partial(eff[1], eff[2], None), **eff[3])
                console.print(_Partial(eff[1], eff[2], BoomError if eff[4] else PrintFault), **eff[3])
            elif name == "log":
                console.log(eff[1])
                committed += ref.log(eff[1])
                if started:
                    prints_live += 1
                    if cfg.get("soft_wrap"):
                        uncropped_live += 1
                    if kind != "Progress":
                        shown = frame()
            elif name == "stdout":
                if started and cfg.get("redirect", True) and sys.stdout is not orig_out:
                    sys.stdout.write(eff[1] + "\n")
                    committed += ref.print(Text(eff[1]), markup=False, emoji=False, highlight=False)
                    prints_live += 1
                    if cfg.get("soft_wrap"):
                        uncropped_live += 1
                    if kind != "Progress":
                        shown = frame()
                else:
                    skip = True
            elif name == "update":  # Live
                cur_spec = eff[1]
                live.update(build_live(eff[1]), refresh=bool(eff[2]))
                if eff[2] and started:
                    shown = frame()
            elif name == "status":  # Status.update always refreshes
                cur_status = eff[1]
                status.update(eff[1])
                if started:
                    shown = frame()
            elif name == "refresh":
                if kind == "Live":
                    live.refresh()
                elif kind == "Status":
                    status._live.refresh()
                else:
                    progress.refresh()
                if started:
                    shown = frame()
            elif name == "add":
                tid = progress.add_task(eff[1], total=eff[2], visible=bool(eff[3]), start=bool(eff[4]))
                task_ids.append(tid)
                if started:
                    shown = frame()
            elif name == "advance":
                if not task_ids:
                    skip = True
                else:
                    progress.advance(task_ids[eff[1] % len(task_ids)], eff[2])
            elif name == "visible":
                if not task_ids:
                    skip = True
                else:
                    progress.update(task_ids[eff[1] % len(task_ids)], visible=bool(eff[2]), refresh=bool(eff[3]))
                    if eff[3] and started:
                        shown = frame()
            elif name == "remove":
                if not task_ids:
                    skip = True
                else:
                    progress.remove_task(task_ids.pop(eff[1] % len(task_ids)))
            elif name == "start":
                (live or progress or status).start()
                if not started:
                    started = True
                    sessions += 1
                    shown = frame() if kind == "Progress" else None
            elif name == "stop":
                (live or progress or status).stop()
                if started:
                    stopping = True
                    started = False
                    shown = frame(final=True)
            else:
                raise ValueError(op)
        except (BoomError, PrintFault) as error:
            fault = error
        finally:
            arm[0] = False
        if skip:
            continue
        if arm[1] > raised_before:
            expect_raise = True
        if expect_raise and fault is None:
            fail(
                "c10.fault_propagates",
                "op #%d %s: a renderable raised while it was rendered but the call returned normally"
                % (idx, json.dumps(op)),
                "exception propagates out of the call",
                "no exception",
                idx,
            )
        if fault is not None:
            if eff is not op and name == "print":
                partial = ref.print(eff[1], **(eff[2] if len(eff) > 2 else {}))
            elif eff is not op and name == "out":
                partial = ref.out(eff[1])
            if was_started:
                faults_live += 1
        n_exec += 1
        if shown is not None:
            heights.add(len(_strip_tail(shown)))
            max_h = max(max_h, len(shown))

        # ---------------- replay and compare
        value = file.getvalue()
        delta = value[pos:]
        pos = len(value)
        term.set_floor(floor_before)
        term.feed(delta)
        # a print / log whose wrap and crop options are not the ones a refresh of the display uses: reported
        # under its own clause names (same checks, same strictness)
        uncropped = was_started and (
            name == "out"
            or (name == "print" and len(eff) > 2 and bool(eff[2]))
            or (bool(cfg.get("soft_wrap")) and name in ("print", "log", "stdout"))
        )
        ctx = "stop" if stopping else ("fault" if fault is not None else ("uncropped_print" if uncropped else "op"))
        ctx_counts[ctx] = ctx_counts.get(ctx, 0) + 1
        ctx += suffix()
        if fault is not None:
            # tolerance (3): take over whichever admissible outcome the screen shows; none fits: compared
            # against "nothing was printed, the frame shown before is still there" below
            frames = [shown]
            if started and kind != "Progress" and op[0] == "badprint":
                frames.append(frame())
            seen_now = term.content()
            chosen = None
            for j in range(len(partial) + 1):
                for fr in frames:
                    if chosen is None and seen_now == _strip_tail(committed + partial[:j] + (fr or [])):
                        chosen = (partial[:j], fr)
            if chosen is not None:
                committed = committed + chosen[0]
                shown = chosen[1]

        if stopping:
            if transient:
                expected = committed
                exp_row = len(committed)
            else:
                if not shown:
                    # a frame of zero rows still occupies the row the cursor was on; it is committed blank
                    shown = [""]
                k = term.row - (len(committed) + len(shown))
                if kind == "Progress" and 0 < k <= max_h - len(shown) and all(
                    term.line(r) == "" for r in range(len(committed) + len(shown), term.row)
                ):
                    padding_rows += k
                    shown = shown + [""] * k
                committed = committed + shown
                expected = committed
                exp_row = len(committed)
            shown = None
        else:
            expected = committed + (shown or [])
            exp_row = None

        got = term.content()
        if got != _strip_tail(expected):
            d = 0
            e = _strip_tail(expected)
            while d < len(got) and d < len(e) and got[d] == e[d]:
                d += 1
            fail(
                "c10.screen_after_" + ctx,
                "after op #%d %s: screen differs from printed lines ++ last refreshed frame at row %d"
                % (idx, json.dumps(op), d),
                {"rows": e[max(0, d - 2) : d + 4], "from_row": max(0, d - 2), "n_rows": len(e)},
                {"rows": got[max(0, d - 2) : d + 4], "from_row": max(0, d - 2), "n_rows": len(got)},
                idx,
            )
        # cursor row: exact when nothing live is on screen, bounded below while a frame is shown
        if not started:
            if term.row != len(committed) or term.col != 0:
                fail(
                    "c10.cursor_position_" + ctx,
                    "after op #%d %s with no live display the cursor is not at the start of the row after "
                    "the committed output" % (idx, json.dumps(op)),
                    {"row": len(committed), "col": 0},
                    {"row": term.row, "col": term.col},
                    idx,
                )
        elif shown is not None:
            low = len(committed) + max(len(shown), 1) - 1
            exact = kind != "Progress"
            if term.row < low or (exact and term.row != low):
                fail(
                    "c10.cursor_position_" + ctx,
                    "after op #%d %s the cursor is not on the last row of the live frame"
                    % (idx, json.dumps(op)),
                    {"row": low, "exact": exact},
                    {"row": term.row},
                    idx,
                )
        if term.below_floor or term.above_top:
            fail(
                "c10.cursor_above_live" + suffix(),
                "during op #%d %s the cursor moved above the live region (first row of it: %d)"
                % (idx, json.dumps(op), floor_before),
                {"min_row": floor_before},
                {"events": term.events[:3]},
                idx,
            )
        if term.above_viewport:
            fail(
                "c10.cursor_in_viewport" + suffix(),
                "during op #%d %s the cursor moved above the top of a %d-row window (a terminal clamps there)"
                % (idx, json.dumps(op), H),
                {"height": H},
                {"events": [e for e in term.events if e[0] == "above_viewport"][:1], "bottom_row": term.max_row},
                idx,
            )
        if stopping:
            if not term.visible:
                fail(
                    "c10.cursor_visible_after_stop",
                    "cursor still hidden after stop (op #%d)" % idx,
                    True,
                    False,
                    idx,
                )
            if sys.stdout is not orig_out or sys.stderr is not orig_err:
                fail(
                    "c10.redirect_restored_after_stop",
                    "sys.stdout / sys.stderr not restored after stop (op #%d)" % idx,
                    "originals",
                    [type(sys.stdout).__name__, type(sys.stderr).__name__],
                    idx,
                )
                sys.stdout, sys.stderr = orig_out, orig_err
            if console._render_hooks:
                fail(
                    "c10.hook_popped_after_stop",
                    "render hook stack not empty after stop (op #%d)" % idx,
                    0,
                    len(console._render_hooks),
                    idx,
                )
        if term.unknown:
            fail("c10.harness_unknown_sequence", "terminal model met a sequence it does not know", [], term.unknown[:3], idx)

    nontrivial = sessions >= 1 and prints_live >= 1 and len(heights) >= 2
    return {
        "fails": fails,
        "stats": {
            "ops": n_exec,
            "sessions": sessions,
            "prints_live": prints_live,
            "uncropped_live": uncropped_live,
            "faults_live": faults_live,
            "n_fault_ops": ctx_counts.get("fault", 0),
            "n_uncropped_ops": ctx_counts.get("uncropped_print", 0),
            "heights": sorted(heights),
            "padding_rows": padding_rows,
            "nontrivial": nontrivial,
        },
    }


# --------------------------------------------------------------------------- generators
_WIDTHS = [12, 20, 40, 80, 120]


def _gen_text(rng: random.Random, n: int, cfg: dict) -> str:
    r = rng.random()
    if r < 0.55:
        return "p%d" % n
    if r < 0.7:
        return "p%da\np%db" % (n, n)
    if r < 0.8:
        return "p%d " % n + " ".join("word%d" % i for i in range(rng.randint(3, 14)))
    if r < 0.9 and cfg.get("color"):
        return "[bold red]p%d[/] [green]ok[/]" % n
    if r < 0.95:
        return ""
    return "p%d\n\np%dz" % (n, n)


def _gen_spec(rng: random.Random, fid: int, max_lines: int, tall: bool) -> list:
    r = rng.random()
    if tall:
        n = rng.choice([0, 1, max_lines // 2, max_lines - 1, max_lines, max_lines + 1, 2 * max_lines, 2 * max_lines + 3])
        return ["lines", fid, n] if r < 0.8 else ["table", fid, n]
    n = rng.choice([0, 0, 1, 1, 2, 3, 5, max_lines])
    if r < 0.6:
        return ["lines", fid, n]
    if r < 0.72:
        return ["panel", fid, min(n, max_lines - 2)]
    if r < 0.82:
        return ["table", fid, min(n, max_lines - 4)]
    if r < 0.92:
        return ["wrap", fid, rng.randint(1, 12)]
    return ["styled", fid, n]


def gen_case(rng: random.Random, tall: bool = False) -> Tuple[dict, List[list]]:
    kind = "Live" if tall else rng.choice(["Live", "Live", "Progress", "Progress", "Status"])
    cfg: Dict[str, Any] = {
        "kind": kind,
        "width": rng.choice(_WIDTHS[1:] if tall else _WIDTHS),
        "height": rng.choice([4, 6, 9]) if tall else 25,
        "color": rng.choice([None, "standard"]),
        "transient": rng.random() < 0.5,
        "log_time": rng.random() < 0.3,
        "redirect": rng.random() < 0.8,
        "restart": rng.random() < 0.35,
    }
    max_lines = cfg["height"] if tall else 8
    if kind == "Live":
        cfg["overflow"] = rng.choice(["crop", "ellipsis"]) if tall else rng.choice(["crop", "ellipsis", "visible"])
        cfg["initial"] = _gen_spec(rng, 0, max_lines, tall)
    if kind == "Progress":
        cfg["columns"] = rng.choice(["text", "text", "spinner", "bar"])
    n_ops = rng.randint(4, MAX_OPS)
    ops: List[list] = []
    started = False
    ever_stopped = False
    n_print = 0
    fid = 0
    n_tasks = 0
    for _ in range(rng.randint(0, 2)):
        n_print += 1
        ops.append(["print", _gen_text(rng, n_print, cfg)])
    if kind == "Progress" and rng.random() < 0.3:
        ops.append(["add", "T0", 10, 1, 1])
        n_tasks += 1
    while len(ops) < n_ops:
        if not started:
            if ever_stopped and not cfg["restart"]:
                if rng.random() < 0.5:
                    break
                n_print += 1
                ops.append(["print", _gen_text(rng, n_print, cfg)])
                continue
            if rng.random() < 0.75:
                ops.append(["start"])
                started = True
            else:
                n_print += 1
                ops.append([rng.choice(["print", "log"]), _gen_text(rng, n_print, cfg) or "e"])
            continue
        r = rng.random()
        if r < 0.22:
            n_print += 1
            ops.append(["print", _gen_text(rng, n_print, cfg)])
        elif r < 0.32:
            n_print += 1
            ops.append(["log", _gen_text(rng, n_print, cfg) or "l%d" % n_print])
        elif r < 0.37:
            n_print += 1
            ops.append(["stdout", "o%d" % n_print])
        elif r < 0.42:
            ops.append(["refresh"])
        elif r < 0.46:
            ops.append(["stop"])
            started = False
            ever_stopped = True
        elif r < 0.48:
            ops.append(["start"])  # start while started: no-op by contract
        elif kind == "Live":
            fid += 1
            ops.append(["update", _gen_spec(rng, fid, max_lines, tall), 1 if rng.random() < 0.7 else 0])
        elif kind == "Status":
            fid += 1
            n = rng.choice([1, 1, 1, 2, 3])
            ops.append(["status", "\n".join("S%d.%d" % (fid, i) for i in range(n))])
        else:
            q = rng.random()
            if q < 0.3 and n_tasks < 5:
                ops.append(["add", "T%d" % fid, rng.choice([1, 10, 100]), 1 if rng.random() < 0.85 else 0, 1 if rng.random() < 0.8 else 0])
                fid += 1
                n_tasks += 1
            elif q < 0.55:
                ops.append(["advance", rng.randint(0, 4), rng.choice([1, 1, 2, 0.5, 50])])
            elif q < 0.85:
                ops.append(["visible", rng.randint(0, 4), rng.randint(0, 1), 1 if rng.random() < 0.7 else 0])
            elif n_tasks:
                ops.append(["remove", rng.randint(0, 4)])
                n_tasks -= 1
                ops.append(["refresh"])
    ops = ops[:MAX_OPS]
    return cfg, ops


# --------------------------------------------------------------------------- uncropped prints / faults in histories
_PRINT_PATHS = [{}, {"soft_wrap": True}, {"crop": False}]


def gen_fault_history(rng: random.Random) -> Tuple[dict, List[list]]:
    """A history of ``gen_case`` in which some prints take an uncropped path and into which failing prints
    (``badprint``) and failing frame renders (``badframe``) are inserted; the body carries on after each."""
    cfg, base = gen_case(rng, False)
    kind = cfg["kind"]
    cfg["soft_wrap"] = rng.random() < 0.2
    if kind == "Live":
        cfg["armable"] = rng.random() < 0.7
    elif kind == "Progress" and rng.random() < 0.5:
        cfg["columns"] = "armed"
    armable = bool(cfg.get("armable")) or cfg.get("columns") == "armed"
    ops: List[list] = []
    n_fault = 0
    for op in base:
        if op[0] == "print" and rng.random() < 0.6:
            q = rng.random()
            op = ["out", op[1]] if q < 0.25 else ["print", op[1], dict(rng.choice(_PRINT_PATHS[1:]))]
        ops.append(op)
        if rng.random() < 0.22:
            n_fault += 1
            if armable and rng.random() < 0.4:
                inner = rng.choice([
                    ["print", "q%d" % n_fault, dict(rng.choice(_PRINT_PATHS))],
                    ["print", "q%d" % n_fault, dict(rng.choice(_PRINT_PATHS[1:]))],
                    ["out", "q%d" % n_fault],
                ] + ([["refresh"]] if kind == "Live" else []))
                ops.append(["badframe", inner])
            else:
                ops.append(["badprint", n_fault, rng.choice([0, 1, 1, 2, 4]), dict(rng.choice(_PRINT_PATHS)), rng.randint(0, 1)])
    return cfg, ops[:MAX_OPS]


def directed_fault_histories() -> List[Tuple[dict, List[list]]]:
    """Exhaustive small family: a display showing a frame of h rows, two committed prints, then one failing
    call (a printed renderable raising after r rows on each print path, or the frame raising under each print
    path / a refresh), then either another print or nothing, then stop (= the exception leaving the with block
    right away when nothing follows)."""
    out = []
    for kind in ("Live", "Progress", "Status"):
        for h in (1, 2, 3, 5):
            for follow in ([["print", "after"]], []):
                calls = [["badprint", 1, r, dict(o), r % 2] for o in _PRINT_PATHS for r in (0, 1, 2)]
                if kind != "Status":
                    calls += [["badframe", ["print", "q", dict(o)]] for o in _PRINT_PATHS] + [["badframe", ["out", "q"]]]
                if kind == "Live":
                    calls.append(["badframe", ["refresh"]])
                for call in calls:
                    cfg: Dict[str, Any] = {"kind": kind, "width": 40, "height": 25, "color": None,
                                           "transient": bool(h == 2 and not follow), "log_time": False,
                                           "redirect": True, "restart": False}
                    pre: List[list] = []
                    if kind == "Live":
                        cfg.update(overflow="ellipsis", initial=["lines", 0, h], armable=True)
                    elif kind == "Progress":
                        cfg["columns"] = "armed"
                        pre = [["add", "T%d" % i, 10, 1, 1] for i in range(h)]
                    ops = pre + [["start"]]
                    if kind == "Status":
                        ops.append(["status", "\n".join("S1.%d" % i for i in range(h))])
                    ops += [["print", "one"], ["print", "two"], call] + follow
                    out.append((cfg, ops))
    return out


# --------------------------------------------------------------------------- fault injection
class BoomError(BaseException):
    """injected fault: deliberately NOT an Exception subclass (a KeyboardInterrupt-like fault must be
    cleaned up after too: `except Exception` is not enough)"""


class BlockError(Exception):
    pass


class _Boom:
    """Renderable that raises on its k-th render call (persist: on every call from the k-th on)."""

    def __init__(self, k: Optional[int], persist: bool, lines: int = 2) -> None:
        self.k, self.persist, self.lines = k, persist, lines
        self.calls = 0
        self.raised = 0

    def _hit(self) -> None:
        self.calls += 1
        if self.k is not None and (self.calls == self.k or (self.persist and self.calls > self.k)):
            self.raised += 1
            raise BoomError("render call %d" % self.calls)

    def __rich_console__(self, console, options):
        self._hit()
        for i in range(self.lines):
            yield Text("boom%d" % i)


class _BoomColumn(ProgressColumn):
    def __init__(self, boom: _Boom) -> None:
        self.boom = boom
        super().__init__()

    def render(self, task):
        self.boom._hit()
        return Text("col")


_FAULT_BODIES = {
    "Live": [
        [["refresh"], ["print", "a"], ["update", 1], ["log", "b"], ["update", 0], ["stdout", "c"], ["refresh"]],
        [["print", "a"], ["print", "b"]],
        [],
    ],
    "Status": [
        [["print", "a"], ["status"], ["log", "b"], ["stdout", "c"], ["status"]],
        [],
    ],
    "Progress": [
        [["add"], ["print", "a"], ["advance"], ["refresh"], ["log", "b"], ["add"], ["stdout", "c"], ["visible"]],
        [["add"]],
        [],
    ],
}


def run_fault(cfg: dict, body: List[list], k: Optional[int], persist: bool, block_at: Optional[int]) -> dict:
    """One fault-injection run.  ``cfg['carrier']``: 'renderable' | 'column' (Progress only)."""
    orig_out, orig_err = sys.stdout, sys.stderr
    try:
        return _run_fault(cfg, body, k, persist, block_at, orig_out, orig_err)
    finally:
        sys.stdout, sys.stderr = orig_out, orig_err


def _run_fault(cfg, body, k, persist, block_at, orig_out, orig_err) -> dict:
    kind = cfg["kind"]
    file = io.StringIO()
    console = _console(cfg, file, live=True)
    boom = _Boom(k, persist)
    phase = ["construct"]
    calls_at_block = [0]
    caught: Optional[BaseException] = None
    redirect = bool(cfg.get("redirect", True))
    try:
        if kind == "Live":
            cm = Live(boom, console=console, auto_refresh=False, transient=bool(cfg.get("transient")),
                      redirect_stdout=redirect, redirect_stderr=redirect)
        elif kind == "Status":
            cm = Status(boom, console=console)
            cm._live.auto_refresh = False
        else:
            if cfg.get("carrier") == "column":
                cols = [TextColumn("{task.description}"), _BoomColumn(boom)]
            else:
                cols = [TextColumn("{task.description}"), RenderableColumn(boom)]
            cm = Progress(*cols, console=console, auto_refresh=False, transient=bool(cfg.get("transient")),
                          get_time=_Clock(0.25), redirect_stdout=redirect, redirect_stderr=redirect)
            if cfg.get("pre_task", True):
                cm.add_task("T")
        phase[0] = "start"
        with cm:
            tasks = list(getattr(cm, "task_ids", []))
            for i, op in enumerate(body):
                if block_at is not None and i == block_at:
                    phase[0] = "block"
                    calls_at_block[0] = boom.calls
                    raise BlockError(i)
                phase[0] = op[0]
                name = op[0]
                if name == "print":
                    console.print(op[1])
                elif name == "log":
                    console.log(op[1])
                elif name == "stdout":
                    if sys.stdout is not orig_out:  # only when redirected: never write to the real stdout
                        sys.stdout.write(op[1] + "\n")
                elif name == "refresh":
                    (cm._live if kind == "Status" else cm).refresh()
                elif name == "update":
                    cm.update(boom, refresh=bool(op[1]))
                elif name == "status":
                    cm.update(boom)
                elif name == "add":
                    tasks.append(cm.add_task("N%d" % i))
                elif name == "advance":
                    if tasks:
                        cm.advance(tasks[0], 1)
                elif name == "visible":
                    if tasks:
                        cm.update(tasks[0], visible=False, refresh=True)
                    else:
                        cm.refresh()
                else:
                    raise ValueError(op)
            if block_at is not None and block_at >= len(body):
                phase[0] = "block"
                calls_at_block[0] = boom.calls
                raise BlockError(len(body))
            phase[0] = "stop"
    except (BoomError, BlockError) as error:
        caught = error
    where = phase[0]
    term = Term().feed(file.getvalue())
    problems = []
    if sys.stdout is not orig_out:
        problems.append("sys.stdout is %s" % type(sys.stdout).__name__)
    if sys.stderr is not orig_err:
        problems.append("sys.stderr is %s" % type(sys.stderr).__name__)
    if console._render_hooks != []:
        problems.append("%d render hook(s) left" % len(console._render_hooks))
    if term.dectcem and term.dectcem[-1] is not True:
        problems.append("cursor left hidden (last DECTCEM is hide)")
    propagated = True
    if block_at is not None:
        # the block's own exception must come out, unless the renderable raised later (in stop)
        propagated = isinstance(caught, BlockError) or (isinstance(caught, BoomError) and boom.raised > 0)
    elif boom.raised:
        propagated = isinstance(caught, BoomError)
    return {
        "where": where,
        "problems": problems,
        "propagated": propagated,
        "raised": boom.raised,
        "calls": boom.calls,
        "calls_at_block": calls_at_block[0],
        "caught": type(caught).__name__ if caught else None,
    }


def _fault_cases(tier: str) -> List[Tuple[dict, List[list]]]:
    cases = []
    for kind, bodies in _FAULT_BODIES.items():
        for bi, body in enumerate(bodies):
            for transient in ([False, True] if kind != "Status" else [True]):
                carriers = ["renderable", "column"] if kind == "Progress" else ["renderable"]
                for carrier in carriers:
                    for redirect in ([True, False] if (tier == "thorough" or bi == 0) else [True]):
                        cfg = {"kind": kind, "width": 40, "height": 25, "color": None, "transient": transient,
                               "carrier": carrier, "redirect": redirect}
                        cases.append((cfg, body))
    return cases


def run_faults(tier: str, rng: random.Random, add_fail, clauses: Dict[str, int], samples: List[Any]) -> Tuple[int, int]:
    evaluations = 0
    distinct = set()
    cases = _fault_cases(tier)
    # random bodies as well
    n_random = 6 if tier == "quick" else 60
    for i in range(n_random):
        kind = rng.choice(["Live", "Progress", "Status"])
        pool = {
            "Live": [["refresh"], ["print", "x"], ["log", "y"], ["update", 1], ["update", 0], ["stdout", "z"]],
            "Status": [["print", "x"], ["log", "y"], ["status"], ["stdout", "z"], ["refresh"]],
            "Progress": [["add"], ["print", "x"], ["log", "y"], ["advance"], ["refresh"], ["visible"], ["stdout", "z"]],
        }[kind]
        body = [rng.choice(pool) for _ in range(rng.randint(1, 10))]
        cfg = {"kind": kind, "width": rng.choice([20, 80]), "height": 25, "color": rng.choice([None, "standard"]),
               "transient": kind == "Status" or rng.random() < 0.5,
               "carrier": rng.choice(["renderable", "column"]) if kind == "Progress" else "renderable",
               "redirect": True, "pre_task": rng.random() < 0.7}
        cases.append((cfg, body))

    def record(cfg, body, k, persist, block_at, res):
        nonlocal evaluations
        evaluations += 1
        clause = "c10.cleanup_on_exception:%s.%s" % (cfg["kind"], res["where"])
        clauses[clause] = clauses.get(clause, 0) + 1
        clauses["c10.exception_propagates"] = clauses.get("c10.exception_propagates", 0) + 1
        key = json.dumps([cfg, body, k, persist, block_at], sort_keys=True)
        if res["caught"]:
            distinct.add(key)
        inp = {"cfg": cfg, "body": body, "k": k, "persist": persist, "block_at": block_at}
        ik = "%s/%s/t%d/r%d/body%d/k%s%s/b%s" % (cfg["kind"], cfg.get("carrier", "r")[:3], int(bool(cfg.get("transient"))),
                                                  int(bool(cfg.get("redirect", True))), len(body), k,
                                                  "+" if persist else "", block_at)
        if res["problems"] and res["caught"]:
            add_fail(clause, "after %s escaped from %s.%s: %s" % (res["caught"], cfg["kind"], res["where"], "; ".join(res["problems"])),
                     ik, inp, "stdout/stderr originals, no render hook left, cursor shown", res["problems"], size=len(body) + (k or 0))
        if not res["propagated"]:
            add_fail("c10.exception_propagates", "exception raised inside %s.%s did not propagate" % (cfg["kind"], res["where"]),
                     ik, inp, "exception propagates", {"caught": res["caught"], "raised": res["raised"]}, size=len(body) + (k or 0))

    for cfg, body in cases:
        dry = run_fault(cfg, body, None, False, None)
        n_calls = dry["calls"]
        record(cfg, body, None, False, None, dry)
        if len(samples) < 6 and body:
            samples.append({"fault_case": {"cfg": cfg, "body": body, "render_calls": n_calls}})
        for k in range(1, n_calls + 1):
            for persist in (False, True):
                record(cfg, body, k, persist, None, run_fault(cfg, body, k, persist, None))
        for p in range(0, len(body) + 1):
            res = run_fault(cfg, body, None, False, p)
            record(cfg, body, None, False, p, res)
            # block exception followed by a renderable that fails during the final refresh in stop()
            k2 = res["calls_at_block"] + 1
            record(cfg, body, k2, True, p, run_fault(cfg, body, k2, True, p))
    return evaluations, len(distinct)


# --------------------------------------------------------------------------- minimisation
def _still_fails(cfg: dict, ops: List[list], clause: str) -> Optional[dict]:
    try:
        res = run_history(cfg, ops)
    except Exception:
        return None
    for f in res["fails"]:
        if f["check"] == clause:
            return f
    return None


def minimise(cfg: dict, ops: List[list], clause: str, budget: float = 4.0) -> Tuple[List[list], dict]:
    best = _still_fails(cfg, ops, clause)
    if best is None:
        return ops, {}
    t0 = time.time()
    # cut after the failing op first
    ops = ops[: best["op_index"] + 1]
    changed = True
    while changed and time.time() - t0 < budget:
        changed = False
        i = len(ops) - 1
        while i >= 0 and time.time() - t0 < budget:
            trial = ops[:i] + ops[i + 1 :]
            f = _still_fails(cfg, trial, clause)
            if f is not None:
                ops, best, changed = trial, f, True
            i -= 1
    return ops, best


# --------------------------------------------------------------------------- driver
def _case_batch(args) -> List[dict]:
    seed, lo, hi, tall_every = args[:4]
    family = args[4] if len(args) > 4 else "history"
    directed = directed_fault_histories() if family == "directed" else []
    out = []
    for i in range(lo, hi):
        rng = random.Random("c10:%d:%d" % (seed, i))
        tall = family == "history" and tall_every > 0 and i % tall_every == 0
        if family == "directed":
            cfg, ops = directed[i - _DIRECTED_BASE]
        elif family == "fault":
            cfg, ops = gen_fault_history(rng)
        else:
            cfg, ops = gen_case(rng, tall)
        try:
            res = run_history(cfg, ops)
        except Exception as error:  # an exception out of rich during a plain history
            import traceback

            res = {
                "fails": [
                    {
                        "check": "c10.no_exception",
                        "what": "history raised %s: %s" % (type(error).__name__, error),
                        "expected": "no exception",
                        "observed": traceback.format_exc(limit=-4),
                        "op_index": len(ops) - 1,
                    }
                ],
                "stats": {"ops": 0, "sessions": 0, "prints_live": 0, "uncropped_live": 0, "faults_live": 0,
                          "n_fault_ops": 0, "n_uncropped_ops": 0, "heights": [],
                          "padding_rows": 0, "nontrivial": False},
            }
        out.append({"i": i, "cfg": cfg, "ops": ops, "tall": tall, "family": family, "res": res})
    return out


_FAULT_BASE = 1000000  # case indices of the fault-history family (own random streams, the others are unchanged)
_DIRECTED_BASE = 2000000


def run(tier: str, seed: int) -> dict:
    t_start = time.time()
    quick = tier != "thorough"
    n_cases = 420 if quick else 24000
    tall_every = 4
    budget = 24.0 if quick else 420.0
    failures: List[dict] = []
    per_clause: Dict[str, int] = {}
    suppressed: Dict[str, int] = {}
    clauses: Dict[str, int] = {}
    samples: List[Any] = []
    pending: Dict[str, List[dict]] = {}

    def add_fail(check, what, input_key, inp, expected, observed, size=0, counted=True):
        if counted:
            per_clause[check] = per_clause.get(check, 0) + 1
        lst = pending.setdefault(check, [])
        lst.append({"check": check, "what": what, "input_key": input_key, "input": inp,
                    "expected": expected, "observed": observed, "_size": size})

    # ---- fault injection first (fixed cost)
    rng = random.Random("c10:faults:%d" % seed)
    f_evals, f_distinct = run_faults(tier, rng, add_fail, clauses, samples)

    # ---- histories
    batches = []
    step = 20 if quick else 100
    # the small families first: the time budget may only ever cut the tail of the big random one
    n_directed = len(directed_fault_histories())
    for lo in range(0, n_directed, 100):
        batches.append((seed, _DIRECTED_BASE + lo, _DIRECTED_BASE + min(n_directed, lo + 100), 0, "directed"))
    n_fault_hist = 60 if quick else 3000
    for lo in range(0, n_fault_hist, step):
        batches.append((seed, _FAULT_BASE + lo, _FAULT_BASE + min(n_fault_hist, lo + step), 0, "fault"))
    for lo in range(0, n_cases, step):
        batches.append((seed, lo, min(n_cases, lo + step), tall_every))
    results: List[dict] = []
    if quick:
        for b in batches:
            if time.time() - t_start > budget:
                break
            results.extend(_case_batch(b))
    else:
        import multiprocessing

        procs = min(16, os.cpu_count() or 1)
        with multiprocessing.get_context("fork").Pool(procs) as pool:
            for part in pool.imap(_case_batch, batches):
                results.extend(part)
                if time.time() - t_start > budget:
                    pool.terminate()
                    break
    results.sort(key=lambda r: r["i"])

    distinct = set()
    evaluations = f_evals
    padding_rows = 0
    kinds: Dict[str, int] = {}
    raw_fail: Dict[str, List[dict]] = {}
    for r in results:
        evaluations += 1
        st = r["res"]["stats"]
        padding_rows += st["padding_rows"]
        key = hashlib.sha1(json.dumps([r["cfg"], r["ops"]], sort_keys=True).encode()).hexdigest()
        if st["nontrivial"]:
            distinct.add(key)
        kk = r["cfg"]["kind"] + ("/tall" if r["tall"] else "") + ("" if r["family"] == "history" else "/" + r["family"])
        kinds[kk] = kinds.get(kk, 0) + 1
        n = st["ops"]
        restart = st["sessions"] > 1
        n_fault_ops, n_unc = st.get("n_fault_ops", 0), st.get("n_uncropped_ops", 0)
        for c in ("c10.screen_after_op", "c10.cursor_position_op"):
            clauses[c] = clauses.get(c, 0) + n - n_fault_ops - n_unc
        for c in ("c10.cursor_above_live", "c10.cursor_in_viewport"):
            clauses[c] = clauses.get(c, 0) + n
        if st["sessions"]:
            for c in ("c10.screen_after_stop", "c10.cursor_visible_after_stop", "c10.redirect_restored_after_stop",
                      "c10.hook_popped_after_stop", "c10.cursor_position_stop"):
                clauses[c] = clauses.get(c, 0) + st["sessions"]
        if n_fault_ops:
            for c in ("c10.fault_propagates", "c10.screen_after_fault", "c10.cursor_position_fault"):
                clauses[c] = clauses.get(c, 0) + n_fault_ops
        if n_unc:
            for c in ("c10.screen_after_uncropped_print", "c10.cursor_position_uncropped_print"):
                clauses[c] = clauses.get(c, 0) + n_unc
        if restart:
            for c in ("c10.screen_after_op:restart", "c10.screen_after_stop:restart", "c10.cursor_above_live:restart",
                      "c10.cursor_in_viewport:restart"):
                clauses[c] = clauses.get(c, 0) + 1
        if len(samples) < 10 and st["nontrivial"] and r["i"] % 7 == 0:
            samples.append({"cfg": r["cfg"], "ops": r["ops"][:12], "n_ops": len(r["ops"]), "stats": st})
        for f in r["res"]["fails"]:
            raw_fail.setdefault(f["check"], []).append({"r": r, "f": f})

    # ---- minimise and keep at most 3 per clause (smallest first)
    for check, items in raw_fail.items():
        items.sort(key=lambda it: (it["f"]["op_index"], len(it["r"]["ops"]), it["r"]["i"]))
        kept = 0
        seen_keys = set()
        # prefer one candidate per kind of display, then the rest; look at no more than 8 candidates
        by_kind: Dict[str, List[dict]] = {}
        for it in items:
            by_kind.setdefault(it["r"]["cfg"]["kind"], []).append(it)
        candidates = [lst[0] for lst in by_kind.values()] + [it for lst in by_kind.values() for it in lst[1:3]]
        for it in candidates[:8]:
            if kept >= MAX_FAIL_PER_CLAUSE:
                break
            cfg, ops = it["r"]["cfg"], it["r"]["ops"]
            f = it["f"]
            if check != "c10.no_exception" and time.time() - t_start < budget + (4 if quick else 40):
                ops2, f2 = minimise(cfg, ops, check, budget=1.5 if quick else 6.0)
                if f2:
                    ops, f = ops2, f2
            else:
                ops = ops[: f["op_index"] + 1]
            ik = "%s/w%d/h%d/%s/%s" % (cfg["kind"], cfg["width"], cfg["height"],
                                        "t" if (cfg.get("transient") or cfg["kind"] == "Status") else "p",
                                        hashlib.sha1(json.dumps([cfg, ops], sort_keys=True).encode()).hexdigest()[:10])
            sig = json.dumps([cfg["kind"], bool(cfg.get("transient")), [o[0] for o in ops]])
            if sig in seen_keys:
                continue
            seen_keys.add(sig)
            add_fail(check, f["what"], ik, {"cfg": cfg, "ops": ops, "case_index": it["r"]["i"], "seed": seed},
                     f["expected"], f["observed"], size=len(ops), counted=False)
            kept += 1
        per_clause[check] = len(items)

    for check, lst in pending.items():
        lst.sort(key=lambda d: d["_size"])
        seen = set()
        kept = 0
        for d in lst:
            sig = (d["what"],)
            if sig in seen:
                continue
            seen.add(sig)
            if kept < MAX_FAIL_PER_CLAUSE:
                d = dict(d)
                d.pop("_size")
                failures.append(d)
                kept += 1
        if per_clause.get(check, 0) > kept:
            suppressed[check] = per_clause[check] - kept

    return {
        "evaluations": evaluations,
        "distinct_nontrivial": len(distinct) + f_distinct,
        "rule": "histories: seeded random (seed, index) -> (configuration, <=40 ops); distinct by sha1 of (cfg, ops); "
                "non-trivial = display started, >=1 print/log while it is running and >=2 different frame heights "
                "shown. fault runs: every (case, k, persist) / (case, block position); non-trivial = an exception "
                "actually escaped. fault histories (case index >= 1000000: seeded random, >= 2000000: the directed "
                "enumeration): same runner, with uncropped prints and failing prints / failing frame renders that "
                "the body catches. Deterministic per seed (no threads: auto_refresh=False). Tolerance: trailing blank "
                "rows are not compared; blank padding rows below a shrunk Progress frame tolerated "
                "(padding_rows=%d in this run). Mix: %s" % (padding_rows, json.dumps(kinds, sort_keys=True)),
        "bound": "%d histories (<=%d ops) over {print, log, stdout write, update(+/-refresh), refresh, add/advance/"
                 "hide/show/remove task, start, stop} x {Live, Progress(text|spinner|bar columns), Status} x "
                 "transient x vertical_overflow x widths %s, height 25; every 4th history: Live with console "
                 "height in {4,6,9}, frames 0..2h+3 lines, overflow crop/ellipsis; frames: text lines, Panel, "
                 "Table, wrapped text, styled text, empty; of these %d fault histories (prints via soft_wrap / "
                 "crop=False / out / soft_wrap console; printed renderable raising after 0..4 rows, live "
                 "renderable or RenderableColumn raising under print/out/refresh) and %d directed ones ({Live, "
                 "Progress, Status} x frame height {1,2,3,5} x print path x rows before the raise {0,1,2} or "
                 "failing frame x {print afterwards, stop at once}); %d fault-injection runs (raise at every render-call "
                 "index k, once or persistently, renderable or column; exception at every block position)"
                 % (len(results), MAX_OPS, _WIDTHS, sum(1 for r in results if r["family"] == "fault"),
                    sum(1 for r in results if r["family"] == "directed"), f_evals),
        "samples": samples[:10],
        "clauses": clauses,
        "failures": failures,
        "failure_counts": per_clause,
        "suppressed": suppressed,
        "seconds": round(time.time() - t_start, 2),
    }
