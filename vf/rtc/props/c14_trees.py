"""C14, renderable-tree part (bounded): for every tree of built-in renderables with valid options and every width of at
least one cell, rendering and measuring terminate without raising.

``run_trees(tier, seed)`` (same return shape as a ``run``): every generated tree x sampled widths 1..200 -- the small widths,
the neighbourhood of smin on both sides (so: far below the structural minimum too), random ones, 200.  Each case is
time-boxed (SIGALRM in the worker's main thread); a timeout is a failure.

Clauses
  c14.render_terminates    ``Console.render(tree, options(width=W))`` consumed to the end
  c14.measure_terminates   ``Measurement.get(console, tree, W)``

The pool is the C01 generator in its "c14" mode: any ``leading`` (0..3), column ``ratio`` 0 allowed, and -- only here --
tables without any column (valid input: an empty result set).
"""
from __future__ import annotations

import random
import time
from typing import Any, Dict, Optional

from . import _trees as T
from .c09 import _aggregate

TIERS = {
    "quick": {"trees": 1500, "depth": 3, "nrand": 10, "chunk": 10},
    "thorough": {"trees": 30000, "depth": 4, "nrand": 18, "chunk": 50},
}
CASE_SECONDS = 5.0


def _consume(renderable, w: int) -> int:
    console = T.get_console(w)
    n = 0
    for _seg in console.render(renderable, console.options.update(width=w)):
        n += 1
    return n


def case_failures(d: T.Desc, renderable, w: int, counts: Optional[Dict[str, int]] = None):
    counts = {} if counts is None else counts
    out = []
    sm = T.smin(d)
    for clause, fn, exp in (("c14.render_terminates", lambda: _consume(renderable, w), "render terminates without raising"),
                            ("c14.measure_terminates", lambda: T.measure(renderable, w), "Measurement.get terminates without raising")):
        counts[clause] = counts.get(clause, 0) + 1
        ok, val = T.guarded(fn, CASE_SECONDS)
        if not ok:
            out.append((clause, exp, val, f"at width {w} (smin {sm}): {val}"))
    return out


def _tree_for(seed: int, idx: int, depth: int):
    rng = random.Random(f"c14:{seed}:trees:{idx}")
    d = T.gen_tree(rng, rng.choice([2, depth, depth]) if depth > 2 else depth, "c14")
    return rng, d


def _work(job) -> Dict[str, Any]:
    tier, seed, a, b = job
    cfg = TIERS[tier]
    out = {"evals": 0, "pairs": set(), "clauses": {}, "fails": [], "samples": [], "trees": 0, "nontrivial_trees": 0}
    for idx in range(a, b):
        rng, d = _tree_for(seed, idx, cfg["depth"])
        sm = T.smin(d)
        nontrivial = T.node_count(d) >= 2
        sig = T.sig_key(d)
        out["trees"] += 1
        out["nontrivial_trees"] += int(nontrivial)
        ok, r = T.guarded(lambda: T.build(d), CASE_SECONDS)
        if not ok:
            out["fails"].append({"check": "c14.render_terminates", "pool": "c14", "idx": idx, "w": 1, "desc": d,
                                 "expected": "constructors accept valid options", "observed": r, "what": f"building the tree raised: {r}"})
            continue
        any_fail = False
        for w in T.widths_all(rng, sm, 1, cfg["nrand"]):
            out["evals"] += 1
            if nontrivial:
                out["pairs"].add((sig, T.width_class(w, sm)))
            for check, expected, observed, what in case_failures(d, r, w, out["clauses"]):
                any_fail = True
                out["fails"].append({"check": check, "pool": "c14", "idx": idx, "w": w, "desc": d, "expected": expected,
                                     "observed": observed, "what": what})
        if idx == a and not any_fail and len(out["samples"]) < 1:
            out["samples"].append({"tree": T.short(d, 400), "smin": sm, "width": max(1, sm - 2), "segments": _consume(r, max(1, sm - 2))})
    return out


def _signature_of_error(obs: Any) -> str:
    s = str(obs)
    return s.split(":")[0] + (s[s.index(" at rich/"):] if " at rich/" in s else "")


def _minimise(f: Dict[str, Any], cheap: bool = False) -> Dict[str, Any]:
    check = f["check"]
    want = _signature_of_error(f["observed"])

    def probe(desc: T.Desc, r, w: int):
        for got in case_failures(desc, r, w):
            if got[0] == check and _signature_of_error(got[2]) == want:
                return got
        return None

    timeout_case = "timeout" in str(f["observed"])  # never re-run a hanging case again and again
    if cheap or timeout_case:
        d, w = f["desc"], f["w"]
        got = (check, f["expected"], f["observed"], f["what"])
    else:
        d, w = T.minimise(f["desc"], f["w"], lambda desc, r, x: probe(desc, r, x) is not None, lambda desc: 1,
                          extra_widths=lambda desc: [2, 3, 40])
        got = probe(d, T.build(d), w) or (check, f["expected"], f["observed"], f["what"])
    _, expected, observed, what = got
    return {"check": check, "what": what, "input_key": T.key_of(d, w, _signature_of_error(observed).split(" ")[0] + ":"),
            "input": {"tree": d, "width": w, "smin": T.smin(d),
                      "replay": "r = vf.rtc.props._trees.build(tree); vf.rtc.props.c14_trees.case_failures(tree, r, width)",
                      "found_as": {"index": f["idx"], "width": f["w"], "nodes": T.node_count(f["desc"])}},
            "expected": expected, "observed": observed}


def run_trees(tier: str = "quick", seed: int = 0) -> Dict[str, Any]:
    t0 = time.time()
    tier = tier if tier in TIERS else "quick"
    cfg = TIERS[tier]
    T.specnative.width_table()
    jobs = [(tier, seed, a, b) for a, b in T.chunk(cfg["trees"], cfg["chunk"])]
    parts = T.run_pool(_work, jobs)
    rule = ("a case is (renderable tree, width); trees are drawn deterministically from (seed, index); widths 1..5, smin-3..smin+2, "
            "smin/2, random ones in 1..200, 200. Distinct = distinct (tree shape signature, width class relative to smin) pairs; "
            "non-trivial = the tree has >= 2 nodes. Each case renders to the end and measures, time-boxed to 5 s.")
    bound = (f"tier {tier}: {cfg['trees']} trees of nesting depth <= {cfg['depth']} over Text/str/Rule/Bar/ProgressBar/Table/Panel/"
             "Padding/Align/Constrain/Columns/Tree/RenderGroup with every layout option of the C01 pool plus leading 0..3, ratio 0 and "
             "column-less tables; widths 1..200 including widths far below smin")
    # failures are diversified by error signature (exception type + raising location inside rich)
    return _aggregate(parts, _minimise, lambda f: _signature_of_error(f["observed"]), tier, cfg, t0, rule, bound)


run = run_trees
