"""C19 - the ANSI decoder inverts the encoder, and redirected output is never lost (bounded check).

(i) round trip: a styled Text (style domain of C03) is printed on a truecolor terminal console; the characters
    written are decoded with ``rich.ansi.AnsiDecoder`` and compared per character with the *specification* of
    the printed text: characters, attributes that are on, colours (kind / number / triplet, not names), links.
(ii) FileProxy: a reference model of "a line-buffering proxy" written from the property statement
    (pending text; every complete line printed once, in order; flush emits the pending text verbatim) is run
    against ``rich.file_proxy.FileProxy`` for every cut of a stream into write() calls, with empty writes and
    flushes interleaved; what reached ``Console.file`` is read back with the independent terminal model
    ``_sgr``. A small number of histories goes through ``Live`` / ``Progress`` (sys.stdout / sys.stderr).

Clauses
  c19.roundtrip_chars / _attrs / _colors / _links   (i)
  c19.lines_once       per write(): the visible text that reached the file == the lines completed by that
                       write, each followed by a newline (exactly once, in order, complete); no exception
  c19.lines_styled     flush-free histories: per character the same attributes / colours / link as the
                       written stream means on a terminal (SGR state carried across lines)
  c19.lines_styled_across_flush  histories with flushes that do not cut an escape sequence: the same, comparing the
                       non-newline characters (a flush may end the physical line; the styling in force carries on)
  c19.flush_verbatim   per flush(): the visible text emitted == the pending partial line (a trailing newline
                       is accepted), nothing when nothing is pending; no exception
                       (all three clauses also run over lines that hold a C0 control rich strips by design - BS, VT,
                       FF - in a plain or a styled run, before or after styled text: the oracle's terminal model leaves
                       such a control out of the visible cells on both sides, so dropping or keeping it is accepted;
                       every other character must arrive once, in order, with the styling it was written with)
  c19.undecodable_line a line holding a CSI sequence with a non-ASCII digit must not lose lines / raise
  c19.live_redirect    the same through Live / Progress redirection of sys.stdout and sys.stderr
"""
import io
import itertools
import json
import random
import sys
import time
import zlib

from . import _sgr
from . import c03

MAX_FAIL = 3
CLAUSES = (
    "c19.roundtrip_chars", "c19.roundtrip_attrs", "c19.roundtrip_colors", "c19.roundtrip_links",
    "c19.lines_once", "c19.lines_styled", "c19.lines_styled_across_flush", "c19.flush_verbatim", "c19.undecodable_line", "c19.live_redirect",
)

# ------------------------------------------------------------------------------------------ (i) round trip

RT_TEXTS = ("a", "xy", "日本", "w w", "Z", "[b]m[/b]", "é~", "0123456789", " ", "ｆｕｌｌ", "q:)", "--", "p\nq",
            "\n", "end\n")


def rt_cases(seed, pool, count):
    rng = random.Random(seed * 31337 + 5)
    cases = []
    p = 0
    for idx in range(count):
        n = 1 + idx % 4
        parts = []
        prev = "start"
        for pos in range(n):
            if (idx + pos) % 5 == 4 and prev not in ("start", None):
                spec = None
            else:
                spec = pool[p % len(pool)]
                p += 1
            text = RT_TEXTS[(idx * 7 + pos * 3 + rng.randrange(2)) % len(RT_TEXTS)]
            parts.append([text, spec])
            prev = c03.spec_key(spec)
        cases.append(parts)
    # directed: two runs with the same attributes and colours (hence the same SGR parameters) but different links, and a
    # linked run followed by the same style without a link
    k = 0
    for spec in pool:
        if spec is None or all(v is not True for v in spec["attrs"]) and spec["fg"] is None and spec["bg"] is None:
            continue
        a = dict(spec, link="http://one.example/a")
        b = dict(spec, link="http://two.example/b")
        c = dict(spec, link=None)
        cases.append([["x", a], ["y", b], ["z", c]])
        cases.append([["p", c], [" ", None], ["q", a], ["r", c]])
        k += 1
        if k >= 12:
            break
    return cases


def _observed_color(color):
    if color is None:
        return None
    kind = color.type.name
    if kind == "DEFAULT":
        return _sgr.DEFAULT
    if kind in ("STANDARD", "WINDOWS"):
        return ("std", color.number)
    if kind == "EIGHT_BIT":
        return _sgr.canon(("256", color.number))
    return ("rgb",) + tuple(int(v) for v in color.triplet)


def rt_evaluate(parts):
    from rich.ansi import AnsiDecoder
    from rich.console import Console
    from rich.style import Style
    from rich.text import Text

    file = io.StringIO()
    console = Console(file=file, color_system="truecolor", force_terminal=True, width=200, _environ={},
                      legacy_windows=False, no_color=False)
    pieces = []
    for text, spec in parts:
        pieces.append(text if spec is None else (text, c03.build_style(spec)))
    console.print(Text.assemble(*pieces, end=""), end="")
    out = file.getvalue()
    decoded = list(AnsiDecoder().decode(out))

    expected = []  # per character (char, on, fg, bg, link); newlines separate lines
    for text, spec in parts:
        if spec is None:
            on, fg, bg, link = frozenset(), None, None, None
        else:
            on = frozenset(n for n, v in zip(c03.ATTRS, spec["attrs"]) if v is True)
            fg = c03.colour_model(spec["fg"])
            bg = c03.colour_model(spec["bg"])
            link = spec["link"]
        for ch in text:
            expected.append((ch, on, fg, bg, link))
    exp_lines = [[]]
    for cell in expected:
        if cell[0] == "\n":
            exp_lines.append([])
        else:
            exp_lines[-1].append(cell)
    if exp_lines and not exp_lines[-1] and len(exp_lines) > 1:
        exp_lines.pop()  # a final newline does not start another line (str.splitlines convention)
    if not expected:
        exp_lines = []

    fails = []
    obs_plain = [t.plain for t in decoded]
    exp_plain = ["".join(c[0] for c in line) for line in exp_lines]
    evaluated = ["c19.roundtrip_chars"]
    if obs_plain != exp_plain:
        fails.append(("c19.roundtrip_chars", "decoded characters differ", exp_plain, obs_plain))
        return evaluated, fails, out
    evaluated += ["c19.roundtrip_attrs", "c19.roundtrip_colors", "c19.roundtrip_links"]
    seen = set()
    for li, (text, line) in enumerate(zip(decoded, exp_lines)):
        for k, (ch, on, fg, bg, link) in enumerate(line):
            style = Style.null()
            base = text.style
            if isinstance(base, Style):
                style = style + base
            for span in text.spans:
                if span.start <= k < span.end:
                    st = span.style if isinstance(span.style, Style) else Style.parse(span.style)
                    style = style + st
            o_on = frozenset(n for n in c03.ATTRS if getattr(style, n) is True)
            o_fg = _observed_color(style.color)
            o_bg = _observed_color(style.bgcolor)
            o_link = style.link
            where = "line %d char %d %r" % (li, k, ch)
            if o_on != on and "a" not in seen:
                seen.add("a")
                fails.append(("c19.roundtrip_attrs", "attributes differ at " + where, sorted(on), sorted(o_on)))
            if (o_fg, o_bg) != (fg, bg) and "c" not in seen:
                seen.add("c")
                fails.append(("c19.roundtrip_colors", "colours (fg, bg) differ at " + where, [fg, bg],
                              [o_fg, o_bg]))
            if o_link != link and "l" not in seen:
                seen.add("l")
                fails.append(("c19.roundtrip_links", "link differs at " + where, link, o_link))
    return evaluated, fails, out


def rt_minimise(parts, clause):
    def still(p):
        try:
            return any(f[0] == clause for f in rt_evaluate(p)[1])
        except Exception:
            return False

    cur = [list(p) for p in parts]
    changed = True
    while changed and len(cur) > 1:
        changed = False
        for k in range(len(cur)):
            cand = cur[:k] + cur[k + 1:]
            if still(cand):
                cur = cand
                changed = True
                break
    for k, (text, spec) in enumerate(cur):
        if len(text) > 1:
            cand = [list(p) for p in cur]
            cand[k][0] = text[0]
            if still(cand):
                cur = cand
        if spec is None:
            continue
        attrs = list(spec["attrs"])
        for a in range(13):
            if attrs[a] is not None:
                trial = list(attrs)
                trial[a] = None
                cand = [list(p) for p in cur]
                cand[k][1] = dict(cur[k][1], attrs=tuple(trial))
                if still(cand):
                    attrs = trial
                    cur = cand
        for key in ("fg", "bg", "link"):
            if cur[k][1][key] is not None:
                cand = [list(p) for p in cur]
                cand[k][1] = dict(cur[k][1], **{key: None})
                if still(cand):
                    cur = cand
    return cur


# ------------------------------------------------------------------------------------------ (ii) proxy

PLAIN_LINES = ("abc", "", "x y  z", "日本語", "tail  ", "  lead", "a-b_c.d",
               # characters that str.splitlines() treats as line boundaries but a "\n"-delimited stream does not
               "unit\x1csep", "next\x85line", "ls\u2028ps\u2029x")
SGR_LINES = (
    "\x1b[1mbold\x1b[0m",
    "\x1b[31;1mred\x1b[0m plain",
    "\x1b[38;5;100;48;2;1;2;3mc\x1b[0m",
    "\x1b[3mopen",          # not closed: the state carries to the next line
    "\x1b[0mafter",
    "\x1b]8;;http://x\x1b\\link\x1b]8;;\x1b\\ z",
    "\x1b]8;id=7;http://h/m;lat=5;lon=4/v?i=1;2\x1b\\semi\x1b]8;;\x1b\\ z",   # the URI itself contains ';' (only the first ends the params)
    # the same SGR parameter string twice in one line, after different earlier states (what it means depends on the state)
    "\x1b[1mb\x1b[3mbi\x1b[0m \x1b[3mi\x1b[0m",
    "\x1b]8;;http://a\x1b\\\x1b[4mA\x1b[0m\x1b]8;;\x1b\\ \x1b[4mU\x1b[0m",
    "a\x1b[mb",
    "\x1b[4;21;53;9mu\x1b[24mv\x1b[0m",
    "\x1b[97;100mB\x1b[39mC\x1b[49mD",
    "\x1b[1;32mB\x1b[mp",    # ESC [ m : empty parameter string = 0 = reset (as written by git, grep, ls)
    "\x1b[5;6mk\x1b[25ms",   # 25 = steady: neither slowly nor rapidly blinking
)
# lines holding a C0 control that is not a line boundary of a "\n"-delimited stream (backspace "spinner", vertical tab,
# form feed page break): whether the control itself reaches the file is left open (rich strips BS / VT / FF by design;
# ``_sgr`` keeps no control in the visible cells), every other character has to arrive with the styling it was written with
CTRL_LINES = (
    "spin |\x08/\x08- \x1b[32mdone\x1b[0m in 3s",            # control in a plain run, a styled run later in the line
    "page 1\x0c\x1b[1mTOTAL\x1b[0m 42 \x1b[31mFAILED\x1b[0m 1",
    "v\x0bt \x1b[38;2;1;2;3;48;5;100mX\x1b[0m y",
    "\x1b[1;4mbo\x08\x08ld\x1b[0m plain \x1b[3mi\x1b[0m.",    # control inside a styled run, plain text after it
    "a\x0cb \x1b]8;;http://l/k\x1b\\L\x1b]8;;\x1b\\ z",          # control before a linked run
    "\x1b[7mr\x1b[0m tail\x08\x0c",                            # control only after the last styled run
    "\x08",                                                   # nothing but a control
    "\x0b\x1b[9ms",                                            # control first; the style stays open for the next line
)
BRACKET_LINES = ("[bold]x", "[/x]y", "a[1]b", "[red]r[/red]", "][", ":smile:")
UNDECODABLE = "p\x1b[²mq"


def proxy_streams(seed, tier):
    """Streams of <= 4 lines. A stream is (list of lines, ends_with_newline)."""
    rng = random.Random(seed * 65537 + 11)
    pool = PLAIN_LINES + SGR_LINES + BRACKET_LINES + CTRL_LINES
    streams = []
    for line in pool:
        streams.append(([line], True))
        if line:
            streams.append(([line], False))
    pairs = [(a, b) for a in pool for b in pool]
    rng.shuffle(pairs)
    n_pairs = 40 if tier == "quick" else len(pairs)
    for a, b in pairs[:n_pairs]:
        streams.append(([a, b], rng.random() < 0.6))
    n_more = 60 if tier == "quick" else 1500
    for _ in range(n_more):
        k = rng.choice((3, 3, 4))
        lines = [rng.choice(pool) for _ in range(k)]
        if rng.random() < 0.3:
            lines[rng.randrange(k)] = ""
        streams.append((lines, rng.random() < 0.6))
    streams.append((["", "", "", "x"], True))  # many newlines
    streams.append((["a", "", "", ""], True))
    # directed: a line with a control (alone, at its end, in its middle) followed in the same stream - for the uncut
    # history in the same write() - by a line with styled text
    for first in ("\x08", "end\x0c", "x\x0by", CTRL_LINES[0]):
        for second in ("\x1b[31mred\x1b[0m z", "p \x1b[1mb\x1b[0m", CTRL_LINES[1]):
            streams.append(([first, second], True))
    streams.append((["k\x08", "", "\x1b[4mu\x1b[0m w", "t\x0c \x1b[2md"], False))
    return streams


def stream_text(stream):
    lines, nl = stream
    return "\n".join(lines) + ("\n" if nl else "")


def cut_sets(n, max_cuts, rng, exhaustive_upto, sample):
    """Cut position sets (positions 1..n-1), sizes 0..max_cuts. Exhaustive for sizes <= exhaustive_upto,
    ``sample`` random sets for each larger size."""
    positions = list(range(1, n))
    out = [()]
    for size in range(1, max_cuts + 1):
        if size > len(positions):
            break
        if size <= exhaustive_upto:
            out.extend(itertools.combinations(positions, size))
        else:
            seen = set()
            for _ in range(sample):
                c = tuple(sorted(rng.sample(positions, size)))
                if c not in seen:
                    seen.add(c)
                    out.append(c)
    return out


def history_from_cuts(text, cuts, variant, rng):
    """List of operations ["w", chunk] / ["f"]. Variants: 0 writes only; 1 flush after every write;
    2 one flush at a random boundary + an empty write; 3 empty writes around every chunk and a final flush."""
    bounds = [0] + list(cuts) + [len(text)]
    chunks = [text[a:b] for a, b in zip(bounds, bounds[1:])]
    ops = []
    if variant == 0:
        ops = [["w", c] for c in chunks]
    elif variant == 1:
        for c in chunks:
            ops.append(["w", c])
            ops.append(["f"])
    elif variant == 2:
        at = rng.randrange(len(chunks))
        for k, c in enumerate(chunks):
            ops.append(["w", c])
            if k == at:
                ops.append(["f"])
                ops.append(["w", ""])
    else:
        for c in chunks:
            ops.append(["w", ""])
            ops.append(["w", c])
        ops.append(["w", ""])
        ops.append(["f"])
    return ops


_INCOMPLETE = ("esc-unterminated", "csi-malformed", "osc-unterminated", "esc-malformed")


def _clean(text) -> bool:
    """No unterminated / malformed sequence: the visible text of ``text`` is well defined on its own."""
    return not any(kind in _INCOMPLETE for _o, kind, _t in _sgr.interpret(text).other)


def _cell_view(cells):
    return [(ch, None, None, None, None) if ch == "\n" else (ch, attrs, _sgr.canon(fg), _sgr.canon(bg), link)
            for ch, attrs, fg, bg, link in cells]


def proxy_evaluate(ops, via="direct"):
    """Run the operations against FileProxy and against the reference model."""
    from rich.console import Console
    from rich.file_proxy import FileProxy

    file = io.StringIO()
    console = Console(file=file, color_system="truecolor", force_terminal=True, width=200, _environ={},
                      legacy_windows=False, no_color=False)
    proxy = FileProxy(console, io.StringIO())
    pending = ""
    fails = []
    evaluated = []
    all_lines = []
    effective_flush = False
    flushed_clean = True
    mark = 0
    for k, op in enumerate(ops):
        if op[0] == "w":
            pending += op[1]
            done = []
            while "\n" in pending:
                line, pending = pending.split("\n", 1)
                done.append(line)
            try:
                proxy.write(op[1])
            except Exception as exc:
                evaluated.append("c19.lines_once")
                fails.append(("c19.lines_once", "op %d write(%r) raised %s: %s" % (
                    k, op[1], type(exc).__name__, exc), "no exception", repr(exc)))
                return evaluated, fails
            value = file.getvalue()
            delta, mark = value[mark:], len(value)
            all_lines.extend(done)
            if all(_clean(line) for line in done):
                evaluated.append("c19.lines_once")
                want = "".join(_sgr.strip(line) + "\n" for line in done)
                got = _sgr.strip(delta)
                if got != want:
                    fails.append(("c19.lines_once", "op %d write(%r): lines printed differ from lines completed"
                                  % (k, op[1]), want, got))
                    return evaluated, fails
        else:
            was = pending
            pending = ""
            try:
                proxy.flush()
            except Exception as exc:
                evaluated.append("c19.flush_verbatim")
                fails.append(("c19.flush_verbatim", "op %d flush() with pending %r raised %s: %s" % (
                    k, was, type(exc).__name__, exc), was, repr(exc)))
                return evaluated, fails
            value = file.getvalue()
            delta, mark = value[mark:], len(value)
            if was:
                effective_flush = True
                flushed_clean = flushed_clean and _clean(was)
            if _clean(was):
                evaluated.append("c19.flush_verbatim")
                want = _sgr.strip(was)
                got = _sgr.strip(delta)
                ok = (got == want or got == want + "\n") if was else (delta == "")
                if not ok:
                    fails.append(("c19.flush_verbatim", "op %d flush() with pending %r: emitted text differs"
                                  % (k, was), want, got))
                    return evaluated, fails
    if not effective_flush and all_lines and all(_clean(line) for line in all_lines):
        evaluated.append("c19.lines_styled")
        want = _cell_view(_sgr.interpret("".join(line + "\n" for line in all_lines)).cells)
        got = _cell_view(_sgr.interpret(file.getvalue()).cells)
        if want != got:
            idx = next((i for i, (a, b) in enumerate(zip(want, got)) if a != b), min(len(want), len(got)))
            fails.append(("c19.lines_styled", "styling differs at visible character %d" % idx,
                          c03._jsonable(want[idx]) if idx < len(want) else None,
                          c03._jsonable(got[idx]) if idx < len(got) else None))
    if effective_flush and flushed_clean and all(_clean(line) for line in all_lines):
        # the written stream, with whatever is still pending dropped, means the same characters with the same styling;
        # where the physical lines end is up to the flushes
        evaluated.append("c19.lines_styled_across_flush")
        written = "".join(op[1] for op in ops if op[0] == "w")
        if pending:
            written = written[: len(written) - len(pending)]
        want = [c for c in _cell_view(_sgr.interpret(written).cells) if c[0] != "\n"]
        got = [c for c in _cell_view(_sgr.interpret(file.getvalue()).cells) if c[0] != "\n"]
        if want != got:
            idx = next((i for i, (a, b) in enumerate(zip(want, got)) if a != b), min(len(want), len(got)))
            fails.append(("c19.lines_styled_across_flush", "styling differs at visible non-newline character %d" % idx,
                          c03._jsonable(want[idx]) if idx < len(want) else None,
                          c03._jsonable(got[idx]) if idx < len(got) else None))
    return evaluated, fails


def _signature(clause, what, exp, obs):
    """Coarse root-cause guess, used to report different kinds of failure of one clause."""
    if " raised " in what:
        return "raised:" + what.split(" raised ", 1)[1].split(":", 1)[0]
    if clause == "c19.flush_verbatim":
        if "\\x1b" in what:
            return "escape"
        if "[" in str(exp):
            return "markup"
        if ":" in str(exp):
            return "emoji"
        return "other"
    if clause == "c19.lines_styled" and isinstance(exp, list) and isinstance(obs, list):
        return "attrs:%s colours:%s" % (sorted(set(exp[1] or ()) ^ set(obs[1] or ())), exp[2:] != obs[2:])
    return "any"


def proxy_minimise(ops, clause, sig=None):
    def still(o):
        try:
            return any(f[0] == clause and (sig is None or _signature(
                clause, f[1], c03._jsonable(f[2]), c03._jsonable(f[3])) == sig)
                for f in proxy_evaluate(o)[1])
        except Exception:
            return False

    cur = [list(o) for o in ops]
    changed = True
    while changed and len(cur) > 1:
        changed = False
        for k in range(len(cur)):
            cand = cur[:k] + cur[k + 1:]
            if still(cand):
                cur = cand
                changed = True
                break
    # merge adjacent writes
    changed = True
    while changed:
        changed = False
        for k in range(len(cur) - 1):
            if cur[k][0] == "w" and cur[k + 1][0] == "w":
                cand = cur[:k] + [["w", cur[k][1] + cur[k + 1][1]]] + cur[k + 2:]
                if still(cand):
                    cur = cand
                    changed = True
                    break
    # shorten chunks from the front / back
    for k in range(len(cur)):
        if cur[k][0] != "w":
            continue
        progress = True
        while progress and len(cur[k][1]) > 1:
            progress = False
            text_k = cur[k][1]
            for cand_text in [text_k[1:], text_k[:-1]] + [text_k[:i] + text_k[i + 1:]
                                                         for i in range(1, len(text_k) - 1)]:
                cand = [list(o) for o in cur]
                cand[k][1] = cand_text
                if still(cand):
                    cur = cand
                    progress = True
                    break
    return cur


def undecodable_evaluate(ops):
    """Streams holding UNDECODABLE: only 'no exception, no line lost' is required (what such a sequence
    shows is not defined by ECMA-48): the neighbouring lines arrive once and in order."""
    from rich.console import Console
    from rich.file_proxy import FileProxy

    file = io.StringIO()
    console = Console(file=file, color_system="truecolor", force_terminal=True, width=200, _environ={})
    proxy = FileProxy(console, io.StringIO())
    text = ""
    try:
        for op in ops:
            if op[0] == "w":
                text += op[1]
                proxy.write(op[1])
            else:
                proxy.flush()
    except Exception as exc:
        return ["c19.undecodable_line"], [("c19.undecodable_line", "raised %s: %s" % (type(exc).__name__, exc),
                                           "no exception", repr(exc))]
    got = _sgr.strip(file.getvalue()).split("\n")
    want_lines = text.split("\n")[:-1]
    ok = len(got) == len(want_lines) + 1 and got[-1] == ""
    if ok:
        for w, g in zip(want_lines, got):
            if UNDECODABLE in w:
                ok = ok and g.startswith(w[0]) and g.endswith(w[-1])
            else:
                ok = ok and g == _sgr.strip(w)
    if not ok:
        return ["c19.undecodable_line"], [("c19.undecodable_line", "lines lost or changed", want_lines, got)]
    return ["c19.undecodable_line"], []


def live_evaluate(ops, kind):
    """ops: ["o", chunk] stdout write, ["e", chunk] stderr write, ["fo"] / ["fe"] flushes. Runs inside
    Live / Progress with redirection; everything must come out through the console, once, in order."""
    from rich.console import Console
    from rich.text import Text

    file = io.StringIO()
    console = Console(file=file, color_system="truecolor", force_terminal=True, width=200, _environ={})
    if kind == "live":
        from rich.live import Live

        ctx = Live(Text(""), console=console, auto_refresh=False, transient=True)
    else:
        from rich.progress import Progress

        ctx = Progress(console=console, auto_refresh=False, transient=True)
    pend = {"o": "", "e": ""}
    want = ""
    saved = (sys.stdout, sys.stderr)
    try:
        with ctx:
            for op in ops:
                stream = sys.stdout if op[0].endswith("o") else sys.stderr
                which = op[0][-1]
                if op[0] in ("o", "e"):
                    pend[which] += op[1]
                    while "\n" in pend[which]:
                        line, pend[which] = pend[which].split("\n", 1)
                        want += _sgr.strip(line) + "\n"
                    stream.write(op[1])
                else:
                    if pend[which]:
                        want += _sgr.strip(pend[which]) + "\n"
                    pend[which] = ""
                    stream.flush()
    except Exception as exc:
        sys.stdout, sys.stderr = saved
        return ["c19.live_redirect"], [("c19.live_redirect", "raised %s: %s" % (type(exc).__name__, exc),
                                        "no exception", repr(exc))]
    finally:
        restored = (sys.stdout, sys.stderr) == saved
        sys.stdout, sys.stderr = saved
    fails = []
    if not restored:
        fails.append(("c19.live_redirect", "sys.stdout / sys.stderr not restored", "restored", "not restored"))
    got = _sgr.strip(file.getvalue())
    if got.rstrip("\n") != want.rstrip("\n") or (want and not got.startswith(want)):
        fails.append(("c19.live_redirect", "visible text through %s differs" % kind, want, got))
    return ["c19.live_redirect"], fails


def live_histories(seed, count):
    rng = random.Random(seed * 4099 + 1)
    pool = PLAIN_LINES + SGR_LINES + ("a[1]b", "][") + CTRL_LINES
    hist = []
    for idx in range(count):
        text_o = "\n".join(rng.choice(pool) for _ in range(rng.randrange(1, 4))) + "\n"
        text_e = "\n".join(rng.choice(pool) for _ in range(rng.randrange(1, 3))) + "\n"
        if idx % 3 == 0:
            text_o += "part"  # markup-free partial line, flushed below
        chunks = []
        for which, text in (("o", text_o), ("e", text_e)):
            cuts = sorted(rng.sample(range(1, len(text)), min(len(text) - 1, rng.randrange(0, 4))))
            bounds = [0] + cuts + [len(text)]
            chunks.append([[which, text[a:b]] for a, b in zip(bounds, bounds[1:])])
        ops = []
        a, b = chunks
        while a or b:
            src = a if (a and (not b or rng.random() < 0.5)) else b
            ops.append(src.pop(0))
        ops.append(["fo"])
        ops.append(["fe"])
        hist.append(ops)
    return hist


# ------------------------------------------------------------------------------------------ driver


def _plan(tier):
    if tier == "quick":
        return {"blocks": 30, "rt": 1500, "levels": ((26, 2),), "sample": 6, "live": 40, "procs": 1,
                "variants": 1}
    # (max stream length, cut-set size enumerated exhaustively)
    return {"blocks": 80, "rt": 12000, "levels": ((10, 4), (15, 3), (34, 2)), "sample": 20, "live": 400,
            "procs": 16, "variants": 4}


_CASES_CACHE = {}


def _cases(tier, seed):
    key = (tier, seed)
    if key not in _CASES_CACHE:
        _CASES_CACHE.clear()
        _CASES_CACHE[key] = _build_cases(tier, seed)
    return _CASES_CACHE[key]


def _exhaustive_level(plan, n):
    for limit, size in plan["levels"]:
        if n <= limit:
            return size
    return 1


def _build_cases(tier, seed):
    """Cases; a "pxs" case is a whole stream: the worker enumerates its cut sets and decorations itself."""
    plan = _plan(tier)
    pool = c03.style_pool(seed, plan["blocks"], 40)
    cases = [("rt", parts) for parts in rt_cases(seed, pool, plan["rt"])]
    seen = set()
    k = 0
    for stream in proxy_streams(seed, tier):
        text = stream_text(stream)
        if text in seen or not text:
            continue
        seen.add(text)
        cases.append(("pxs", text, _exhaustive_level(plan, len(text)), plan["sample"], plan["variants"],
                      seed * 2221 + 9 + k, k))
        k += 1
    for before, after in (("abc", "xyz"), ("", "k"), ("\x1b[1mb\x1b[0m", "z")):
        text = before + "\n" + UNDECODABLE + "\n" + after + "\n"
        cases.append(("ud", [["w", text]]))
        for cut in range(1, len(text)):
            cases.append(("ud", [["w", text[:cut]], ["w", text[cut:]]]))
    for k, ops in enumerate(live_histories(seed, plan["live"])):
        cases.append(("lv", ops, "live" if k % 2 == 0 else "progress"))
    return plan, cases


def stream_histories(job):
    """All histories of one stream job, in a fixed order."""
    _kind, text, exhaustive, sample, variants, rseed, index = job
    rng = random.Random(rseed)
    vcount = index
    for cuts in cut_sets(len(text), 4, rng, exhaustive, sample):
        if variants == 1:
            chosen = (vcount % 4,)
            vcount += 1
        else:
            chosen = (0, 1, 2, 3)
        for v in chosen:
            yield history_from_cuts(text, cuts, v, rng)


def _eval_case(case):
    if case[0] == "rt":
        ev, fails, _out = rt_evaluate(case[1])
        return ev, fails
    if case[0] == "px":
        return proxy_evaluate(case[1])
    if case[0] == "ud":
        return undecodable_evaluate(case[1])
    return live_evaluate(case[1], case[2])


_FALLBACK = {"rt": "c19.roundtrip_chars", "px": "c19.lines_once", "ud": "c19.undecodable_line",
             "lv": "c19.live_redirect"}


def _eval_guarded(case):
    try:
        evaluated, fails = _eval_case(case)
    except Exception as exc:
        clause = _FALLBACK[case[0]]
        evaluated = [clause]
        fails = [(clause, "exception %s: %s" % (type(exc).__name__, exc), "no exception", repr(exc))]
    return evaluated, [(f[0], f[1], c03._jsonable(f[2]), c03._jsonable(f[3])) for f in fails]


def _run_chunk(args):
    """Returns per case: (case index, clause counts, evaluations, distinct, non-trivial, failure candidates)
    where a candidate is (replayable case, clause, what, expected, observed)."""
    tier, seed, lo, hi = args
    _plan_, cases = _cases(tier, seed)
    results = []
    for ci in range(lo, hi):
        case = cases[ci]
        counts = {}
        cands = []
        if case[0] == "pxs":
            keys = set()
            nontrivial = 0
            n = 0
            kept = {}
            for ops in stream_histories(case):
                n += 1
                key = zlib.crc32(json.dumps(ops).encode())
                if key not in keys:
                    keys.add(key)
                    nontrivial += 1  # the stream is non-empty, so something non-empty is written
                evaluated, fails = _eval_guarded(("px", ops))
                for c in evaluated:
                    counts[c] = counts.get(c, 0) + 1
                for f in fails:
                    sig = (f[0], _signature(*f))
                    if kept.get(sig, 0) < 2:
                        kept[sig] = kept.get(sig, 0) + 1
                        cands.append((("px", ops),) + f)
            results.append((ci, counts, n, len(keys), nontrivial, cands))
        else:
            evaluated, fails = _eval_guarded(case)
            for c in evaluated:
                counts[c] = counts.get(c, 0) + 1
            if case[0] == "rt":
                nt = int(any(t.strip("\n") and not c03.spec_is_null(s) for t, s in case[1]))
            elif case[0] == "ud":
                nt = int(any(op[0] == "w" and op[1] for op in case[1]))
            else:
                nt = 1
            results.append((ci, counts, 1, 1, nt, [((case),) + f for f in fails]))
    return results


def _case_input(case):
    if case[0] == "rt":
        return {"kind": "roundtrip", "parts": [[t, c03.spec_json(s)] for t, s in case[1]]}
    if case[0] == "px":
        return {"kind": "proxy", "ops": case[1]}
    if case[0] == "pxs":
        return {"kind": "proxy-stream", "stream": case[1], "exhaustive_cut_size": case[2], "sampled": case[3],
                "decorations": case[4]}
    if case[0] == "ud":
        return {"kind": "undecodable", "ops": case[1]}
    return {"kind": case[2], "ops": case[1]}


def _key(inp):
    blob = json.dumps(inp, sort_keys=True, ensure_ascii=True)
    return "%s:%08x" % (inp["kind"], zlib.crc32(blob.encode()))


def replay(inp):
    if inp["kind"] == "roundtrip":
        ev, fails, _ = rt_evaluate([[t, c03.spec_from_json(s)] for t, s in inp["parts"]])
        return ev, fails
    if inp["kind"] == "proxy":
        return proxy_evaluate(inp["ops"])
    if inp["kind"] == "undecodable":
        return undecodable_evaluate(inp["ops"])
    return live_evaluate(inp["ops"], inp["kind"])


def run(tier: str = "quick", seed: int = 0) -> dict:
    t0 = time.time()
    plan, cases = _cases(tier, seed)
    n = len(cases)
    if plan["procs"] > 1:
        import multiprocessing

        # stream jobs differ a lot in size: hand them out one by one, longest first
        order = sorted(range(n), key=lambda i: -(len(cases[i][1]) ** min(cases[i][2], 3) if cases[i][0] == "pxs"
                                                 else 1))
        singles = [i for i in order if cases[i][0] == "pxs"]
        rest = sorted(i for i in order if cases[i][0] != "pxs")
        chunks = [(tier, seed, i, i + 1) for i in singles]
        step = max(1, len(rest) // (plan["procs"] * 4))
        # the non-stream cases are contiguous runs in the case list: chunk by index ranges
        runs = []
        for i in rest:
            if runs and runs[-1][1] == i and runs[-1][1] - runs[-1][0] < step:
                runs[-1][1] = i + 1
            else:
                runs.append([i, i + 1])
        chunks += [(tier, seed, lo, hi) for lo, hi in runs]
        with multiprocessing.Pool(plan["procs"]) as mp:
            parts = mp.map(_run_chunk, chunks, chunksize=1)
        results = [r for part in parts for r in part]
    else:
        results = _run_chunk((tier, seed, 0, n))
    results.sort(key=lambda r: r[0])

    clauses = {c: 0 for c in CLAUSES}
    failures = []
    candidates = {}
    cand_sigs = set()
    evaluations = 0
    distinct = 0
    nontrivial = 0
    kinds = {}
    for ci, counts, n_eval, n_distinct, n_nontrivial, cands in results:
        case = cases[ci]
        kind = "px" if case[0] == "pxs" else case[0]
        kinds[kind] = kinds.get(kind, 0) + n_eval
        evaluations += n_eval
        distinct += n_distinct
        nontrivial += n_nontrivial
        for c, v in counts.items():
            clauses[c] = clauses.get(c, 0) + v
        for fcase, clause, what, exp, obs in cands:
            cand = candidates.setdefault(clause, [])
            sig = _signature(clause, what, exp, obs)
            if len(cand) < 20 or (clause, sig) not in cand_sigs:
                cand.append((fcase, what, exp, obs))
            cand_sigs.add((clause, sig))

    # at most MAX_FAIL per clause; failures with a different signature (root-cause guess) come first
    chosen = []
    for clause in sorted(candidates):
        picked, sigs = [], set()
        for item in candidates[clause]:
            sig = _signature(clause, item[1], item[2], item[3])
            if sig not in sigs and len(picked) < MAX_FAIL:
                sigs.add(sig)
                picked.append(item)
        for item in candidates[clause]:
            if len(picked) >= MAX_FAIL:
                break
            if item not in picked:
                picked.append(item)
        chosen.extend((clause,) + item for item in picked)
    for clause, case, what, exp, obs in chosen:
        inp = _case_input(case)
        small = inp
        if case[0] == "rt":
            parts = rt_minimise(case[1], clause)
            hit = next((f for f in rt_evaluate(parts)[1] if f[0] == clause), None)
            if hit is not None:
                small = _case_input(("rt", parts))
                what, exp, obs = hit[1], c03._jsonable(hit[2]), c03._jsonable(hit[3])
        elif case[0] == "px":
            sig = _signature(clause, what, exp, obs)
            ops = proxy_minimise(case[1], clause, sig)
            hit = next((f for f in proxy_evaluate(ops)[1] if f[0] == clause), None)
            if hit is not None:
                small = _case_input(("px", ops))
                what, exp, obs = hit[1], c03._jsonable(hit[2]), c03._jsonable(hit[3])
        record = {"check": clause, "what": what, "input_key": _key(small), "input": small,
                  "expected": exp, "observed": obs}
        if any(f["check"] == clause and f["input_key"] == record["input_key"] for f in failures):
            continue
        failures.append(record)

    first_stream = next(c for c in cases if c[0] == "pxs")
    samples = [_case_input(cases[0]), _case_input(("px", next(iter(stream_histories(first_stream))))),
               _case_input(cases[-1])]
    n_streams = sum(1 for c in cases if c[0] == "pxs")
    levels = ", ".join("all %d-cut sets for streams <= %d chars" % (size, limit) for limit, size in plan["levels"])
    return {
        "evaluations": evaluations,
        "distinct_nontrivial": nontrivial,
        "rule": ("cases = round-trip texts (1..4 styled pieces, non-trivial if a non-null style covers a "
                 "character) + proxy histories (a stream cut into writes, decorated with flushes / empty writes; "
                 "non-trivial if something non-empty is written; distinct by crc of the operation list within a "
                 "stream, streams are distinct texts) + undecodable-line histories + Live/Progress histories; "
                 "%d distinct; by kind %s" % (distinct, json.dumps(kinds, sort_keys=True))),
        "bound": ("tier %s seed %d: round trip %d texts over the C03 style pool (%d blocks of 27, truecolor, "
                  "texts incl. wide, markup-looking, newlines); proxy: %d streams of <= 4 lines from %d plain / %d "
                  "SGR+OSC8 / %d bracket+emoji-code / %d BS,VT,FF-holding lines (no tab, no CR: Text expands / the decoder applies them "
                  "by design), cut into <= 5 writes: all 1-cut sets, %s, %d random cut sets per larger size up to "
                  "4; 4 decorations (writes only / flush after each / one flush + empty write / empty writes + "
                  "final flush)%s; Live and Progress: %d histories over stdout+stderr" % (
                      tier, seed, plan["rt"], plan["blocks"], n_streams, len(PLAIN_LINES), len(SGR_LINES),
                      len(BRACKET_LINES), len(CTRL_LINES), levels, plan["sample"],
                      " rotated" if plan["variants"] == 1 else " all", plan["live"])),
        "samples": samples,
        "clauses": clauses,
        "failures": failures,
        "seconds": round(time.time() - t0, 2),
    }
