"""A small VT100-subset screen model (the spec function ``term`` of C10 / C11).

Written from the ECMA-48 / VT100 descriptions of the handful of controls that
rich's live displays emit; it does not import or consult ``rich.ansi``.

Understood input
    printable characters      written at the cursor, cursor advances by the cell width (1, or 2 for
                              East-Asian wide / fullwidth characters, 0 for combining marks)
    CR  (0x0d)                cursor to column 0
    LF  (0x0a)                cursor to column 0 of the next row (a tty in ONLCR mode, which is what a
                              Python text stream attached to a terminal gets); rows are created on demand
    BEL (0x07)                counted, no effect on the screen
    BS  (0x08)                cursor one column left (not below 0)
    CSI n A                   CUU: cursor up n rows (default 1), column unchanged, **not clamped**
    CSI n B                   CUD: cursor down n rows
    CSI 2 K / CSI K / CSI 1 K EL: erase whole line / to end / to start; cursor unchanged
    CSI ? 25 h / CSI ? 25 l   DECTCEM: cursor visible / hidden
    CSI ... m                 SGR: ignored for the text content
    OSC ... (BEL | ESC \\)     operating system command (OSC 8 hyperlinks): ignored
anything else that starts with ESC is recorded in ``unknown`` and skipped.

The model has unbounded scroll-back: row 0 is the first row ever written and rows are never discarded.
Cursor-up is not clamped.  Instead three flags record movements a real terminal would not honour:

    above_top       the cursor moved above row 0 (above the first line ever written)
    below_floor     the cursor moved above ``floor`` (set by the caller to the first row of the live region,
                    i.e. the number of rows already committed by prints) - "cursor above the live region"
    above_viewport  only with ``height``: the cursor moved above the top of the visible window, which is the
                    ``height`` rows ending at the lowest row the cursor has ever reached; a real terminal
                    would have clamped there and every later write would land on the wrong row

With ``width`` set, writing a character at a column >= width wraps to the next row first (auto-wrap with
deferred wrap, as xterm and VT100 do) and ``wrapped`` counts those events.
"""

import unicodedata
from typing import Dict, List, Optional, Tuple


def _cell_width(ch: str) -> int:
    if unicodedata.combining(ch):
        return 0
    if unicodedata.east_asian_width(ch) in ("W", "F"):
        return 2
    return 1


class Term:
    def __init__(self, width: Optional[int] = None, height: Optional[int] = None) -> None:
        self.width = width
        self.height = height
        self.rows: Dict[int, List[str]] = {}
        self.row = 0
        self.col = 0
        self.visible = True
        self.min_row = 0  # lowest row index the cursor ever had
        self.max_row = 0  # highest row index the cursor ever had
        self.floor = 0
        self.above_top = False
        self.below_floor = False
        self.above_viewport = False
        self.wrapped = 0
        self.bells = 0
        self.dectcem: List[bool] = []  # every show(True)/hide(False) seen, in order
        self.unknown: List[str] = []
        self.events: List[Tuple[str, int]] = []  # (kind, row) for the three movement flags
        self._pending = ""  # incomplete escape sequence carried over between feed() calls

    # ------------------------------------------------------------------ movement
    def _moved(self) -> None:
        if self.row < self.min_row:
            self.min_row = self.row
        if self.row > self.max_row:
            self.max_row = self.row
        if self.row < 0 and not self.above_top:
            self.above_top = True
            self.events.append(("above_top", self.row))
        if self.row < self.floor:
            if not self.below_floor:
                self.events.append(("below_floor", self.row))
            self.below_floor = True
        if self.height is not None and self.row < self.max_row - self.height + 1:
            if not self.above_viewport:
                self.events.append(("above_viewport", self.row))
            self.above_viewport = True

    def set_floor(self, floor: int) -> None:
        """Rows < floor are committed output; the cursor must not go there from now on."""
        self.floor = floor

    # ------------------------------------------------------------------ writing
    def _put(self, ch: str) -> None:
        w = _cell_width(ch)
        if self.width is not None and w and self.col + w > self.width:
            self.wrapped += 1
            self.row += 1
            self.col = 0
            self._moved()
        line = self.rows.setdefault(self.row, [])
        if w == 0:
            if self.col > 0 and len(line) >= self.col:
                line[self.col - 1] = line[self.col - 1] + ch
            return
        while len(line) < self.col:
            line.append(" ")
        cells = [ch] + [""] * (w - 1)
        for i, c in enumerate(cells):
            if self.col + i < len(line):
                line[self.col + i] = c
            else:
                line.append(c)
        self.col += w

    def _erase(self, mode: int) -> None:
        line = self.rows.setdefault(self.row, [])
        if mode == 2:
            del line[:]
        elif mode == 0:
            del line[self.col:]
        elif mode == 1:
            for i in range(min(self.col + 1, len(line))):
                line[i] = " "

    # ------------------------------------------------------------------ parser
    def feed(self, text: str) -> "Term":
        text = self._pending + text
        self._pending = ""
        i = 0
        n = len(text)
        while i < n:
            ch = text[i]
            if ch == "\x1b":
                if i + 1 >= n:
                    self._pending = text[i:]
                    break
                nxt = text[i + 1]
                if nxt == "[":
                    j = i + 2
                    while j < n and not ("\x40" <= text[j] <= "\x7e"):
                        j += 1
                    if j >= n:
                        self._pending = text[i:]
                        break
                    self._csi(text[i + 2 : j], text[j], text[i : j + 1])
                    i = j + 1
                    continue
                if nxt == "]":
                    j = i + 2
                    end = -1
                    while j < n:
                        if text[j] == "\x07":
                            end = j + 1
                            break
                        if text[j] == "\x1b" and j + 1 < n and text[j + 1] == "\\":
                            end = j + 2
                            break
                        j += 1
                    if end < 0:
                        self._pending = text[i:]
                        break
                    i = end
                    continue
                self.unknown.append(text[i : i + 2])
                i += 2
                continue
            if ch == "\r":
                self.col = 0
            elif ch == "\n":
                self.row += 1
                self.col = 0
                self.rows.setdefault(self.row, [])
                self._moved()
            elif ch == "\x07":
                self.bells += 1
            elif ch == "\x08":
                self.col = max(0, self.col - 1)
            elif ch < " " or ch == "\x7f":
                self.unknown.append(repr(ch))
            else:
                self._put(ch)
            i += 1
        return self

    def _csi(self, params: str, final: str, raw: str) -> None:
        if final == "m":
            return
        if params.startswith("?"):
            if params == "?25" and final in "hl":
                self.visible = final == "h"
                self.dectcem.append(self.visible)
            else:
                self.unknown.append(raw)
            return
        try:
            nums = [int(p) if p else None for p in params.split(";")] if params else [None]
        except ValueError:
            self.unknown.append(raw)
            return
        first = nums[0]
        if final == "A":
            self.row -= 1 if first in (None, 0) else first
            self._moved()
        elif final == "B":
            self.row += 1 if first in (None, 0) else first
            self._moved()
        elif final == "K":
            self._erase(first or 0)
        else:
            self.unknown.append(raw)

    # ------------------------------------------------------------------ observation
    def line(self, row: int) -> str:
        return "".join(self.rows.get(row, [])).rstrip()

    def lines(self) -> List[str]:
        """Rows min_row..max_row (every row the cursor has been on), right-stripped."""
        return [self.line(r) for r in range(min(self.min_row, 0), self.max_row + 1)]

    def content(self) -> List[str]:
        """``lines()`` without trailing blank rows (a blank row and an untouched row look the same)."""
        out = self.lines()
        while out and out[-1] == "":
            out.pop()
        return out

    def snapshot(self) -> dict:
        return {
            "lines": self.lines(),
            "cursor_row": self.row,
            "cursor_col": self.col,
            "cursor_visible": self.visible,
            "above_top": self.above_top,
            "below_floor": self.below_floor,
            "above_viewport": self.above_viewport,
            "wrapped": self.wrapped,
            "unknown": list(self.unknown),
        }


def replay(text: str, width: Optional[int] = None, height: Optional[int] = None) -> dict:
    """Replay ``text`` on a fresh terminal; returns ``Term.snapshot()`` plus ``violation``."""
    t = Term(width, height).feed(text)
    snap = t.snapshot()
    snap["violation"] = t.above_top
    return snap
