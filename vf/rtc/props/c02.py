"""C02 - Word wrapping keeps every character, in order, with its own style (bounded check, never a proof).

Every case is (string, base style, span list, width, justify, overflow, no_wrap) run through
`Text.wrap(console, width, justify=, overflow=, no_wrap=)`; the produced lines are read back through
`Text.render` (per character: the character and the attributes of the Style of its Segment).

Clauses, written from the property statement only:
  chars_preserved   overflow 'fold', wrapping on: the non-whitespace characters of the output lines, concatenated,
                    are exactly the non-whitespace characters of the input, in order
  line_fits         overflow 'fold': every produced line occupies at most `width` cells (vf.rtc.specnative.cells)
  style_preserved   every overflow mode: every non-whitespace character that is output has the effective style it had
                    in the input (base style, then all covering spans in list order, later attributes winning).
                    Identity of an output character: when nothing was dropped, by position in the sequence; otherwise
                    every output line must be a contiguous run of the input's non-whitespace characters, runs in
                    order (leftmost match); in the `marked` variant every input character carries a hyperlink id of
                    its own as an extra lowest-precedence span, so identity is exact
  word_break        overflow 'fold', wrapping on: a maximal run of non-whitespace characters of the input ends up on
                    more than one output line only if its cells, plus the expanded leading whitespace of its input
                    line when it is the first word there, exceed the width
Whitespace is not tracked (wrapping strips, pads and re-distributes it by design); the ellipsis character and the
space that replaces half a double-width character are created characters and are skipped.
"""
from __future__ import annotations

import io
import itertools
import os
import random
import sys
import time
import zlib
from typing import Dict, List, Optional, Tuple

REPO = os.environ.get("VF_REPO", "/repo")
if REPO not in sys.path:
    sys.path.insert(0, REPO)

from vf.rtc.specnative import cells  # independent cell-width oracle

ALPHA = ["a", "b", " ", "\n", "\t", "你", "̀"]
JUSTIFY = ["default", "left", "center", "right", "full"]
OVERFLOW = ["fold", "crop", "ellipsis", "ignore"]
CONFIGS = [(j, o, nw) for o in OVERFLOW for j in JUSTIFY for nw in (False, True)]  # 40
BASES = ["", "italic", "on red"]
STYLES = ["red", "blue", "bold", "on green", "not bold", "underline", "bold red", "italic on blue", ""]
TAB = 8

# ------------------------------------------------------------------------------------------------ style algebra
_FLAGS = ("bold", "italic", "underline")


def parse_attrs(style: str) -> Tuple:
    color = bg = None
    flags = {f: None for f in _FLAGS}
    words = style.split()
    i = 0
    while i < len(words):
        w = words[i]
        if w == "not":
            flags[words[i + 1]] = False
            i += 2
        elif w == "on":
            bg = words[i + 1]
            i += 2
        elif w in flags:
            flags[w] = True
            i += 1
        else:
            color = w
            i += 1
    return (color, bg, flags["bold"], flags["italic"], flags["underline"])


def combine_attrs(layers) -> Tuple:
    out = [None, None, None, None, None]
    for a in layers:
        for k in range(5):
            if a[k] is not None:
                out[k] = a[k]
    return tuple(out)


def style_attrs(st) -> Tuple:
    if st is None:
        return (None, None, None, None, None)
    return (st.color.name if st.color is not None else None, st.bgcolor.name if st.bgcolor is not None else None,
            st.bold, st.italic, st.underline)


def fmt(a) -> str:
    color, bg, bold, italic, ul = a
    bits = []
    for name, v in (("bold", bold), ("italic", italic), ("underline", ul)):
        if v is True:
            bits.append(name)
        elif v is False:
            bits.append("not " + name)
    if color:
        bits.append(color)
    if bg:
        bits.append("on " + bg)
    return " ".join(bits) or "none"


def input_styles(s: str, base: str, spans) -> List[Tuple]:
    pa = [parse_attrs(st) for _, _, st in spans]
    b = parse_attrs(base)
    return [combine_attrs([b] + [pa[k] for k, (st, en, _) in enumerate(spans) if st <= i < en]) for i in range(len(s))]


def make_console():
    from rich.console import Console

    return Console(width=80, file=io.StringIO(), color_system="truecolor", legacy_windows=False, _environ={})


# ------------------------------------------------------------------------------------------------ one case
def wrap_observe(console, case):
    """-> list of (plain, [(char, attrs, link)]) per output line"""
    from rich.style import Style
    from rich.text import Span, Text

    s, base, spans, width, justify, overflow, nw, marked = case
    rspans = []
    if marked:
        rspans += [Span(i, i + 1, Style(link=str(i))) for i in range(len(s)) if not s[i].isspace()]
    rspans += [Span(a, b, st) for a, b, st in spans]
    t = Text(s, style=base, spans=rspans)
    lines = t.wrap(console, width, justify=justify, overflow=overflow, no_wrap=nw)
    out = []
    for line in lines:
        per = []
        for seg in line.render(console):
            st = seg.style
            a = style_attrs(st)
            link = st.link if st is not None else None
            per.extend((c, a, link) for c in seg.text)
        out.append((line.plain, per))
    return out


def words_of(s: str):
    """(start, end, first_on_logical_line, indent_cells) of every maximal non-whitespace run"""
    out = []
    i = 0
    n = len(s)
    line_start = 0
    seen_word = False
    while i < n:
        c = s[i]
        if c == "\n":
            line_start = i + 1
            seen_word = False
            i += 1
        elif c.isspace():
            i += 1
        else:
            j = i
            while j < n and not s[j].isspace():
                j += 1
            indent = 0
            if not seen_word:
                col = 0
                for w in s[line_start:i]:
                    col = (col // TAB + 1) * TAB if w == "\t" else col + 1
                indent = col
            out.append((i, j, not seen_word, indent))
            seen_word = True
            i = j
    return out


def check_case(console, case, counts) -> List[Tuple[str, str, object, object]]:
    s, base, spans, width, justify, overflow, nw, marked = case
    fails = []
    counts["raises"] = counts.get("raises", 0) + 1
    try:
        lines = wrap_observe(console, case)
    except Exception as e:  # noqa
        return [("raises", f"Text.wrap / render raised {type(e).__name__}: {e}", "lines", repr(e))]
    estyle = input_styles(s, base, spans)
    inp = [(c, estyle[i], i) for i, c in enumerate(s) if not c.isspace()]
    in_chars = "".join(c for c, _, _ in inp)
    skip = "…" if overflow == "ellipsis" else ""
    out_lines = []
    for plain, per in lines:
        if "".join(c for c, _, _ in per) != plain:
            fails.append(("style_preserved:" + overflow, "rendered segments of an output line differ from its plain text",
                          plain, "".join(c for c, _, _ in per)))
            return fails
        out_lines.append([(c, a, l) for c, a, l in per if not c.isspace() and c not in skip])
    flat = [x for ln in out_lines for x in ln]
    out_chars = "".join(c for c, _, _ in flat)
    plains = [p for p, _ in lines]
    wrapping = overflow == "fold" and not nw
    same = out_chars == in_chars

    if wrapping:
        counts["chars_preserved"] = counts.get("chars_preserved", 0) + 1
        if not same:
            fails.append(("chars_preserved", f"non-whitespace characters of the output lines {plains!r} are not those "
                          f"of the input {s!r} in order", in_chars, out_chars))
    if overflow == "fold":
        counts["line_fits"] = counts.get("line_fits", 0) + 1
        wide = [(p, cells(p)) for p in plains if cells(p) > width]
        if wide:
            fails.append(("line_fits", f"line {wide[0][0]!r} occupies {wide[0][1]} cells, width is {width}",
                          f"<= {width}", [cells(p) for p in plains]))

    # ---------------------------------------------------------------- style of every output character
    cl = "style_preserved:" + overflow
    counts[cl] = counts.get(cl, 0) + 1
    bad = None
    if marked:
        last = -1
        for c, a, l in flat:
            k = int(l) if l is not None and str(l).isdigit() else None
            if k is None or k >= len(s) or s[k] != c:
                bad = (f"output character {c!r} does not carry the identity of an input character {c!r} (link {l!r})",
                       s, plains)
                break
            if k <= last:
                bad = (f"output character {c!r} (input position {k}) is output out of order or twice", s, plains)
                break
            last = k
            if estyle[k] != a:
                bad = (f"input character {k} ({c!r}) had effective style '{fmt(estyle[k])}' and is output with "
                       f"'{fmt(a)}' (lines {plains!r})", fmt(estyle[k]), fmt(a))
                break
    elif same:
        for (c, a, _), (_, ea, k) in zip(flat, inp):
            if a != ea:
                bad = (f"input character {k} ({c!r}) had effective style '{fmt(ea)}' and is output with '{fmt(a)}' "
                       f"(lines {plains!r})", [fmt(x[1]) for x in inp], [fmt(x[1]) for x in flat])
                break
    else:
        # characters were dropped (allowed outside 'fold' wrapping): per line a contiguous run, runs in order
        def align(with_style: bool) -> bool:
            pos = 0
            for ln in out_lines:
                if not ln:
                    continue
                m = len(ln)
                p = pos
                found = False
                while p + m <= len(inp):
                    if all(inp[p + q][0] == ln[q][0] and (not with_style or inp[p + q][1] == ln[q][1]) for q in range(m)):
                        found = True
                        break
                    p += 1
                if not found:
                    return False
                pos = p + m
            return True

        if wrapping:
            pass  # already reported by chars_preserved
        elif not align(False):
            bad = (f"output lines {plains!r} are not contiguous runs, in order, of the non-whitespace characters of "
                   f"the input {s!r}", in_chars, [("".join(c for c, _, _ in ln)) for ln in out_lines])
        elif not align(True):
            bad = (f"some output character does not have the effective style it had in the input (lines {plains!r})",
                   [(c, fmt(a)) for c, a, _ in inp], [[(c, fmt(a)) for c, a, _ in ln] for ln in out_lines])
    if bad:
        fails.append((cl, bad[0], bad[1], bad[2]))

    # ---------------------------------------------------------------- words
    if wrapping and same:
        counts["word_break"] = counts.get("word_break", 0) + 1
        # input index of the k-th non-whitespace character -> output line number
        where = {}
        k = 0
        for li, ln in enumerate(out_lines):
            for _ in ln:
                where[inp[k][2]] = li
                k += 1
        for a, b, first, indent in words_of(s):
            ls = {where[i] for i in range(a, b)}
            if len(ls) > 1:
                w = cells(s[a:b])
                if not (w > width or (first and indent + w > width)):
                    fails.append(("word_break", f"word {s[a:b]!r} ({w} cells" + (f", indentation {indent}" if first else "")
                                  + f") is broken across lines {plains!r} although it fits the width {width}",
                                  "on one line", sorted(ls)))
                    break
    return fails


# ------------------------------------------------------------------------------------------------ enumeration
def span_template(k: int, n: int) -> list:
    A, B, C, D = "red", "blue", "bold", "on green"
    h = n // 2
    t = [
        [],
        [[0, n, A]],
        [[0, n, A], [h, n, B], [h, n, A]],
        [[0, n, A], [min(1, n), max(min(1, n), n - 1), B], [min(2, n), max(min(2, n), n - 2), C]],
        [[0, min(n, h + 1), A], [h, n, B]],
        [[0, n, A], [0, n, A], [min(1, n), n, B]],
        [[0, 0, A], [n, n, B], [h, h, C], [0, n, D]],
        [[i, i + 1, st] for i, st in enumerate((A, B, C, D)) if i + 1 <= n],
        [[0, n, D], [0, max(0, n - 1), A], [min(1, n), n, B], [min(1, n), max(min(1, n), n - 1), C]],
        [[0, h, "bold red"], [0, h, "not bold"], [0, n, "bold red"], [h, n, "not bold"]],
    ]
    return t[k % len(t)]


N_TEMPLATES = 10


def random_spans(rng, n: int) -> list:
    out = []
    for _ in range(rng.randint(0, 4)):
        if out and rng.random() < 0.3:
            a, b, st = rng.choice(out)
            out.append([a, b, st if rng.random() < 0.5 else rng.choice(STYLES)])
            continue
        a = rng.randint(0, n)
        b = a if rng.random() < 0.15 else rng.randint(a, n)
        if rng.random() < 0.3:
            b = n
        out.append([a, b, rng.choice(STYLES)])
    return out


def nth_string(length: int, index: int) -> str:
    out = []
    for _ in range(length):
        index, r = divmod(index, len(ALPHA))
        out.append(ALPHA[r])
    return "".join(out)


def exhaustive_cases(length: int, lo: int, hi: int, per: int, salt: int, wmod: int = 1):
    """strings number lo..hi-1 of the given length x widths 2..16 x `per` option triples (rotating through all 40,
    the rotation offset depends on `salt`), span templates and base styles rotating too"""
    for idx in range(lo, hi):
        s = nth_string(length, idx)
        for wi, width in enumerate(range(2, 17)):
            if (wi + idx) % wmod:
                continue  # quick tier, longest strings: every wmod-th width, the offset rotating with the string
            for k in range(per):
                r = (idx * 15 + wi) * per + k + salt
                j, o, nw = CONFIGS[(r * 7 + r // 40) % 40]
                tk = (r // 3 + idx) % (N_TEMPLATES + 1)
                if tk == N_TEMPLATES:
                    spans = random_spans(random.Random(r * 2654435761 % (2 ** 31)), len(s))
                else:
                    spans = span_template(tk, len(s))
                yield (s, BASES[(r // 5) % 3], spans, width, j, o, nw, r % 4 == 3)


def random_string(rng) -> str:
    n = rng.randint(6, 14)
    mode = rng.random()
    if mode < 0.3:
        return "".join(rng.choice(ALPHA) for _ in range(n))
    out = []
    while len(out) < n:  # words and gaps
        if rng.random() < 0.7:
            out += [rng.choice("aabb你你̀") for _ in range(rng.choice([1, 1, 2, 2, 3, 4, 6, 9]))]
        else:
            out += [rng.choice("   \t\n ") for _ in range(rng.choice([1, 1, 1, 2, 3]))]
    return "".join(out[:n])


def random_cases(seed: int, lo: int, hi: int):
    for idx in range(lo, hi):
        rng = random.Random((seed * 1_000_003 + idx) * 2_654_435_761 % (2 ** 61 - 1))
        s = random_string(rng)
        r = rng.random()
        width = rng.randint(2, 16) if r < 0.8 else rng.randint(17, 200) if r < 0.9 else rng.randint(2, 5)
        j, o, nw = rng.choice(CONFIGS)
        if rng.random() < 0.35:
            o, nw = "fold", False
        spans = span_template(rng.randrange(N_TEMPLATES), len(s)) if rng.random() < 0.3 else random_spans(rng, len(s))
        yield (s, rng.choice(BASES), spans, width, j, o, nw, rng.random() < 0.25)


def nontrivial(case) -> bool:
    s, base, spans, width = case[0], case[1], case[2], case[3]
    if not any(not c.isspace() for c in s):
        return False
    return cells(s) > width or "\n" in s or "\t" in s or any(b > a for a, b, _ in spans)


def case_hash(case) -> int:
    return zlib.crc32(repr(case).encode()) | (zlib.adler32(repr(case[::-1]).encode()) << 32)


# ------------------------------------------------------------------------------------------------ workers
def _job(args):
    kind = args[0]
    if kind == "E":
        _, length, lo, hi, per, salt, wmod = args
        gen = exhaustive_cases(length, lo, hi, per, salt, wmod)
    else:
        _, seed, lo, hi = args
        gen = random_cases(seed, lo, hi)
    console = make_console()
    counts: Dict[str, int] = {}
    fails: Dict[str, list] = {}
    n = nt = 0
    hashes = set()
    sample = None
    for ci, case in enumerate(gen):
        n += 1
        if nontrivial(case):
            nt += 1
            if kind == "R":
                hashes.add(case_hash(case))
            if sample is None and ci >= 7 and len(case[2]) >= 2:
                sample = case
        for f in check_case(console, case, counts):
            lst = fails.setdefault(f[0], [])
            if len(lst) < 3:
                lst.append((args[:4], ci, case, f))
    return {"n": n, "nt": nt if kind == "E" else 0, "hashes": hashes, "counts": counts, "fails": fails, "sample": sample}


# ------------------------------------------------------------------------------------------------ minimisation
def _drop_char(case, i):
    s, base, spans, *rest = case
    s2 = s[:i] + s[i + 1:]
    sp2 = [[a - (a > i), b - (b > i), st] for a, b, st in spans]
    return (s2, base, sp2, *rest)


def minimise(console, case, clause):
    def still(c):
        for f in check_case(console, c, {}):
            if f[0] == clause:
                return f
        return None

    f = still(case)
    if f is None:
        return case, None
    budget = 600
    changed = True
    while changed and budget > 0:
        changed = False
        s, base, spans, width, j, o, nw, marked = case
        cands = []
        if marked:
            cands.append((s, base, spans, width, j, o, nw, False))
        for i in range(len(s) - 1, -1, -1):
            cands.append(_drop_char(case, i))
        for i in range(len(spans)):
            cands.append((s, base, spans[:i] + spans[i + 1:], width, j, o, nw, marked))
        if base:
            cands.append((s, "", spans, width, j, o, nw, marked))
        if j != "default":
            cands.append((s, base, spans, width, "default", o, nw, marked))
        if nw:
            cands.append((s, base, spans, width, j, o, False, marked))
        for i, c in enumerate(s):
            if c not in "a \n":
                cands.append((s[:i] + ("a" if not c.isspace() else " ") + s[i + 1:], base, spans, width, j, o, nw, marked))
        if width > 2:
            cands.append((s, base, spans, width - 1, j, o, nw, marked))
        for c in cands:
            budget -= 1
            f2 = still(c)
            if f2:
                case, f, changed = c, f2, True
                break
    return case, f


def case_key(case) -> str:
    s, base, spans, width, j, o, nw, marked = case
    sp = ",".join(f"{a}-{b}:{st}" for a, b, st in spans)
    body = f"{s!r}|{base}|{sp}|w{width}|{j}|{o}|{'nowrap' if nw else 'wrap'}" + ("|marked" if marked else "")
    if len(body) > 110:
        body = body[:100] + "#%08x" % zlib.crc32(body.encode())
    return body


def case_json(case) -> dict:
    s, base, spans, width, j, o, nw, marked = case
    return {"text": s, "base": base, "spans": [list(x) for x in spans], "width": width, "justify": j, "overflow": o,
            "no_wrap": nw, "marked": marked}


def replay_input(inp: dict):
    """re-run the `input` of a failure record -> list of (clause, what, expected, observed)"""
    case = (inp["text"], inp["base"], [list(x) for x in inp["spans"]], inp["width"], inp["justify"], inp["overflow"],
            inp["no_wrap"], inp.get("marked", False))
    return check_case(make_console(), case, {})


# ------------------------------------------------------------------------------------------------ driver
def plan(tier: str, seed: int):
    """list of jobs; the exhaustive part does not depend on the seed (stable failure reports), the random part does"""
    jobs = []
    salt = 0
    if tier == "quick":
        ex = [(0, 6, 1), (1, 6, 1), (2, 6, 1), (3, 6, 1), (4, 4, 1), (5, 1, 3)]
        n_random = 120000
        chunk = 1200
    else:
        ex = [(0, 40, 1), (1, 40, 1), (2, 40, 1), (3, 20, 1), (4, 12, 1), (5, 3, 1), (6, 1, 1)]
        n_random = 800000
        chunk = 4000
    for length, per, wmod in ex:
        total = len(ALPHA) ** length
        step = max(1, chunk * wmod // (15 * per))
        for lo in range(0, total, step):
            jobs.append(("E", length, lo, min(total, lo + step), per, salt, wmod))
    for lo in range(0, n_random, chunk):
        jobs.append(("R", seed, lo, min(n_random, lo + chunk)))
    return jobs, ex, n_random


def run(tier: str = "quick", seed: int = 0) -> dict:
    import multiprocessing as mp

    t0 = time.time()
    jobs, ex, n_random = plan(tier, seed)
    procs = min(16, os.cpu_count() or 2)
    cells("a")  # build the width table and import rich once, before the workers are forked
    make_console()
    ctx = mp.get_context("fork")
    with ctx.Pool(procs) as pool:
        res = pool.map(_job, jobs, chunksize=1)
    n = nt = 0
    counts: Dict[str, int] = {}
    hashes = set()
    cand: Dict[str, list] = {}
    samples = []
    for ji, r in enumerate(res):
        n += r["n"]
        nt += r["nt"]
        hashes |= r["hashes"]
        for k, v in r["counts"].items():
            counts[k] = counts.get(k, 0) + v
        for k, v in r["fails"].items():
            cand.setdefault(k, []).extend((ji, ci, case, f) for _, ci, case, f in v)
        if r["sample"] is not None and len(samples) < 4 and ji % 7 == 3:
            samples.append(case_json(r["sample"]))
    console = make_console()
    failures = []
    for clause in sorted(cand):
        seen = {}
        for ji, ci, case, f in sorted(cand[clause], key=lambda x: (x[0], x[1]))[:12]:
            case2, f2 = minimise(console, case, clause)
            if f2 is None:
                case2, f2 = case, f
            key = case_key(case2)
            if key not in seen:
                seen[key] = (case2, f2)
        order = sorted(seen.items(), key=lambda kv: (len(kv[1][0][0]) + len(kv[1][0][2]), kv[0]))
        chosen, shapes = [], set()
        for key, (case2, f2) in order:  # different option triples first
            shape = case2[4:7]
            if shape not in shapes and len(chosen) < 3:
                shapes.add(shape)
                chosen.append((key, case2, f2))
        for key, (case2, f2) in order:
            if len(chosen) >= 3:
                break
            if all(key != c[0] for c in chosen):
                chosen.append((key, case2, f2))
        for key, case2, f2 in chosen:
            failures.append({"check": "c02." + clause, "what": f2[1], "input_key": key, "input": case_json(case2),
                             "expected": f2[2], "observed": f2[3]})
    return {
        "evaluations": n,
        "distinct_nontrivial": nt + len(hashes),
        "rule": "a case is (string, base style, span list, width, justify, overflow, no_wrap[, marked]) through Text.wrap; "
                "the exhaustive part enumerates every string of the stated lengths x widths 2..16 x a rotating subset of "
                "the 40 option triples x rotating span templates (none, whole, duplicate-value, nested, overlapping, "
                "duplicated, empty, adjacent, 4 overlapping, alternating) or a random span set, so its cases are distinct "
                "by construction; random cases are deduplicated by hash.  Non-trivial: the string has a non-whitespace "
                "character and is wider than the width, or contains a newline or tab, or has a non-empty span",
        "bound": "alphabet {a,b,space,\\n,\\t,U+4F60 (2 cells),U+0300 (0 cells)}; exhaustive strings (length, option triples "
                 f"per string and width, every n-th width of 2..16 with a rotating offset): {ex}; {n_random} random strings of length 6..14; <= 4 spans over 9 styles + 3 base "
                 "styles; widths 2..16 exhaustive, random part also 17..200; justify x overflow x no_wrap = 40 triples; "
                 "tab size 8",
        "samples": samples,
        "clauses": {"c02." + k: v for k, v in sorted(counts.items())},
        "failures": failures,
        "seconds": round(time.time() - t0, 2),
    }
