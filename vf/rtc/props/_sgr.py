"""Independent SGR / OSC-8 terminal model (oracle for C03, C15, C19).

Written from ECMA-48 (5.4 control sequences, 8.3.117 SGR) and the xterm conventions
(ctlseqs: 38/48 ;5;n and ;2;r;g;b, 90-97/100-107 bright colours, OSC 8 hyperlinks). Nothing in
this file calls rich.ansi, rich.style or rich.color; the only thing taken from rich is *data*: the
three palettes (``palettes()``), which the down-conversion oracle needs because the documented rule is
"nearest entry of Rich's palette".

Model
-----
``interpret(s)`` runs the state machine over ``s`` and returns a ``Screen``:

    cells   list of (character, frozenset(attribute names), fg, bg, link-uri-or-None)
            for every character that is neither part of an escape / control sequence nor a C0/C1
            control other than LF and HT (LF and HT are kept as characters: they are "text" for rich)
    final   (attrs, fg, bg, link) the state after the last character (leak detection)
    ops     list of interpreted SGR / OSC-8 operations in order, e.g. ("on","bold"), ("off",("bold","dim")),
            ("fg",("std",1)), ("bg",("rgb",1,2,3)), ("reset",), ("link",uri,params), ("link_close",)
    other   list of (offset, kind, text) for everything else: any other CSI / OSC / ESC sequence, any
            C0 / C1 control, malformed or unknown SGR parameters, unterminated sequences
    escapes number of ESC characters (0x1b) plus 8-bit CSI/OSC introducers seen

Colours: ("default",) | ("std", n) n in 0..15 | ("256", n) n in 0..255 | ("rgb", r, g, b).
``canon`` identifies ("256", n<16) with ("std", n): xterm's palette entries 0..15 *are* the standard and
bright colours.
"""
from fractions import Fraction
from typing import List, Optional, Tuple

ATTRS = (
    "bold", "dim", "italic", "underline", "blink", "blink2", "reverse",
    "conceal", "strike", "underline2", "frame", "encircle", "overline",
)

# SGR parameter -> attribute switched on (ECMA-48 8.3.117; 21 = doubly underlined)
_ON = {1: "bold", 2: "dim", 3: "italic", 4: "underline", 5: "blink", 6: "blink2", 7: "reverse",
       8: "conceal", 9: "strike", 21: "underline2", 51: "frame", 52: "encircle", 53: "overline"}
# SGR parameter -> attributes switched off
_OFF = {22: ("bold", "dim"), 23: ("italic",), 24: ("underline", "underline2"), 25: ("blink", "blink2"),
        27: ("reverse",), 28: ("conceal",), 29: ("strike",), 54: ("frame", "encircle"), 55: ("overline",)}

DEFAULT = ("default",)
RESET_STATE = (frozenset(), DEFAULT, DEFAULT, None)

STANDARD_NAMES = (
    "black", "red", "green", "yellow", "blue", "magenta", "cyan", "white",
    "bright_black", "bright_red", "bright_green", "bright_yellow", "bright_blue",
    "bright_magenta", "bright_cyan", "bright_white",
)


class Screen:
    __slots__ = ("cells", "final", "ops", "other", "escapes")

    def __init__(self):
        self.cells = []
        self.final = RESET_STATE
        self.ops = []
        self.other = []
        self.escapes = 0

    @property
    def text(self) -> str:
        return "".join(c[0] for c in self.cells)

    def color_ops(self):
        return [op for op in self.ops if op[0] in ("fg", "bg")]

    def link_ops(self):
        return [op for op in self.ops if op[0] in ("link", "link_close")]


def canon(color):
    """Canonical colour: palette entries 0..15 addressed with 38;5;n are the standard colours."""
    if color is None:
        return DEFAULT
    if color[0] == "256" and color[1] < 16:
        return ("std", color[1])
    return tuple(color)


def _apply_sgr(params: str, attrs: set, fg, bg, ops: list, other: list, offset: int):
    """Apply one SGR control function with parameter string ``params`` (already known to consist of
    digits and ';' only). Returns new (fg, bg)."""
    fields = params.split(";") if params != "" else [""]
    values = []
    for field in fields:
        values.append(0 if field == "" else int(field))  # empty parameter = default = 0
    i = 0
    n = len(values)
    while i < n:
        p = values[i]
        i += 1
        if p == 0:
            attrs.clear()
            fg = DEFAULT
            bg = DEFAULT
            ops.append(("reset",))
        elif p in _ON:
            attrs.add(_ON[p])
            ops.append(("on", _ON[p]))
        elif p in _OFF:
            for name in _OFF[p]:
                attrs.discard(name)
            ops.append(("off", _OFF[p]))
        elif 30 <= p <= 37:
            fg = ("std", p - 30)
            ops.append(("fg", fg))
        elif 40 <= p <= 47:
            bg = ("std", p - 40)
            ops.append(("bg", bg))
        elif 90 <= p <= 97:
            fg = ("std", p - 90 + 8)
            ops.append(("fg", fg))
        elif 100 <= p <= 107:
            bg = ("std", p - 100 + 8)
            ops.append(("bg", bg))
        elif p == 39:
            fg = DEFAULT
            ops.append(("fg", fg))
        elif p == 49:
            bg = DEFAULT
            ops.append(("bg", bg))
        elif p in (38, 48):
            which = "fg" if p == 38 else "bg"
            color = None
            if i < n and values[i] == 5 and i + 1 < n and 0 <= values[i + 1] <= 255:
                color = ("256", values[i + 1])
                i += 2
            elif (i < n and values[i] == 2 and i + 3 < n
                  and all(0 <= v <= 255 for v in values[i + 1:i + 4])):
                color = ("rgb", values[i + 1], values[i + 2], values[i + 3])
                i += 4
            if color is None:
                other.append((offset, "sgr-malformed-colour", params))
                ops.append((which, None))  # still a colour parameter
                break  # the rest cannot be attributed reliably
            if which == "fg":
                fg = color
            else:
                bg = color
            ops.append((which, color))
        else:
            other.append((offset, "sgr-unknown-parameter", str(p)))
    return fg, bg


def interpret(s: str) -> Screen:
    scr = Screen()
    cells = scr.cells
    attrs: set = set()
    fg = DEFAULT
    bg = DEFAULT
    link: Optional[str] = None
    frozen = frozenset()
    dirty = False
    i = 0
    n = len(s)
    while i < n:
        ch = s[i]
        o = ord(ch)
        if ch == "\x1b":
            scr.escapes += 1
            if i + 1 >= n:
                scr.other.append((i, "esc-unterminated", ch))
                i += 1
                continue
            nxt = s[i + 1]
            if nxt == "[":
                # CSI P...P I...I F   (P 0x30-0x3f, I 0x20-0x2f, F 0x40-0x7e)
                j = i + 2
                while j < n and 0x30 <= ord(s[j]) <= 0x3F:
                    j += 1
                pend = j
                while j < n and 0x20 <= ord(s[j]) <= 0x2F:
                    j += 1
                if j >= n or not (0x40 <= ord(s[j]) <= 0x7E):
                    scr.other.append((i, "csi-malformed", s[i:j + 1]))
                    i = j  # resume at the offending character (it is interpreted on its own)
                    continue
                params = s[i + 2:pend]
                inter = s[pend:j]
                final = s[j]
                if final == "m" and inter == "" and all(c in "0123456789;" for c in params):
                    fg, bg = _apply_sgr(params, attrs, fg, bg, scr.ops, scr.other, i)
                    dirty = True
                else:
                    scr.other.append((i, "csi", s[i:j + 1]))
                i = j + 1
                continue
            if nxt == "]":
                # OSC ... ST   (ST = ESC \  or BEL by xterm convention)
                j = i + 2
                end = -1
                while j < n:
                    if s[j] == "\x07":
                        end = j
                        after = j + 1
                        break
                    if s[j] == "\x1b" and j + 1 < n and s[j + 1] == "\\":
                        end = j
                        after = j + 2
                        scr.escapes += 1
                        break
                    j += 1
                if end < 0:
                    scr.other.append((i, "osc-unterminated", s[i:]))
                    i = n
                    continue
                body = s[i + 2:end]
                if body.startswith("8;") and body.count(";") >= 2:
                    _, params, uri = body.split(";", 2)
                    if uri == "":
                        link = None
                        scr.ops.append(("link_close",))
                    else:
                        link = uri
                        scr.ops.append(("link", uri, params))
                else:
                    scr.other.append((i, "osc", s[i:after]))
                i = after
                continue
            # other escape sequences: nF (ESC I...I F) or Fp/Fe/Fs two-character sequences
            j = i + 1
            while j < n and 0x20 <= ord(s[j]) <= 0x2F:
                j += 1
            if j < n and 0x30 <= ord(s[j]) <= 0x7E:
                scr.other.append((i, "esc", s[i:j + 1]))
                i = j + 1
            else:
                scr.other.append((i, "esc-malformed", s[i:j]))
                i = j
            continue
        if (o < 0x20 and ch not in "\n\t") or o == 0x7F or 0x80 <= o <= 0x9F:
            if o in (0x9B, 0x9D):
                scr.escapes += 1
            scr.other.append((i, "control", ch))
            i += 1
            continue
        if dirty:
            frozen = frozenset(attrs)
            dirty = False
        cells.append((ch, frozen, fg, bg, link))
        i += 1
    scr.final = (frozenset(attrs), fg, bg, link)
    return scr


def strip(s: str) -> str:
    """Visible text: everything except escape sequences and control codes."""
    return interpret(s).text


# --------------------------------------------------------------------------- down-conversion oracle


_PALETTES = None


def palettes():
    """rich's palettes as plain data: dict name -> list of (r,g,b)."""
    global _PALETTES
    if _PALETTES is None:
        from rich import _palettes as P  # data only

        def grab(pal, count):
            return [tuple(int(v) for v in pal[k]) for k in range(count)]

        _PALETTES = {
            "standard": grab(P.STANDARD_PALETTE, 16),
            "windows": grab(P.WINDOWS_PALETTE, 16),
            "256": grab(P.EIGHT_BIT_PALETTE, 256),
        }
    return _PALETTES


def weighted_distance2(c1, c2) -> int:
    """Square of Rich's documented colour distance (the "red mean" weighted RGB metric, integer form)."""
    r1, g1, b1 = c1
    r2, g2, b2 = c2
    rmean = (r1 + r2) // 2
    dr, dg, db = r1 - r2, g1 - g2, b1 - b2
    return (((512 + rmean) * dr * dr) >> 8) + 4 * dg * dg + (((767 - rmean) * db * db) >> 8)


def nearest(palette: List[Tuple[int, int, int]], rgb) -> set:
    """All palette indices at minimum distance (ties are all acceptable)."""
    best = None
    out = set()
    for k, entry in enumerate(palette):
        d = weighted_distance2(rgb, entry)
        if best is None or d < best:
            best = d
            out = {k}
        elif d == best:
            out.add(k)
    return out


def _round_half_options(x: Fraction) -> set:
    """Nearest integers of x; both neighbours when x is exactly a half-integer (float rounding of
    the implementation may legitimately go either way there)."""
    lo = x.numerator // x.denominator
    frac = x - lo
    if frac == Fraction(1, 2):
        return {lo, lo + 1}
    return {lo + 1} if frac > Fraction(1, 2) else {lo}


def rgb_to_256(r: int, g: int, b: int) -> set:
    """Acceptable 256-colour indices for a 24-bit colour (documented rule: colours with HLS saturation
    under 10% go to the grey ramp 232..255 or black 16 / white 231 by lightness in 25 steps; every other
    colour to the 6x6x6 cube entry with each component rounded to the nearest of six levels)."""
    mx, mn = max(r, g, b), min(r, g, b)
    total = mx + mn  # lightness = total / 510
    if mx == mn:
        sat = Fraction(0)
    elif total <= 255:
        sat = Fraction(mx - mn, total)
    else:
        sat = Fraction(mx - mn, 510 - total)
    out = set()
    tenth = Fraction(1, 10)
    eps = Fraction(1, 10 ** 9)
    if sat < tenth + eps:
        for gray in _round_half_options(Fraction(total * 25, 510)):
            out.add(16 if gray == 0 else 231 if gray == 25 else 231 + gray)
    if sat > tenth - eps:
        for rr in _round_half_options(Fraction(r * 5, 255)):
            for gg in _round_half_options(Fraction(g * 5, 255)):
                for bb in _round_half_options(Fraction(b * 5, 255)):
                    out.add(16 + 36 * rr + 6 * gg + bb)
    return out


def downconvert(color, system: str) -> set:
    """Set of acceptable colours (model form, canonical) after the documented down-conversion of
    ``color`` (model form) to ``system`` in {"standard", "256", "truecolor", "windows"}.

    Rules: default stays default; a colour already representable in the target system is unchanged
    (palette indices 0..15 exist in every system); 24-bit -> 256 by ``rgb_to_256``; anything else ->
    16-colour palette entry of minimum weighted distance from the colour's RGB value (the RGB value of
    an indexed colour being its entry in the 256-colour palette)."""
    color = canon(color)
    kind = color[0]
    if kind == "default" or system == "truecolor":
        return {color}
    if kind == "std":
        return {color}
    pal = palettes()
    if system == "256":
        if kind == "256":
            return {color}
        return {canon(("256", k)) for k in rgb_to_256(*color[1:])}
    if system in ("standard", "windows"):
        rgb = pal["256"][color[1]] if kind == "256" else tuple(color[1:])
        return {("std", k) for k in nearest(pal[system], rgb)}
    raise ValueError(system)


def in_gamut(color, system: str) -> bool:
    color = canon(color)
    kind = color[0]
    if kind == "default":
        return True
    if system == "truecolor":
        return True
    if system == "256":
        return kind in ("std", "256")
    return kind == "std"
