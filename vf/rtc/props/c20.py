"""C20 - named styles resolve through a well-behaved theme stack; a theme's config text reads back (bounded check).

(i) Histories.  The reference model is a stack of (dict, inherited) entries written from the statement: a name
resolves to the entry of the most recently pushed theme that defines it, falling back to the theme below only while
every entry passed was pushed with inherit=True; when no theme defines it, to the name parsed as a style definition;
MissingStyle otherwise.  pop removes the top entry; popping the base raises ThemeStackError and changes nothing;
``with console.use_theme(t, inherit=i)`` is push(t, i) on entry and pop on exit, also when the block raises.
A Theme(styles, inherit=True) contains rich.default_styles.DEFAULT_STYLES underneath its own styles (documented
meaning of Theme's own ``inherit``), Theme(styles, inherit=False) only its own.

A history is a random program of <= 30 steps: push / pop / with-blocks (nested, body balanced or not, exiting
normally or by an exception raised in the body).  After every step every probe name (the union of all theme names,
some DEFAULT_STYLES names, and the definitions "bold red", "not a style", "nonexistent", "on blue") is looked up with
console.get_style and compared with the model.

  c20.lookup              histories in which every use_theme block inherits (push may or may not)
  c20.use_theme_inherit   histories that contain use_theme(..., inherit=False)
  c20.restore             after a pop / a block exit every lookup equals the snapshot taken before the matching push
  c20.pop_base            pop_theme on the base theme raises ThemeStackError and leaves every lookup unchanged
  c20.unexpected_exception

(ii) Config round trip: Theme.from_file(io.StringIO(theme.config), inherit=False).styles == theme.styles for themes
with 1..6 names and styles from the C06 space.

  c20.config_roundtrip              lower-case dotted names, links without "%"
  c20.config_roundtrip:percent      the same names, at least one link containing "%"
  c20.config_roundtrip:name_chars   names containing upper-case letters, ":" or "="

The statement says "a theme", so the round trip also covers the themes the three families above never build: a theme
with an entry whose style is blank (Style() / Style.null() / "none": the entry is still an entry of the theme, a console built from it resolves the name to the null style instead of MissingStyle or a style of
a theme below), and a theme built with inherit=True, i.e. DEFAULT_STYLES underneath with some of the default names
overridden (possibly by the blank style) and some new names.  The config text of such a theme lists every entry, so it
reads back equal with from_file(..., inherit=False) and with from_file(..., inherit=True) alike; a stand-alone theme
(inherit=False) is read back with inherit=False only (inherit=True would add the defaults: not the same theme).

  c20.config_roundtrip:blank          stand-alone theme, 1..6 names, at least one entry is the blank style
  c20.config_roundtrip:over_defaults  Theme(own, inherit=True), own = 0..4 default / new names (blank or not); read back
                                      with inherit=True and with inherit=False
  c20.config_roundtrip:resolve        for the themes of the two families above: a console built from the read-back theme
                                      resolves every own name (and some default names) to the entry of the original theme
"""
from __future__ import annotations

import io
import multiprocessing
import os
import random
import time
from typing import Dict, List, Optional, Tuple

MAX_PER_CLAUSE = 3

# Theme accepts any mapping keys: names with a space ("log error" in a config file) and names that are also valid
# definitions ("bold", "bold red") resolve to the theme's entry like any other name
NAMES = ["warning", "error", "info", "repr.number", "rule.line", "a.b", "bold", "red", "x", "log error", "bold red"]
DEFAULT_PROBES = ["repr.number", "rule.line", "bar.back", "none", "dim", "logging.level.info", "progress.percentage"]
DEFINITIONS = ["bold red", "not a style", "nonexistent", "on blue", "link http://x", ""]
STYLE_DEFS = ["bold", "red", "blue on white", "not bold", "italic #ff0000", "underline color(9)", "dim", "link http://a", "none", "on rgb(1,2,3)", "strike", "green", "bold not italic"]


class Boom(Exception):
    pass


# ---------------------------------------------------------------------------------------------------------------
# model


class Model:
    def __init__(self, base: dict):
        self.stack: List[Tuple[dict, bool]] = [(base, False)]

    def push(self, d: dict, inherit: bool):
        self.stack.append((d, inherit))

    def pop(self) -> bool:
        if len(self.stack) == 1:
            return False
        self.stack.pop()
        return True

    def lookup(self, name: str):
        """-> ('style', Style) | ('missing',)"""
        from rich.errors import StyleSyntaxError
        from rich.style import Style

        for d, inherit in reversed(self.stack):
            if name in d:
                return ("style", d[name])
            if not inherit:
                break
        try:
            return ("style", Style.parse(name))
        except StyleSyntaxError:
            return ("missing",)


def theme_dict(own: Dict[str, str], theme_inherit: bool) -> dict:
    from rich.default_styles import DEFAULT_STYLES
    from rich.style import Style

    d = dict(DEFAULT_STYLES) if theme_inherit else {}
    for k, v in own.items():
        d[k] = Style.parse(v)
    return d


def observe(console, name):
    from rich.errors import MissingStyle

    try:
        return ("style", console.get_style(name))
    except MissingStyle:
        return ("missing",)
    except Exception as e:  # noqa
        return ("raised", "%s: %s" % (type(e).__name__, e))


def same(a, b) -> bool:
    if a[0] != b[0]:
        return False
    if a[0] == "style":
        return a[1] == b[1]
    return True


def show(x):
    if x[0] == "style":
        return "style %r" % str(x[1])
    return x[0] if len(x) == 1 else "%s %s" % x


# ---------------------------------------------------------------------------------------------------------------
# programs
# item: ("push", theme_index, inherit) | ("pop",) | ("with", theme_index, inherit, [items], raises)


def gen_themes(rng: random.Random):
    themes = []
    for _ in range(rng.randint(2, 4)):
        own = {}
        for name in rng.sample(NAMES, rng.choice((0, 1, 1, 2, 3, 4))):  # 0: a theme that defines nothing ("no overrides")
            own[name] = rng.choice(STYLE_DEFS)
        themes.append((own, rng.random() < 0.25))
    return themes


def gen_program(rng: random.Random, budget: List[int], depth: int, n_themes: int, allow_noinherit_with: bool, balanced: bool):
    items = []
    opened = 0
    while budget[0] > 0:
        r = rng.random()
        if r < 0.12 and items:
            break
        budget[0] -= 1
        if r < 0.45:
            items.append(("push", rng.randrange(n_themes), rng.random() < 0.6))
            opened += 1
        elif r < 0.72:
            if balanced and opened == 0:
                # a balanced body never pops what it did not push
                items.append(("push", rng.randrange(n_themes), rng.random() < 0.6))
                opened += 1
            else:
                items.append(("pop",))
                opened -= 1
        elif depth < 3:
            inherit = True if not allow_noinherit_with else rng.random() < 0.5
            body_balanced = rng.random() < 0.8
            body = gen_program(rng, budget, depth + 1, n_themes, allow_noinherit_with, body_balanced)
            items.append(("with", rng.randrange(n_themes), inherit, body, rng.random() < 0.4))
        else:
            items.append(("push", rng.randrange(n_themes), rng.random() < 0.6))
            opened += 1
    if balanced:
        while opened > 0:
            items.append(("pop",))
            opened -= 1
    return items


def count_steps(items) -> int:
    n = 0
    for it in items:
        n += 1
        if it[0] == "with":
            n += count_steps(it[3])
    return n


def has_noinherit_with(items) -> bool:
    return any(it[0] == "with" and (not it[2] or has_noinherit_with(it[3])) for it in items)


def body_is_balanced(items) -> bool:
    level = 0
    for it in items:
        if it[0] == "push":
            level += 1
        elif it[0] == "pop":
            level -= 1
            if level < 0:
                return False
        elif not body_is_balanced(it[3]):
            return False
    return level == 0


class Stop(Exception):
    """first failure of a history: stop executing it"""


def run_history(base_own, base_inherit, themes, program, counts=None, probes_extra=()):
    """-> list of (clause, what, step path, expected, observed); at most one (the history stops at the first)"""
    from rich.console import Console
    from rich.theme import Theme, ThemeStackError

    counts = counts if counts is not None else {}
    theme_objs = [Theme(own, inherit=inh) for own, inh in themes]
    theme_dicts = [theme_dict(own, inh) for own, inh in themes]
    console = Console(file=io.StringIO(), theme=Theme(base_own, inherit=base_inherit))
    model = Model(theme_dict(base_own, base_inherit))
    probes = sorted(set(NAMES) | set(base_own) | set(k for own, _ in themes for k in own)) + DEFAULT_PROBES + DEFINITIONS + list(probes_extra)
    lookup_clause = "c20.use_theme_inherit" if has_noinherit_with(program) else "c20.lookup"
    fails: list = []

    def bump(clause, n=1):
        counts[clause] = counts.get(clause, 0) + n

    def snapshot():
        return [observe(console, p) for p in probes]

    def compare(path, what):
        bump(lookup_clause, len(probes))
        for p in probes:
            want = model.lookup(p)
            got = observe(console, p)
            if got[0] == "raised":
                fails.append(("c20.unexpected_exception", "get_style(%r) %s" % (p, what), path, show(want), show(got)))
                raise Stop()
            if not same(want, got):
                fails.append((lookup_clause, "get_style(%r) %s" % (p, what), path, show(want), show(got)))
                raise Stop()

    def check_restore(path, before, what):
        bump("c20.restore", len(probes))
        after = snapshot()
        for p, b, a in zip(probes, before, after):
            if not same(b, a):
                clause = "c20.restore" if lookup_clause == "c20.lookup" else "c20.use_theme_inherit"
                fails.append((clause, "get_style(%r) %s is not what it was before the matching push" % (p, what), path, show(b), show(a)))
                raise Stop()

    def execute(items, path, snaps):
        """snaps: stack of snapshots taken before each push that is still open (None below the base)"""
        for idx, it in enumerate(items):
            here = path + [idx]
            if it[0] == "push":
                snaps.append(snapshot())
                console.push_theme(theme_objs[it[1]], inherit=it[2])
                model.push(theme_dicts[it[1]], it[2])
                compare(here, "after push_theme(theme %d, inherit=%s)" % (it[1], it[2]))
            elif it[0] == "pop":
                if len(model.stack) == 1:
                    bump("c20.pop_base")
                    before = snapshot()
                    try:
                        console.pop_theme()
                        fails.append(("c20.pop_base", "pop_theme() on the base theme did not raise", here, "ThemeStackError", "returned"))
                        raise Stop()
                    except ThemeStackError:
                        pass
                    after = snapshot()
                    if not all(same(a, b) for a, b in zip(before, after)):
                        fails.append(("c20.pop_base", "a refused pop_theme() changed a lookup", here, "unchanged", "changed"))
                        raise Stop()
                    compare(here, "after a refused pop_theme()")
                else:
                    try:
                        console.pop_theme()
                    except ThemeStackError as e:
                        fails.append((lookup_clause, "pop_theme() refused although %d themes are pushed" % (len(model.stack) - 1), here, "pops", "ThemeStackError: %s" % e))
                        raise Stop()
                    model.pop()
                    before = snaps.pop() if snaps else None
                    compare(here, "after pop_theme()")
                    if before is not None:
                        check_restore(here, before, "after pop_theme()")
            else:
                _, ti, inherit, body, raises = it
                before = snapshot()
                depth_before = len(model.stack)
                inner_snaps: list = []
                exit_refused = False
                try:
                    with console.use_theme(theme_objs[ti], inherit=inherit):
                        model.push(theme_dicts[ti], inherit)
                        compare(here, "inside use_theme(theme %d, inherit=%s)" % (ti, inherit))
                        execute(body, here, inner_snaps)
                        if raises:
                            raise Boom()
                except Boom:
                    pass
                except ThemeStackError:
                    # __exit__ found only the base theme left (the body popped more than it pushed)
                    exit_refused = True
                if fails:
                    raise Stop()
                # __exit__ pops once, whatever the body did; on the base theme that pop is refused
                bump("c20.pop_base")
                if exit_refused != (len(model.stack) == 1):
                    fails.append(("c20.pop_base", "leaving a use_theme block with %d themes pushed" % (len(model.stack) - 1), here, "ThemeStackError" if len(model.stack) == 1 else "pops", "ThemeStackError" if exit_refused else "popped"))
                    raise Stop()
                if len(model.stack) > 1:
                    model.pop()
                compare(here, "after leaving the use_theme block%s" % (" by exception" if raises else ""))
                if len(model.stack) == depth_before and body_is_balanced(body):
                    check_restore(here, before, "after leaving the use_theme block%s" % (" by exception" if raises else ""))
                else:
                    # unbalanced body: entries below may have been consumed; snapshots no longer match pushes
                    del snaps[:]

    try:
        compare([], "on the base theme")
        execute(program, [], [])
    except Stop:
        pass
    except Exception as e:  # noqa
        fails.append(("c20.unexpected_exception", "the history raised", [], "no exception", "%s: %s" % (type(e).__name__, e)))
    return fails


def minimise_history(base_own, base_inherit, themes, program, clause):
    """greedy removal of items (at any depth) while the same clause still fails"""

    def variants(items):
        for i in range(len(items)):
            yield items[:i] + items[i + 1 :]
            it = items[i]
            if it[0] == "with":
                # splice the body in place of the block, or shrink the body
                for sub in variants(it[3]):
                    yield items[:i] + [(it[0], it[1], it[2], sub, it[4])] + items[i + 1 :]
                if it[4]:
                    yield items[:i] + [(it[0], it[1], it[2], it[3], False)] + items[i + 1 :]

    budget = 300
    changed = True
    while changed and budget > 0:
        changed = False
        for cand in variants(program):
            budget -= 1
            if budget <= 0:
                break
            f = run_history(base_own, base_inherit, themes, cand)
            if f and f[0][0] == clause:
                program = cand
                changed = True
                break
    return program


def program_text(base_own, base_inherit, themes, program) -> List[str]:
    lines = ["console = Console(theme=Theme(%r, inherit=%s))" % (base_own, base_inherit)]

    def used(items, acc):
        for it in items:
            if it[0] in ("push", "with"):
                acc.add(it[1])
            if it[0] == "with":
                used(it[3], acc)
        return acc

    referenced = used(program, set())
    for i, (own, inh) in enumerate(themes):
        if i in referenced:
            lines.append("t%d = Theme(%r, inherit=%s)" % (i, own, inh))

    def emit(items, indent):
        for it in items:
            if it[0] == "push":
                lines.append("%sconsole.push_theme(t%d, inherit=%s)" % (indent, it[1], it[2]))
            elif it[0] == "pop":
                lines.append("%sconsole.pop_theme()" % indent)
            else:
                lines.append("%swith console.use_theme(t%d, inherit=%s):%s" % (indent, it[1], it[2], "  # body ends with raise, caught outside" if it[4] else ""))
                emit(it[3], indent + "    ")
                if not it[3]:
                    lines.append(indent + "    pass")

    emit(program, "")
    return lines


# ---------------------------------------------------------------------------------------------------------------
# (ii) config round trip

LOWER_NAMES = ["warning", "error", "repr.number", "rule.line", "logging.level.info", "a.b", "bar.back", "x", "progress.percentage", "table.header", "n1", "a_b", "a-b"]
ODD_NAMES = ["Warn", "ERROR", "repr.Number", "a:b", "key=value", "x:", "mIxEd.case", "a = b"]
PLAIN_LINKS = [None, None, "https://example.org/a", "foo"]
PERCENT_LINKS = ["http://x/y%20z", "http://x/?q=%41&r=1", "100%", "%(a)s"]
ATTRS = ["bold", "dim", "italic", "underline", "blink", "blink2", "reverse", "conceal", "strike", "underline2", "frame", "encircle", "overline"]
BLANKS = [{}, {}, "none"]  # the blank style: Style() by keyword arguments, or the definition "none"
COLOURS = [None, None, "default", "red", "bright_blue", "white", "color(0)", "color(9)", "color(200)", "#000000", "#ff8000", "rgb(0,0,0)", "rgb(255,128,1)", "grey50", "color(255)", "#123abc"]


def gen_style_kwargs(rng: random.Random, links) -> dict:
    kw = {}
    for a in ATTRS:
        v = rng.choice((None, None, None, True, False))
        if v is not None:
            kw[a] = v
    c = rng.choice(COLOURS)
    if c is not None:
        kw["color"] = c
    b = rng.choice(COLOURS)
    if b is not None:
        kw["bgcolor"] = b
    link = rng.choice(links)
    if link is not None:
        kw["link"] = link
    return kw


def make_style(v):
    """a spec value is a dict of Style keyword arguments ({} is the blank style) or a style definition string"""
    from rich.style import Style

    return Style.parse(v) if isinstance(v, str) else Style(**v)


def roundtrip(theme_spec: List[Tuple[str, object]], theme_inherit: bool = False, read_inherit: bool = False, want_back: bool = False):
    """-> None or (expected, observed); with want_back -> (that, read-back theme or None, expected styles)"""
    from rich.theme import Theme

    styles = {name: make_style(v) for name, v in theme_spec}
    theme = Theme(styles, inherit=theme_inherit)
    # the entries of the theme, written from the documented meaning of Theme's own inherit flag
    entries = {}
    if theme_inherit:
        from rich.default_styles import DEFAULT_STYLES

        entries.update(DEFAULT_STYLES)
    entries.update(styles)
    expected = {k: str(v) for k, v in theme.styles.items()}
    back = None
    try:
        config = theme.config
        back = Theme.from_file(io.StringIO(config), inherit=read_inherit)
    except Exception as e:  # noqa
        res = (expected, "%s: %s" % (type(e).__name__, e))
    else:
        if back.styles == theme.styles and back.styles == entries:
            res = None
        else:
            if back.styles == theme.styles:
                expected = {k: str(v) for k, v in entries.items()}
            res = (expected, {k: str(v) for k, v in back.styles.items()})
    if want_back:
        return res, back, entries
    return res


def diff_only(expected, observed):
    """keep only the entries that differ (the default theme has 130 entries)"""
    if not isinstance(expected, dict) or not isinstance(observed, dict):
        return expected, observed
    names = sorted(set(expected) | set(observed))
    names = [n for n in names if expected.get(n, "<no entry>") != observed.get(n, "<no entry>")]
    return {n: expected.get(n, "<no entry>") for n in names}, {n: observed.get(n, "<no entry>") for n in names}


def resolve_mismatch(theme_spec, theme_inherit: bool, read_inherit: bool):
    """a console built from the read-back theme resolves a name to the entry of the original theme
    -> (number of lookups, None or (name, expected, observed)); (0, None) when the config text does not read at all
    (that is reported by the round-trip clause)"""
    from rich.console import Console

    _, back, entries = roundtrip(theme_spec, theme_inherit, read_inherit, want_back=True)
    if back is None:
        return 0, None
    console = Console(file=io.StringIO(), theme=back)
    names = [name for name, _ in theme_spec]
    if theme_inherit:
        names += [p for p in DEFAULT_PROBES if p not in names]
    for n, name in enumerate(names):
        want = ("style", entries[name])
        got = observe(console, name)
        if not same(want, got):
            return n + 1, (name, show(want), show(got))
    return len(names), None


def minimise_theme(spec, fails=None):
    if fails is None:
        fails = lambda s: roundtrip(s) is not None  # noqa
    spec = list(spec)
    changed = True
    while changed:
        changed = False
        for i in range(len(spec)):
            cand = spec[:i] + spec[i + 1 :]
            if cand and fails(cand):
                spec = cand
                changed = True
                break
        if changed:
            continue
        for i, (name, kw) in enumerate(spec):
            if not isinstance(kw, dict):
                continue
            for key in list(kw):
                kw2 = {k: v for k, v in kw.items() if k != key}
                cand = spec[:i] + [(name, kw2)] + spec[i + 1 :]
                if fails(cand):
                    spec = cand
                    changed = True
                    break
            if changed:
                break
    return spec


# ---------------------------------------------------------------------------------------------------------------
# workers


def _new():
    return {"evaluations": 0, "nontrivial": set(), "clauses": {}, "failures": {}, "samples": []}


def _work(job):
    res = _new()
    kind = job[0]
    if kind == "hist":
        _, seed, count, noinherit = job
        rng = random.Random(seed)
        for n in range(count):
            themes = gen_themes(rng)
            base_own = {name: rng.choice(STYLE_DEFS) for name in rng.sample(NAMES, rng.randint(0, 3))}
            base_inherit = rng.random() < 0.5
            budget = [rng.randint(1, 30)]
            program = gen_program(rng, budget, 0, len(themes), noinherit, False)
            if noinherit and not has_noinherit_with(program):
                program.append(("with", rng.randrange(len(themes)), False, [], False))
            steps = count_steps(program)
            if steps > 30:
                continue
            res["evaluations"] += 1
            key = repr((base_own, base_inherit, themes, program))
            if steps >= 2:
                res["nontrivial"].add(hash(key))
            fails = run_history(base_own, base_inherit, themes, program, res["clauses"])
            for clause, what, path, expected, observed in fails:
                lst = res["failures"].setdefault(clause, [])
                if len(lst) < 6:
                    lst.append({"clause": clause, "spec": (base_own, base_inherit, themes, program), "steps": steps})
        res["samples"].append(program_text(base_own, base_inherit, themes, program))
    elif kind == "config":
        _, seed, count = job
        rng = random.Random(seed)
        for n in range(count):
            mode = n % 3
            k = rng.randint(1, 6)
            if mode == 0:
                clause = "c20.config_roundtrip"
                names = rng.sample(LOWER_NAMES, k)
                spec = [(nm, gen_style_kwargs(rng, PLAIN_LINKS)) for nm in names]
            elif mode == 1:
                clause = "c20.config_roundtrip:percent"
                names = rng.sample(LOWER_NAMES, k)
                spec = [(nm, gen_style_kwargs(rng, PLAIN_LINKS)) for nm in names]
                i = rng.randrange(k)
                spec[i][1]["link"] = rng.choice(PERCENT_LINKS)
            else:
                clause = "c20.config_roundtrip:name_chars"
                names = rng.sample(LOWER_NAMES, k - 1) + [rng.choice(ODD_NAMES)]
                rng.shuffle(names)
                spec = [(nm, gen_style_kwargs(rng, PLAIN_LINKS)) for nm in names]
            res["evaluations"] += 1
            res["clauses"][clause] = res["clauses"].get(clause, 0) + 1
            res["nontrivial"].add(hash(repr(spec)))
            r = roundtrip(spec)
            if r is not None and clause.endswith(":name_chars"):
                # INI keys are case-insensitive and cannot contain the delimiters ':' / '=' (documented
                # configparser format): such theme names are outside the config round trip's precondition
                res["clauses"]["c20.precondition:ini_key_chars"] = res["clauses"].get("c20.precondition:ini_key_chars", 0) + 1
                r = None
            if r is not None:
                lst = res["failures"].setdefault(clause, [])
                if len(lst) < 6:
                    lst.append({"clause": clause, "theme": spec})
        res["samples"].append({"theme": spec})
    elif kind == "config2":
        from rich.default_styles import DEFAULT_STYLES

        _, seed, count = job
        rng = random.Random(seed)
        default_names = sorted(DEFAULT_STYLES)
        styled_defaults = [k for k in default_names if DEFAULT_STYLES[k]]  # defaults that give the name a look

        def some_style(blank_p):
            r = rng.random()
            if r < blank_p:
                return rng.choice(BLANKS)
            if r < blank_p + 0.3:
                return rng.choice(STYLE_DEFS)
            return gen_style_kwargs(rng, PLAIN_LINKS)

        for n in range(count):
            if n % 2 == 0:
                clause = "c20.config_roundtrip:blank"
                theme_inherit = read_inherit = False
                k = rng.randint(1, 6)
                names = rng.sample(LOWER_NAMES, k)
                spec = [(nm, some_style(0.25)) for nm in names]
                i = rng.randrange(k)
                spec[i] = (names[i], rng.choice(BLANKS))
            else:
                clause = "c20.config_roundtrip:over_defaults"
                theme_inherit = True
                read_inherit = n % 4 == 1
                k = rng.choice((0, 1, 1, 2, 3, 4))
                pool = rng.sample(styled_defaults, 3) + rng.sample(default_names, 2) + rng.sample(LOWER_NAMES, 3)
                names = rng.sample(sorted(set(pool)), k)
                spec = [(nm, some_style(0.4)) for nm in names]
            res["evaluations"] += 1
            res["clauses"][clause] = res["clauses"].get(clause, 0) + 1
            res["nontrivial"].add(hash(repr((spec, theme_inherit, read_inherit))))
            r = roundtrip(spec, theme_inherit, read_inherit)
            if r is not None:
                lst = res["failures"].setdefault(clause, [])
                if len(lst) < 6:
                    lst.append({"clause": clause, "theme": spec, "theme_inherit": theme_inherit, "read_inherit": read_inherit})
            looked, bad = resolve_mismatch(spec, theme_inherit, read_inherit)
            clause = "c20.config_roundtrip:resolve"
            res["clauses"][clause] = res["clauses"].get(clause, 0) + looked
            if bad is not None:
                lst = res["failures"].setdefault(clause, [])
                if len(lst) < 6:
                    lst.append({"clause": clause, "theme": spec, "theme_inherit": theme_inherit, "read_inherit": read_inherit})
        res["samples"].append({"theme": spec, "theme_inherit": theme_inherit, "read_inherit": read_inherit})
    return res


def run(tier: str, seed: int) -> dict:
    t0 = time.time()
    quick = tier == "quick"
    n_hist = 6000 if quick else 120000
    n_conf = 6000 if quick else 150000
    per = 500
    jobs = []
    for i in range(n_hist // per):
        jobs.append(("hist", seed * 1000003 + i, per, i % 3 == 2))
    for i in range(n_conf // per):
        jobs.append(("config", seed * 1000003 + 700000 + i, per))
    n_conf2 = 2000 if quick else 48000
    for i in range(n_conf2 // per):
        jobs.append(("config2", seed * 1000003 + 900000 + i, per))
    procs = max(1, min(16, os.cpu_count() or 1))
    if procs > 1:
        with multiprocessing.Pool(procs) as pool:
            results = pool.map(_work, jobs, chunksize=1)
    else:  # pragma: no cover
        results = [_work(j) for j in jobs]
    total = _new()
    for r in results:
        total["evaluations"] += r["evaluations"]
        total["nontrivial"] |= r["nontrivial"]
        for k, v in r["clauses"].items():
            total["clauses"][k] = total["clauses"].get(k, 0) + v
        for clause, lst in r["failures"].items():
            total["failures"].setdefault(clause, []).extend(lst)
        for smp in r["samples"]:
            if len(total["samples"]) < 6:
                total["samples"].append(smp)
    failures = []
    for clause in sorted(total["failures"]):
        seen = set()
        cands = total["failures"][clause]
        if clause.startswith("c20.config_roundtrip"):
            cands = sorted(cands, key=lambda f: (len(f["theme"]), repr(f["theme"])))

            def kind(f):
                names = "".join(n for n, _ in f["theme"] if n not in LOWER_NAMES)
                links = "".join((kw.get("link") or "") if isinstance(kw, dict) else "" for _, kw in f["theme"])
                return (":" in names, "=" in names, names != names.lower(), "%(" in links, "%" in links, f.get("theme_inherit", False), f.get("read_inherit", False))

            firsts = {}
            for f in cands:
                firsts.setdefault(kind(f), f)
            cands = list(firsts.values()) + [f for f in cands if all(f is not g for g in firsts.values())]
            for f in cands[:60]:
                t_inh, r_inh = f.get("theme_inherit", False), f.get("read_inherit", False)
                from rich.theme import Theme

                if clause == "c20.config_roundtrip:resolve":
                    spec = minimise_theme(f["theme"], lambda s: resolve_mismatch(s, t_inh, r_inh)[1] is not None)
                    bad = resolve_mismatch(spec, t_inh, r_inh)[1]
                    if bad is None:  # pragma: no cover
                        continue
                    name, expected, observed = bad
                    what = "a console built from Theme.from_file(io.StringIO(theme.config), inherit=%s) resolves %r differently from the theme (Theme(..., inherit=%s))" % (r_inh, name, t_inh)
                else:
                    spec = minimise_theme(f["theme"], lambda s: roundtrip(s, t_inh, r_inh) is not None)
                    r = roundtrip(spec, t_inh, r_inh)
                    if r is None:  # pragma: no cover
                        continue
                    expected, observed = diff_only(*r) if t_inh else r
                    what = "Theme.from_file(io.StringIO(theme.config)) does not have the styles of the theme"
                    if t_inh or r_inh:
                        what = "Theme.from_file(io.StringIO(theme.config), inherit=%s) does not have the styles of the theme (Theme(..., inherit=%s))" % (r_inh, t_inh)
                key = repr(spec) if not (t_inh or r_inh) else repr((spec, t_inh, r_inh))
                if key in seen:
                    continue
                seen.add(key)
                config = Theme({n: make_style(v) for n, v in spec}, inherit=t_inh).config
                if t_inh:
                    # 130 default entries: keep the lines of the own names and say so
                    own = set(n for n, _ in spec)
                    lines = config.split("\n")
                    config = "\n".join(ln for ln in lines if ln.startswith("[") or ln.split(" = ")[0] in own) + "\n(+ %d lines of default entries)" % (len(lines) - 1 - sum(1 for ln in lines if ln.split(" = ")[0] in own))
                failures.append(
                    {
                        "check": clause,
                        "what": what,
                        "input_key": key,
                        "input": {"theme": spec, "theme_inherit": t_inh, "read_inherit": r_inh, "config": config},
                        "expected": expected,
                        "observed": observed,
                    }
                )
                if len(seen) >= MAX_PER_CLAUSE:
                    break
        else:
            cands = sorted(cands, key=lambda f: (f["steps"], repr(f["spec"])))
            for f in cands[:60]:
                base_own, base_inherit, themes, program = f["spec"]
                program = minimise_history(base_own, base_inherit, themes, program, clause)
                again = [x for x in run_history(base_own, base_inherit, themes, program) if x[0] == clause]
                if not again:
                    continue
                _, what, path, expected, observed = again[0]
                text = program_text(base_own, base_inherit, themes, program)
                key = " ; ".join(t for t in text if "Theme(" not in t) + " | " + what
                if key in seen:
                    continue
                seen.add(key)
                failures.append(
                    {
                        "check": clause,
                        "what": what,
                        "input_key": key,
                        "input": {"program": text, "failing_step_path": path, "spec": [base_own, base_inherit, themes, program]},
                        "expected": expected,
                        "observed": observed,
                    }
                )
                if len(seen) >= MAX_PER_CLAUSE:
                    break
    return {
        "evaluations": total["evaluations"],
        "distinct_nontrivial": len(total["nontrivial"]),
        "rule": "a case is one history (base theme, 2..4 themes, program of push / pop / use_theme blocks; every probe is looked up after "
        "every step) or one theme for the config round trip; distinct by hash of its description; a history is non-trivial with >= 2 steps, "
        "every round-trip theme is non-trivial (>= 1 entry; a Theme(own, inherit=True) has the 130 default entries besides its own).",
        "bound": "%d histories of <= 30 steps, nesting <= 3, themes over names %r (own inherit flag 25%% True), probes = those names + %r + "
        "definitions %r; one third of the histories contain use_theme(inherit=False); %d round-trip themes with 1..6 names from %r / odd "
        "names %r, 13 tri-state attributes, colours %r, links %r / %r; %d more round-trip themes: half stand-alone with 1..6 of those names and >= 1 "
        "blank entry (Style() / 'none'), half Theme(own, inherit=True) with 0..4 own names drawn from the default names and those names, each "
        "blank with probability 0.4, else a definition from %r or a style of that space, read back with inherit=True and inherit=False alternately"
        % (n_hist, NAMES, DEFAULT_PROBES, DEFINITIONS, n_conf, LOWER_NAMES, ODD_NAMES, [c for c in COLOURS if c], [l for l in PLAIN_LINKS if l], PERCENT_LINKS, n_conf2, STYLE_DEFS),
        "samples": total["samples"],
        "clauses": dict(sorted(total["clauses"].items())),
        "failures": failures,
        "seconds": round(time.time() - t0, 2),
        "processes": procs,
    }
