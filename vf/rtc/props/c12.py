"""C12 - Progress accounting is exact for any history (bounded check against a sequential reference model).

The reference model is written from the property statement only:

  completed   == last explicitly set value (add_task(completed=), update(completed=), reset(completed=))
                 + sum of all advances since (advance(), update(advance=)), computed exactly (Fractions);
  percentage  == clamp(completed / total * 100, 0, 100), and 0 when total == 0;
  finished    a *started* task reports finished after any advance / update that leaves completed >= total;
              from then on finished_time keeps the value it had, after every later operation (on any task),
              until update(total=) or reset() of that task;
  speed       with non-negative advances only: ``task.speed`` is None or >= 0 after every operation;
  remaining   with non-negative advances only: after advance / update(advance=) of a task that is running
              (started, not stopped) ``task.time_remaining`` is None or >= 0;
  track       Progress.track / rich.progress.track over list / tuple / range / generator / iterator of
              length 0..n, auto_refresh False and True: yields every element exactly once in order, and a
              fresh task's completed == number of elements yielded (sequence consumed to the end).

Respecting preconditions: one update() call never carries both ``completed=`` and ``advance=`` (the statement
does not order them); amounts that enter sums are ints or dyadic floats (multiples of 1/8, magnitude < 2**40)
so that float addition is exact and ``completed`` can be compared with ``==``; totals are arbitrary (zero,
negative, 2**64, 10**30, 1e300) because they never enter a sum.  Every update(total=...) counts as a
total change even when the value is the same.

Interleavings: ``c12.clock_under_lock`` is a *sequentialised* interleaving.  ``Progress(get_time=...)`` gets a
clock whose callback, when it is called while ``Progress._lock`` is not held by the caller (so another thread
could legally run right there), first takes its own reading and then performs a second thread's complete
``advance`` re-entrantly before returning the earlier reading.  That is exactly the schedule
"A reads the clock; B runs advance() to completion; A takes the lock".  Afterwards the speed samples must be
sorted by timestamp, speed >= 0 and elapsed >= 0.  ``c12.no_lost_update_threads`` runs real threads, but its
expected outcome (an exact sum) does not depend on the schedule.
"""

import hashlib
import io
import json
import math
import os
import random
import sys
import threading
import time
from fractions import Fraction
from typing import Any, Dict, List, Optional, Tuple

from rich.console import Console
from rich.progress import Progress, TextColumn, track

MAX_OPS = 40
MAX_TASKS = 3
MAX_FAIL_PER_CLAUSE = 3

_TOTALS = [0, 0.0, 1, 1, 3, 10, 10, 100, 100, 2.5, 0.125, -5, -0.5, 2 ** 64, 10 ** 30, 1e300, 7, 1000]


# --------------------------------------------------------------------------- helpers
def _console(terminal: bool = False) -> Console:
    return Console(file=io.StringIO(), force_terminal=terminal, width=60, height=25, color_system=None,
                   legacy_windows=False, _environ={})


class MockClock:
    """Monotone (non-strict) clock: every reading adds the next increment of a fixed cycle."""

    def __init__(self, increments: List[float], start: float = 100.0) -> None:
        self.increments = increments or [1.0]
        self.t = start
        self.n = 0

    def __call__(self) -> float:
        self.t += self.increments[self.n % len(self.increments)]
        self.n += 1
        return self.t


def _frac(x) -> Fraction:
    return Fraction(x)


def _num_eq(observed, expected: Fraction) -> bool:
    try:
        if isinstance(observed, float) and (math.isinf(observed) or math.isnan(observed)):
            return False
        return Fraction(observed) == expected
    except Exception:
        return False


def _dec(total):
    """Totals are kept JSON-clean in the case description: the string "inf" stands for float('inf')."""
    return float("inf") if total == "inf" else total


def _expected_percentage(completed: Fraction, total) -> float:
    if total == 0:
        return 0.0
    if isinstance(total, float) and math.isinf(total):
        return 0.0  # finite / inf == 0
    value = float(completed / Fraction(total) * 100)
    return min(100.0, max(0.0, value))


class _MTask:
    def __init__(self, total, completed, started: bool) -> None:
        self.total = total
        self.base = _frac(completed)
        self.adv = Fraction(0)
        self.started = started
        self.stopped = False
        self.fin_ref: Any = None  # ("v", finished_time) once the model requires 'finished'
        self.neg_adv = False  # a negative advance happened: speed clauses no longer apply

    @property
    def completed(self) -> Fraction:
        return self.base + self.adv

    def reaches_total(self) -> bool:
        t = self.total
        if isinstance(t, float) and math.isinf(t):
            return False
        return self.completed >= Fraction(t)


# --------------------------------------------------------------------------- one sequential history
def run_history(case: dict) -> dict:
    ops = case["ops"]
    clock = MockClock(case["clock"])
    progress = Progress(TextColumn("{task.description}"), console=_console(bool(case.get("terminal"))),
                        auto_refresh=False, get_time=clock,
                        speed_estimate_period=case.get("period", 30.0))
    if case.get("started_display"):
        progress.start()
    fails: List[dict] = []
    seen = set()
    counts: Dict[str, int] = {}

    def fail(check, what, expected, observed, at):
        if check in seen:
            return
        seen.add(check)
        fails.append({"check": check, "what": what, "expected": expected, "observed": observed, "op_index": at})

    def count(c):
        counts[c] = counts.get(c, 0) + 1

    ids: List[int] = []
    model: Dict[int, _MTask] = {}
    features = set()
    try:
        for idx, op in enumerate(ops):
            name = op[0]
            target = None
            advanced = False
            updated = False
            if name == "add":
                if len(ids) >= MAX_TASKS:
                    continue
                _, total, completed, start = op
                total = _dec(total)
                tid = progress.add_task("t%d" % len(ids), total=total, completed=completed, start=bool(start))
                ids.append(tid)
                model[tid] = _MTask(total, completed, bool(start))
                target = tid
            else:
                if not ids:
                    continue
                tid = ids[op[1] % len(ids)]
                m = model[tid]
                target = tid
                if name == "advance":
                    progress.advance(tid, op[2])
                    m.adv += _frac(op[2])
                    m.neg_adv = m.neg_adv or op[2] < 0
                    advanced = updated = True
                elif name == "update":
                    kw = dict(op[2])
                    if "total" in kw:
                        kw["total"] = _dec(kw["total"])
                    progress.update(tid, **kw)
                    if "total" in kw:
                        m.total = kw["total"]
                        m.fin_ref = None
                        features.add("total_change")
                    if "advance" in kw:
                        m.adv += _frac(kw["advance"])
                        m.neg_adv = m.neg_adv or kw["advance"] < 0
                        advanced = True
                    if "completed" in kw:
                        m.base, m.adv = _frac(kw["completed"]), Fraction(0)
                    updated = True
                elif name == "reset":
                    kw = dict(op[2])
                    if "total" in kw:
                        kw["total"] = _dec(kw["total"])
                    progress.reset(tid, **kw)
                    m.base, m.adv = _frac(kw.get("completed", 0)), Fraction(0)
                    if kw.get("total") is not None:
                        m.total = kw["total"]
                    m.started = bool(kw.get("start", True))
                    m.stopped = False
                    m.fin_ref = None
                    m.neg_adv = False  # samples are cleared by the reset
                    features.add("reset")
                elif name == "start_task":
                    progress.start_task(tid)
                    m.started = True
                elif name == "stop_task":
                    progress.stop_task(tid)
                    m.started = True  # stop_task starts a task that was never started (documented)
                    m.stopped = True
                    features.add("stop_task")
                else:
                    raise ValueError(op)

            # ---------------- compare every task with the model
            tasks = {t.id: t for t in progress.tasks}
            for tid2 in ids:
                t = tasks[tid2]
                m = model[tid2]
                count("c12.completed")
                if not _num_eq(t.completed, m.completed):
                    fail("c12.completed", "task %d after op #%d %s: completed is not last set value + advances"
                         % (tid2, idx, json.dumps(op, default=str)), str(m.completed), repr(t.completed), idx)
                count("c12.percentage")
                exp_pct = _expected_percentage(m.completed, m.total)
                try:
                    got_pct = t.percentage
                except Exception as error:
                    got_pct = "%s: %s" % (type(error).__name__, error)
                if not (isinstance(got_pct, (int, float)) and math.isclose(got_pct, exp_pct, rel_tol=1e-9, abs_tol=1e-9)):
                    fail("c12.percentage", "task %d after op #%d %s: percentage is not clamp(completed/total*100)"
                         % (tid2, idx, json.dumps(op, default=str)),
                         {"percentage": exp_pct, "completed": str(m.completed), "total": repr(m.total)},
                         {"percentage": got_pct}, idx)
                # finished
                if tid2 == target and updated and m.started and m.reaches_total():
                    count("c12.finished_when_reached")
                    features.add("finished")
                    if not t.finished:
                        fail("c12.finished_when_reached",
                             "task %d is started and op #%d %s left completed >= total but it does not report finished"
                             % (tid2, idx, json.dumps(op, default=str)),
                             {"finished": True, "completed": str(m.completed), "total": repr(m.total)},
                             {"finished": t.finished, "finished_time": t.finished_time}, idx)
                    elif m.fin_ref is None:
                        m.fin_ref = ("v", t.finished_time)
                if m.fin_ref is not None:
                    count("c12.finished_time_fixed")
                    if t.finished_time != m.fin_ref[1]:
                        fail("c12.finished_time_fixed",
                             "task %d: finished_time changed at op #%d %s without a total change or reset"
                             % (tid2, idx, json.dumps(op, default=str)), m.fin_ref[1], t.finished_time, idx)
                        m.fin_ref = ("v", t.finished_time)
                # speed / time remaining (precondition: non-negative advances)
                if not m.neg_adv:
                    count("c12.speed_nonnegative")
                    sp = t.speed
                    if sp is not None and not sp >= 0:
                        fail("c12.speed_nonnegative", "task %d after op #%d %s: negative speed with non-negative advances"
                             % (tid2, idx, json.dumps(op, default=str)), ">= 0 or None", sp, idx)
                    if tid2 == target and advanced and m.started and not m.stopped:
                        count("c12.time_remaining_nonnegative")
                        tr = t.time_remaining
                        if tr is not None and not tr >= 0:
                            fail("c12.time_remaining_nonnegative",
                                 "task %d is running and advanced at op #%d %s: negative time_remaining"
                                 % (tid2, idx, json.dumps(op, default=str)), ">= 0 or None", tr, idx)
                        if sp is not None:
                            features.add("speed")
    except Exception as error:
        import traceback

        fail("c12.no_exception", "history raised %s: %s" % (type(error).__name__, error), "no exception",
             traceback.format_exc(limit=-3), len(ops) - 1)
    finally:
        if case.get("started_display"):
            progress.stop()
    nontrivial = len(ids) >= 1 and ({"finished", "speed"} & features != set()) and \
        ({"total_change", "reset"} & features != set())
    return {"fails": fails, "counts": counts, "nontrivial": nontrivial, "features": sorted(features)}


# --------------------------------------------------------------------------- generator
def _amount(rng: random.Random, mode: str, nonneg: bool):
    r = rng.random()
    if mode == "int":
        v = rng.choice([0, 1, 1, 1, 2, 3, 5, 10, 99, 2 ** 40, 10 ** 18]) if r < 0.9 else rng.randint(0, 1000)
    elif mode == "float":
        v = rng.choice([0.0, 0.125, 0.5, 1.0, 1.5, 2.25, 10.0, 99.875, float(2 ** 30)])
    else:
        v = rng.choice([0, 1, 2, 0.5, 0.125, 3, 7.75, 10, 100, 2 ** 30])
    if not nonneg and rng.random() < 0.25:
        v = -v
    return v


def gen_case(rng: random.Random) -> dict:
    mode = rng.choice(["int", "float", "mixed"])
    nonneg = rng.random() < 0.65
    incs = [rng.choice([0.0, 0.0, 0.001, 0.5, 1.0, 1.0, 3.0, 12.0, 45.0]) for _ in range(rng.randint(1, 7))]
    case = {"mode": mode, "nonneg": nonneg, "clock": incs, "period": rng.choice([30.0, 30.0, 5.0, 1000.0]),
            "started_display": rng.random() < 0.2, "terminal": rng.random() < 0.5}
    ops: List[list] = []
    n_ops = rng.randint(3, MAX_OPS)
    n_tasks = 0
    while len(ops) < n_ops:
        r = rng.random()
        if n_tasks == 0 or (r < 0.08 and n_tasks < MAX_TASKS):
            total = rng.choice(_TOTALS)
            completed = 0 if rng.random() < 0.7 else abs(_amount(rng, mode, True))
            ops.append(["add", total, completed, 1 if rng.random() < 0.8 else 0])
            n_tasks += 1
            continue
        i = rng.randrange(n_tasks)
        if r < 0.45:
            ops.append(["advance", i, _amount(rng, mode, nonneg)])
        elif r < 0.55:
            ops.append(["update", i, {"advance": _amount(rng, mode, nonneg)}])
        elif r < 0.65:
            ops.append(["update", i, {"completed": abs(_amount(rng, mode, True)) if rng.random() < 0.9 else -1}])
        elif r < 0.75:
            kw: Dict[str, Any] = {"total": rng.choice(_TOTALS)}
            q = rng.random()
            if q < 0.25:
                kw["completed"] = abs(_amount(rng, mode, True))
            elif q < 0.5:
                kw["advance"] = _amount(rng, mode, nonneg)
            ops.append(["update", i, kw])
        elif r < 0.83:
            kw = {}
            if rng.random() < 0.5:
                kw["total"] = rng.choice(_TOTALS)
            if rng.random() < 0.4:
                kw["completed"] = abs(_amount(rng, mode, True))
            if rng.random() < 0.25:
                kw["start"] = False
            ops.append(["reset", i, kw])
        elif r < 0.9:
            ops.append(["start_task", i])
        elif r < 0.94:
            ops.append(["stop_task", i])
        else:
            ops.append(["update", i, {"description": "d", "visible": bool(rng.getrandbits(1))}])
    case["ops"] = ops[:MAX_OPS]
    return case


# --------------------------------------------------------------------------- track()
def _make_seq(kind: str, n: int):
    data = list(range(100, 100 + n))
    if kind == "list":
        return data, data, None
    if kind == "tuple":
        return tuple(data), data, None
    if kind == "range":
        return range(100, 100 + n), data, None
    if kind == "generator":
        return (x for x in data), data, n
    if kind == "iterator":
        return iter(data), data, n
    if kind == "dict":
        return {x: None for x in data}, data, None
    raise ValueError(kind)


def run_track(case: dict) -> dict:
    kind, n, auto, api = case["seq"], case["n"], case["auto_refresh"], case["api"]
    seq, expected, total = _make_seq(kind, n)
    fails = []
    got: List[Any] = []
    completed = None
    console = _console(terminal=bool(case.get("terminal")))
    kwargs = {} if total is None else {"total": total}
    if api == "function":
        for v in track(seq, console=console, auto_refresh=auto, update_period=case.get("period", 0.001),
                       get_time=MockClock([0.25]), **kwargs):
            got.append(v)
    else:
        progress = Progress(console=console, auto_refresh=auto, get_time=MockClock([0.25]), disable=bool(case.get("disable")))
        if case.get("with_display", True):
            with progress:
                for v in progress.track(seq, update_period=case.get("period", 0.001), **kwargs):
                    got.append(v)
        else:
            for v in progress.track(seq, update_period=case.get("period", 0.001), **kwargs):
                got.append(v)
        tasks = progress.tasks
        completed = tasks[0].completed if len(tasks) == 1 else "tasks=%d" % len(tasks)
    if got != expected:
        fails.append({"check": "c12.track_yields", "what": "track() did not yield every element once in order",
                      "expected": expected, "observed": got})
    if api == "method" and completed != len(got):
        fails.append({"check": "c12.track_completed", "what": "fresh task's completed != number of elements yielded",
                      "expected": len(got), "observed": completed})
    return {"fails": fails}


def _track_cases(tier: str) -> List[dict]:
    cases = []
    ns = list(range(0, 8)) + [20] if tier == "quick" else list(range(0, 34)) + [100, 1000]
    for kind in ["list", "tuple", "range", "generator", "iterator", "dict"]:
        for n in ns:
            for auto in (False, True):
                for api in ("method", "function"):
                    case = {"seq": kind, "n": n, "auto_refresh": auto, "api": api, "terminal": (n % 2 == 0),
                            "period": 0.001 if n % 3 else 0.0001, "with_display": not (n % 5 == 4 and not auto)}
                    cases.append(case)
                    if api == "method" and n in (0, 1, 3, 20):
                        # a disabled display still counts what track() hands out
                        cases.append(dict(case, disable=True))
    return cases


# --------------------------------------------------------------------------- #18: clock read outside the lock
class _InterleavingClock:
    """Clock that plays 'another thread ran a complete advance() right after this clock reading'."""

    def __init__(self, step: float) -> None:
        self.t = 100.0
        self.step = step
        self.progress: Optional[Progress] = None
        self.armed = False
        self.other: Optional[Tuple[int, float]] = None
        self.injected = 0
        self.skipped_locked = 0
        self.busy = False

    def __call__(self) -> float:
        self.t += self.step
        reading = self.t
        if self.armed and not self.busy and self.progress is not None:
            self.armed = False
            lock = self.progress._lock
            owned = lock._is_owned() if hasattr(lock, "_is_owned") else False
            if owned:
                # the caller holds the monitor: no other thread can run here, the schedule is impossible
                self.skipped_locked += 1
            else:
                self.busy = True
                try:
                    self.progress.advance(*self.other)  # thread B, start to end, with later clock readings
                finally:
                    self.busy = False
                self.injected += 1
        return reading


def run_interleaving(case: dict) -> dict:
    clock = _InterleavingClock(case.get("step", 1.0))
    progress = Progress(TextColumn("{task.description}"), console=_console(), auto_refresh=False, get_time=clock)
    clock.progress = progress
    tid = progress.add_task("t", total=case.get("total", 100))
    for _ in range(case.get("warmup", 1)):
        progress.advance(tid, 1)
    expected_completed = case.get("warmup", 1)
    fails = []
    for i, a_op in enumerate(case["a_ops"]):
        clock.other = (tid, case.get("b_amount", 1))
        clock.armed = True
        before = clock.injected
        if a_op == "advance":
            progress.advance(tid, 1)
            expected_completed += 1
        elif a_op == "reset":
            progress.reset(tid)
            expected_completed = 0
        elif a_op == "update":
            progress.update(tid, advance=1)
            expected_completed += 1
        clock.armed = False
        if clock.injected > before and a_op != "reset":
            expected_completed += case.get("b_amount", 1)
        task = progress.tasks[0]
        stamps = [s.timestamp for s in task._progress]
        problems = []
        if stamps != sorted(stamps):
            problems.append("speed samples not sorted by timestamp: %r" % (stamps[-4:],))
        sp = task.speed
        if sp is not None and not sp >= 0:
            problems.append("speed %r < 0" % (sp,))
        el = task.elapsed
        if el is not None and el < 0:
            problems.append("elapsed %r < 0" % (el,))
        if a_op != "reset" and task.completed != expected_completed:
            problems.append("completed %r != %r" % (task.completed, expected_completed))
        if problems:
            fails.append({"check": "c12.clock_under_lock",
                          "what": "thread A: %s() read the clock, thread B ran advance() completely, then A took the "
                                  "lock (A's step #%d): %s" % (a_op, i, "; ".join(problems)),
                          "expected": "samples sorted by timestamp, speed >= 0, elapsed >= 0",
                          "observed": problems, "op_index": i})
            break
    return {"fails": fails, "injected": clock.injected, "skipped_locked": clock.skipped_locked}


def _interleaving_cases() -> List[dict]:
    cases = []
    for a_ops in (["advance"], ["reset"], ["update"], ["advance", "advance"], ["reset", "advance"],
                  ["advance", "reset", "advance"], ["update", "advance", "update"]):
        for warmup in (0, 1, 3):
            for b_amount in (1, 5):
                cases.append({"a_ops": a_ops, "warmup": warmup, "b_amount": b_amount, "step": 1.0, "total": 100})
    return cases


def run_threads(case: dict) -> dict:
    n_threads, per, amount = case["threads"], case["per_thread"], case["amount"]
    progress = Progress(TextColumn("{task.description}"), console=_console(), auto_refresh=False)
    tid = progress.add_task("t", total=n_threads * per * amount)
    old = sys.getswitchinterval()
    sys.setswitchinterval(1e-6)
    try:
        barrier = threading.Barrier(n_threads)

        def work(k):
            barrier.wait()
            for j in range(per):
                if (j + k) % 3 == 0:
                    progress.update(tid, advance=amount)
                else:
                    progress.advance(tid, amount)

        threads = [threading.Thread(target=work, args=(k,), daemon=True) for k in range(n_threads)]
        for t in threads:
            t.start()
        for t in threads:
            t.join(30)
        alive = any(t.is_alive() for t in threads)
    finally:
        sys.setswitchinterval(old)
    fails = []
    task = progress.tasks[0]
    if alive:
        fails.append({"check": "c12.no_lost_update_threads", "what": "worker thread did not finish within 30 s",
                      "expected": "all joined", "observed": "timeout"})
    elif task.completed != n_threads * per * amount or not task.finished:
        fails.append({"check": "c12.no_lost_update_threads",
                      "what": "%d threads x %d advances of %r: lost update or not finished" % (n_threads, per, amount),
                      "expected": {"completed": n_threads * per * amount, "finished": True},
                      "observed": {"completed": task.completed, "finished": task.finished}})
    return {"fails": fails}


# --------------------------------------------------------------------------- minimisation
def _fails_with(case: dict, ops: List[list], clause: str) -> Optional[dict]:
    c = dict(case)
    c["ops"] = ops
    try:
        for f in run_history(c)["fails"]:
            if f["check"] == clause:
                return f
    except Exception:
        return None
    return None


def minimise(case: dict, clause: str, budget: float = 2.0) -> Tuple[dict, Optional[dict]]:
    ops = case["ops"]
    best = _fails_with(case, ops, clause)
    if best is None:
        return case, None
    ops = ops[: best["op_index"] + 1]
    t0 = time.time()
    changed = True
    while changed and time.time() - t0 < budget:
        changed = False
        i = len(ops) - 1
        while i >= 0 and time.time() - t0 < budget:
            trial = ops[:i] + ops[i + 1:]
            f = _fails_with(case, trial, clause)
            if f is not None:
                ops, best, changed = trial, f, True
            i -= 1
    out = dict(case)
    out["ops"] = ops
    # the simplest clock that still fails
    for clock in ([1.0], [0.0], [0.5]):
        trial_case = dict(out)
        trial_case["clock"] = clock
        f = _fails_with(trial_case, ops, clause)
        if f is not None:
            out, best = trial_case, f
            break
    return out, best


# --------------------------------------------------------------------------- driver
def _batch(args) -> List[dict]:
    seed, lo, hi = args
    out = []
    for i in range(lo, hi):
        rng = random.Random("c12:%d:%d" % (seed, i))
        case = gen_case(rng)
        res = run_history(case)
        out.append({"i": i, "case": case, "res": res})
    return out


def run(tier: str, seed: int) -> dict:
    t_start = time.time()
    quick = tier != "thorough"
    n_cases = 12000 if quick else 400000
    budget = 20.0 if quick else 480.0
    clauses: Dict[str, int] = {}
    failures: List[dict] = []
    pending: Dict[str, List[dict]] = {}
    totals: Dict[str, int] = {}
    samples: List[Any] = []
    evaluations = 0
    distinct = set()

    def add(check, what, input_key, inp, expected, observed, size=0):
        totals[check] = totals.get(check, 0) + 1
        pending.setdefault(check, []).append(
            {"check": check, "what": what, "input_key": input_key, "input": inp, "expected": expected,
             "observed": observed, "_size": size})

    # ---- sequentialised interleaving (#18) and the thread sum
    for case in _interleaving_cases():
        res = run_interleaving(case)
        evaluations += 1
        clauses["c12.clock_under_lock"] = clauses.get("c12.clock_under_lock", 0) + 1
        if res["injected"]:
            distinct.add("il:" + json.dumps(case, sort_keys=True))
        for f in res["fails"]:
            add(f["check"], f["what"], "A=%s/warm%d/b%d" % ("+".join(case["a_ops"]), case["warmup"], case["b_amount"]),
                case, f["expected"], f["observed"], size=len(case["a_ops"]) + case["warmup"])
    if len(samples) < 2:
        samples.append({"interleaving_case": _interleaving_cases()[0]})
    thread_cases = [{"threads": n, "per_thread": per, "amount": amt}
                    for n in (2, 4, 8) for per in ((150,) if quick else (150, 2000)) for amt in (1, 0.5)]
    for case in thread_cases:
        res = run_threads(case)
        evaluations += 1
        clauses["c12.no_lost_update_threads"] = clauses.get("c12.no_lost_update_threads", 0) + 1
        distinct.add("th:" + json.dumps(case, sort_keys=True))
        for f in res["fails"]:
            add(f["check"], f["what"], "threads%d/per%d/amt%s" % (case["threads"], case["per_thread"], case["amount"]),
                case, f["expected"], f["observed"])

    # ---- track()
    for case in _track_cases(tier):
        try:
            res = run_track(case)
        except Exception as error:
            import traceback

            res = {"fails": [{"check": "c12.track_no_exception", "what": "track raised %s: %s" % (type(error).__name__, error),
                              "expected": "no exception", "observed": traceback.format_exc(limit=-3)}]}
        evaluations += 1
        clauses["c12.track_yields"] = clauses.get("c12.track_yields", 0) + 1
        if case["api"] == "method":
            clauses["c12.track_completed"] = clauses.get("c12.track_completed", 0) + 1
        if case["n"] > 0:
            distinct.add("tr:" + json.dumps(case, sort_keys=True))
        for f in res["fails"]:
            add(f["check"], f["what"], "%s/n%d/auto%d/%s" % (case["seq"], case["n"], int(case["auto_refresh"]), case["api"]),
                case, f["expected"], f["observed"], size=case["n"])
    samples.append({"track_case": _track_cases(tier)[5]})

    # ---- random sequential histories
    step = 100 if quick else 1000
    batches = [(seed, lo, min(n_cases, lo + step)) for lo in range(0, n_cases, step)]
    results: List[dict] = []
    if quick:
        for b in batches:
            if time.time() - t_start > budget:
                break
            results.extend(_batch(b))
    else:
        import multiprocessing

        with multiprocessing.get_context("fork").Pool(min(16, os.cpu_count() or 1)) as pool:
            for part in pool.imap(_batch, batches):
                results.extend(part)
                if time.time() - t_start > budget:
                    pool.terminate()
                    break
    results.sort(key=lambda r: r["i"])
    raw: Dict[str, List[dict]] = {}
    for r in results:
        evaluations += 1
        for c, n in r["res"]["counts"].items():
            clauses[c] = clauses.get(c, 0) + n
        if r["res"]["nontrivial"]:
            distinct.add(hashlib.sha1(json.dumps(r["case"], sort_keys=True, default=str).encode()).hexdigest())
        if len(samples) < 8 and r["res"]["nontrivial"] and r["i"] % 11 == 0:
            samples.append({"case": {k: v for k, v in r["case"].items() if k != "ops"}, "ops": r["case"]["ops"][:10],
                            "n_ops": len(r["case"]["ops"]), "features": r["res"]["features"]})
        for f in r["res"]["fails"]:
            raw.setdefault(f["check"], []).append({"r": r, "f": f})
    for check, items in raw.items():
        items.sort(key=lambda it: (it["f"]["op_index"], it["r"]["i"]))
        totals[check] = totals.get(check, 0) + len(items)
        kept = 0
        sigs = set()
        for it in items:
            if kept >= MAX_FAIL_PER_CLAUSE:
                break
            case, f = it["r"]["case"], it["f"]
            if check != "c12.no_exception":
                case2, f2 = minimise(case, check, budget=1.0 if quick else 4.0)
                if f2:
                    case, f = case2, f2
            sig = json.dumps([o[0] if o[0] != "update" else sorted(o[2]) for o in case["ops"]])
            if sig in sigs:
                continue
            sigs.add(sig)
            key = hashlib.sha1(json.dumps(case, sort_keys=True, default=str).encode()).hexdigest()[:10]
            pending.setdefault(check, []).append(
                {"check": check, "what": f["what"], "input_key": "hist/%s" % key,
                 "input": dict(case, case_index=it["r"]["i"], seed=seed), "expected": f["expected"],
                 "observed": f["observed"], "_size": len(case["ops"])})
            kept += 1

    for check, lst in pending.items():
        lst.sort(key=lambda d: d["_size"])
        for d in lst[:MAX_FAIL_PER_CLAUSE]:
            d = dict(d)
            d.pop("_size")
            failures.append(d)

    return {
        "evaluations": evaluations,
        "distinct_nontrivial": len(distinct),
        "rule": "sequential histories: seeded random (seed, index) -> (numeric mode int/float/mixed, sign mode, clock "
                "increment cycle, speed period, <=40 ops over <=3 tasks), all tasks compared with the reference model "
                "after every op; distinct by sha1 of the case; non-trivial = some task reached 'finished' or had a speed "
                "estimate AND a total change or reset occurred. track cases: enumerated (sequence kind x length x "
                "auto_refresh x api), non-trivial if length > 0. interleaving cases: enumerated, non-trivial if the second "
                "thread's advance was actually injected. Deterministic per seed; the auto_refresh=True track cases and "
                "c12.no_lost_update_threads use real threads but their expected outcome is schedule independent.",
        "bound": "%d random histories (<=%d ops, <=%d tasks; totals from %s; amounts int (<=10**18) / dyadic float / mixed; "
                 "negative advances in ~35%% of histories); %d track cases (list, tuple, range, generator, iterator, dict; "
                 "lengths %s); %d sequentialised interleavings (A in advance/reset/update, B = advance); %d thread runs "
                 "(2/4/8 threads)" % (len(results), MAX_OPS, MAX_TASKS, ", ".join(sorted(set(map(repr, _TOTALS)))),
                                      len(_track_cases(tier)), "0..7,20" if quick else "0..33,100,1000",
                                      len(_interleaving_cases()), len(thread_cases)),
        "samples": samples[:8],
        "clauses": clauses,
        "failures": failures,
        "failure_counts": totals,
        "seconds": round(time.time() - t_start, 2),
    }
