"""C04 - markup styles exactly the tagged regions, and escape() neutralises any text (bounded check).

The oracle is a reference markup interpreter written from the property statement and docs/source/markup.rst:

* tokenisation only is derived from rich/markup.py RE_TAGS  ``(\\\\*)\\[([a-z#/].*?)\\]``: a tag is "[" + tag-text + "]"
  where tag-text starts with an ASCII lower-case letter, "#" or "/" and runs to the *first* "]" without crossing a
  newline; a run of k backslashes immediately before a tag stands for k//2 literal backslashes and, if k is odd,
  makes the tag literal text.  Backslashes anywhere else are literal.  (hand-written scanner ``ref_scan``)
* semantics (``ref_interpret``) are written from the statement: a stack (list in opening order) of open tags;
  the *name* of a tag is the text before the first "="; "[name=params]" denotes the style definition "name params";
  "[/name]" closes the most recent open tag whose normalised name equals the normalised ``name`` (normalised: equal
  as parsed styles when both parse as style definitions, equal ignoring case and surrounding blanks when neither
  does); "[/]" (blank name) closes the most recent tag; unclosed tags run to the end; MarkupError exactly when a
  closing tag has nothing to close; every character is styled by the tags open at that point, combined in opening
  order (later-opened wins).

Precondition (not judged, counted as ``skipped:case_sensitive_name``): a tag name that parses as a style definition
only after lower-casing (e.g. "not BOLD"; Style.parse lower-cases every word except the one after "not") - the
statement does not say whether names are case-sensitive.

Compared with rich.markup.render(s, emoji=False) / Text.from_markup(s, emoji=False): plain text; MarkupError iff;
per character the multiset of resolved styles of the spans covering it (``c04.tag_regions``) and the effective
style obtained by combining them in rich's span order vs. the reference's opening order (``c04.tag_order``); for
random inputs additionally the styles of the segments that Text.render actually emits (``c04.rendered_style``).
Styles are resolved by Style.parse with an empty theme (unparseable definitions style nothing), so the theme is not
a variable here (C20 covers it).

escape clauses: ``c04.escape_verbatim`` render(escape(s)) has plain == s and no spans, for every s;
``c04.escape_embedded`` the same inside complete markup templates, under the stated side conditions (s does not end
in a backslash, every "[" in s is closed by a later "]" within s); the template itself is interpreted by the
reference with s replaced by opaque placeholder characters.

Links: a tag is a style definition, so a link may be written inside the tag text ("[link URL]", "[bold link URL]") as
well as "[link=URL]".  The URL is data: every character must carry exactly the URL written in the tag (case
included), and two link tags name the same style only when their URLs are equal.  These inputs come from the
link-token enumeration (LINK_TOKEN_ALPHABET), the generator names LU / LL / BLU / ULQ and mixed-case LINK_URLS; they
are judged by the same clauses (tag_regions / tag_order / rendered_style / error_iff).

Random documents come from a generator that knows the intended structure (keyword-built styles per tag instance);
generator-known expectation vs. reference interpreter is a self-check of this file (``c04.internal``).
"""
from __future__ import annotations

import hashlib
import multiprocessing
import os
import random
import re
import time
from typing import Dict, List, Optional, Tuple

MAX_PER_CLAUSE = 3

# ---------------------------------------------------------------------------------------------------------------
# reference scanner + interpreter


def _tag_start(c: str) -> bool:
    return ("a" <= c <= "z") or c == "#" or c == "/"


def ref_scan(s: str) -> List[Tuple[str, str]]:
    """[('text', literal) | ('tag', tag_text)] in document order (adjacent literals are not merged)"""
    out: List[Tuple[str, str]] = []
    n = len(s)
    i = 0
    lit_start = 0
    while i < n:
        if s[i] == "[" and i + 1 < n and _tag_start(s[i + 1]):
            j = i + 2
            while j < n and s[j] != "]" and s[j] != "\n":
                j += 1
            if j < n and s[j] == "]":
                k = 0
                while i - k - 1 >= lit_start and s[i - k - 1] == "\\":
                    k += 1
                literal = s[lit_start : i - k] + "\\" * (k // 2)
                if k % 2:
                    literal += s[i : j + 1]
                    out.append(("text", literal))
                else:
                    if literal:
                        out.append(("text", literal))
                    out.append(("tag", s[i + 1 : j]))
                lit_start = j + 1
                i = j + 1
                continue
        i += 1
    if lit_start < n:
        out.append(("text", s[lit_start:]))
    return out


class RefError(Exception):
    """reference verdict: a closing tag has nothing to close"""


class RefUndecided(Exception):
    """the input is outside the preconditions of the statement (see _norm_key)"""


_NORM_CACHE: Dict[str, tuple] = {}


def _norm_key(name: str):
    """normalised tag name: ('S', Style) when it parses as a style definition, else ('T', folded text)"""
    key = _NORM_CACHE.get(name)
    if key is None:
        from rich.style import Style
        from rich.errors import StyleSyntaxError

        try:
            key = ("S", Style.parse(name))
        except StyleSyntaxError:
            key = ("T", name.strip().lower())
            # Precondition: the statement does not say whether style words are case-sensitive, and Style.parse is
            # (only) half case-insensitive ("BOLD" parses, "not BOLD" does not).  A name that parses only after
            # lower-casing is therefore not judged.
            try:
                Style.parse(name.lower())
                key = ("?", name)
            except StyleSyntaxError:
                pass
        if len(_NORM_CACHE) > 20000:
            _NORM_CACHE.clear()
        _NORM_CACHE[name] = key
    return key


def _same_name(a, b) -> bool:
    return a[0] == b[0] and a[1] == b[1]


def ref_interpret(s: str):
    """-> (plain, per_char) with per_char[i] = tuple of style definitions of the tags open at character i,
    in opening order.  Raises RefError when a closing tag has nothing to close."""
    plain: List[str] = []
    per_char: List[tuple] = []
    open_tags: List[Tuple[tuple, str]] = []
    current: tuple = ()
    for kind, value in ref_scan(s):
        if kind == "text":
            plain.append(value)
            per_char.extend([current] * len(value))
            continue
        name, eq, params = value.partition("=")
        if name.startswith("/"):
            target = name[1:].strip()
            if not target:
                if not open_tags:
                    raise RefError("[/] with nothing open")
                open_tags.pop()
            else:
                key = _norm_key(target)
                if key[0] == "?":
                    raise RefUndecided(target)
                for idx in range(len(open_tags) - 1, -1, -1):
                    if _same_name(open_tags[idx][0], key):
                        del open_tags[idx]
                        break
                else:
                    raise RefError("[/%s] matches no open tag" % target)
        else:
            definition = name + " " + params if eq else name
            key = _norm_key(name)
            if key[0] == "?":
                raise RefUndecided(name)
            open_tags.append((key, definition))
        current = tuple(d for _, d in open_tags)
    return "".join(plain), per_char


# ---------------------------------------------------------------------------------------------------------------
# style resolution (empty theme: a definition that does not parse styles nothing)

_RESOLVE: Dict[str, object] = {}
_COMBINE: Dict[tuple, object] = {}


def _resolve(definition) -> object:
    st = _RESOLVE.get(definition)
    if st is None:
        from rich.style import Style
        from rich.errors import StyleSyntaxError

        if isinstance(definition, Style):
            return definition
        try:
            st = Style.parse(definition)
        except StyleSyntaxError:
            st = Style.null()
        if len(_RESOLVE) > 20000:
            _RESOLVE.clear()
        _RESOLVE[definition] = st
    return st


def _effect(defs: tuple):
    """effective style of definitions applied in the given order (later wins)"""
    st = _COMBINE.get(defs)
    if st is None:
        from rich.style import Style

        st = Style.null()
        for d in defs:
            st = st + _resolve(d)
        if len(_COMBINE) > 20000:
            _COMBINE.clear()
        _COMBINE[defs] = st
    return st


def _bag(defs: tuple) -> tuple:
    return tuple(sorted(str(_resolve(d)) for d in defs if not _is_null(_resolve(d))))


def _is_null(style) -> bool:
    return not bool(style)


def _obs(style) -> str:
    return str(style)


# ---------------------------------------------------------------------------------------------------------------
# observation of rich


def rich_per_char(text) -> List[tuple]:
    n = len(text.plain)
    cover: List[list] = [[] for _ in range(n)]
    for span in text.spans:
        st = span.style
        for i in range(max(0, span.start), min(n, span.end)):
            cover[i].append(st)
    return [tuple(c) for c in cover]


_CONSOLE = None


def _console():
    global _CONSOLE
    if _CONSOLE is None:
        import io
        from rich.console import Console
        from rich.theme import Theme

        _CONSOLE = Console(file=io.StringIO(), theme=Theme({}, inherit=False), width=80, color_system=None)
    return _CONSOLE


def rendered_per_char(text) -> List[object]:
    out = []
    for seg in text.render(_console(), end=""):
        out.extend([seg.style] * len(seg.text))
    return out


# ---------------------------------------------------------------------------------------------------------------
# the checks for one markup string

PLACEHOLDER = "\ue000"

TEMPLATES = [
    ("[bold]", "[/bold]"),
    ("x [red]y[/red] ", " [b]z[/b]"),
    ("[link=http://a][red]", "[/link] t [italic]i[/] u"),
    ("a\n[blue on red]", "\nb"),
    ("", "[bold]k[/]"),
]


def escape_side_conditions(s: str) -> bool:
    """s does not end in a backslash and every '[' in s is closed by a later ']' within s"""
    if s.endswith("\\"):
        return False
    last_close = s.rfind("]")
    last_open = s.rfind("[")
    return last_open < last_close or last_open == -1


def _compare_styles(clause_prefix, exp_per_char, text, fails, deep):
    """exp_per_char: list of tuples of definitions (opening order).  Appends (clause, what, expected, observed)."""
    got = rich_per_char(text)
    n = min(len(got), len(exp_per_char))
    region_bad = None
    order_bad = None
    for i in range(n):
        e, g = exp_per_char[i], got[i]
        if e == g:
            continue
        if region_bad is None and _bag(e) != _bag(g):
            region_bad = i
        elif order_bad is None and _bag(e) == _bag(g) and not (_effect(e) == _effect(g)):
            order_bad = i
    if region_bad is not None:
        i = region_bad
        fails.append(
            (
                clause_prefix + "tag_regions",
                "character %d is covered by a different set of tag styles" % i,
                {"char": i, "open_tags": list(exp_per_char[i])},
                {"char": i, "span_styles": [str(x) for x in got[i]], "spans": repr(text.spans)},
            )
        )
    if order_bad is not None:
        i = order_bad
        fails.append(
            (
                clause_prefix + "tag_order",
                "character %d: later-opened tag does not take precedence" % i,
                {"char": i, "open_tags_in_opening_order": list(exp_per_char[i]), "effective": _obs(_effect(exp_per_char[i]))},
                {"char": i, "span_styles_in_span_order": [str(x) for x in got[i]], "effective": _obs(_effect(got[i]))},
            )
        )
    if deep and region_bad is None and order_bad is None:
        rend = rendered_per_char(text)
        for i in range(min(len(rend), len(exp_per_char))):
            r = rend[i]
            from rich.style import Style

            r = Style.null() if r is None else r
            if not (r == _effect(exp_per_char[i])):
                fails.append(
                    (
                        clause_prefix + "rendered_style",
                        "Text.render: segment style of character %d differs from the tags open there" % i,
                        {"char": i, "effective": _obs(_effect(exp_per_char[i]))},
                        {"char": i, "segment_style": _obs(r)},
                    )
                )
                break


def check_markup(s: str, counts: Dict[str, int], deep: bool = False, use_from_markup: bool = False):
    """main clauses for markup string s.  Returns list of (clause, what, expected, observed)."""
    from rich.errors import MarkupError
    from rich.markup import render
    from rich.text import Text

    fails: list = []
    try:
        exp = ref_interpret(s)
    except RefError as e:
        exp = e
    except RefUndecided:
        counts["skipped:case_sensitive_name"] = counts.get("skipped:case_sensitive_name", 0) + 1
        return fails
    except Exception as e:  # pragma: no cover - the reference must not fail
        fails.append(("c04.internal", "reference interpreter raised", None, "%s: %s" % (type(e).__name__, e)))
        return fails
    counts["c04.error_iff"] = counts.get("c04.error_iff", 0) + 1
    try:
        text = Text.from_markup(s, emoji=False) if use_from_markup else render(s, emoji=False)
    except MarkupError as e:
        if not isinstance(exp, RefError):
            fails.append(
                ("c04.error_iff", "MarkupError although every closing tag has something to close", "no error; plain %r" % exp[0], "MarkupError: %s" % e)
            )
        return fails
    except Exception as e:
        fails.append(
            ("c04.unexpected_exception", "render raised something other than MarkupError", "MarkupError" if isinstance(exp, RefError) else "no error", "%s: %s" % (type(e).__name__, e))
        )
        return fails
    if isinstance(exp, RefError):
        fails.append(("c04.error_iff", "no MarkupError although a closing tag has nothing to close", "MarkupError (%s)" % exp, "plain %r spans %r" % (text.plain, text.spans)))
        return fails
    plain, per_char = exp
    counts["c04.plain"] = counts.get("c04.plain", 0) + 1
    if text.plain != plain:
        fails.append(("c04.plain", "plain text is not the input with its tags removed", plain, text.plain))
        return fails
    if per_char or text.spans:
        counts["c04.tag_regions"] = counts.get("c04.tag_regions", 0) + 1
        counts["c04.tag_order"] = counts.get("c04.tag_order", 0) + 1
        if deep:
            counts["c04.rendered_style"] = counts.get("c04.rendered_style", 0) + 1
        _compare_styles("c04.", per_char, text, fails, deep)
    return fails


def check_escape(s: str, counts: Dict[str, int], templates) -> list:
    from rich.markup import escape, render

    fails: list = []
    counts["c04.escape_verbatim"] = counts.get("c04.escape_verbatim", 0) + 1
    try:
        esc = escape(s)
        text = render(esc, emoji=False)
    except Exception as e:
        fails.append(("c04.escape_verbatim", "render(escape(s)) raised", "plain == s, no spans", "%s: %s" % (type(e).__name__, e)))
        return fails
    if text.plain != s or text.spans:
        fails.append(
            ("c04.escape_verbatim", "render(escape(s)) is not s verbatim without styling", {"plain": s, "spans": []}, {"escaped": esc, "plain": text.plain, "spans": repr(text.spans)})
        )
    if not escape_side_conditions(s):
        return fails
    for t in templates:
        pre, post = TEMPLATES[t]
        counts["c04.escape_embedded"] = counts.get("c04.escape_embedded", 0) + 1
        ref_plain, ref_chars = _template_ref(t, len(s))
        exp_plain = ref_plain.replace(PLACEHOLDER * len(s), s, 1) if s else ref_plain
        doc = pre + esc + post
        try:
            text = render(doc, emoji=False)
        except Exception as e:
            fails.append(("c04.escape_embedded", "render(pre + escape(s) + post) raised", {"plain": exp_plain}, {"markup": doc, "raised": "%s: %s" % (type(e).__name__, e)}))
            break
        if text.plain != exp_plain:
            fails.append(("c04.escape_embedded", "escaped text embedded in complete markup is not reproduced verbatim", {"template": [pre, post], "plain": exp_plain}, {"markup": doc, "plain": text.plain}))
            break
        sub: list = []
        _compare_styles("c04.", ref_chars, text, sub, False)
        if sub:
            c, w, e, o = sub[0]
            fails.append(("c04.escape_embedded", "escaped text embedded in complete markup changes the styling: " + w, {"template": [pre, post], "detail": e}, {"markup": doc, "detail": o}))
            break
    return fails


_TEMPLATE_REF: Dict[tuple, tuple] = {}


def _template_ref(t: int, n: int):
    key = (t, n)
    r = _TEMPLATE_REF.get(key)
    if r is None:
        pre, post = TEMPLATES[t]
        r = ref_interpret(pre + PLACEHOLDER * n + post)
        _TEMPLATE_REF[key] = r
    return r


def failing_clauses(s: str, templates=(0,)) -> set:
    c: Dict[str, int] = {}
    out = set(f[0] for f in check_markup(s, c, deep=True))
    out |= set(f[0] for f in check_escape(s, c, templates))
    return out


def minimise(s: str, clause: str, templates=(0,), must_contain: Optional[str] = None) -> str:
    """greedy deletion of single characters / halves while `clause` still fails"""
    budget = 400
    changed = True
    while changed and budget > 0:
        changed = False
        n = len(s)
        for size in (max(1, n // 2), max(1, n // 4), 1):
            i = 0
            while i < len(s) and budget > 0:
                cand = s[:i] + s[i + size :]
                budget -= 1
                try:
                    bad = (must_contain is None or must_contain in cand) and clause in failing_clauses(cand, templates)
                except Exception:
                    bad = False
                if bad:
                    s = cand
                    changed = True
                else:
                    i += 1
    return s


# ---------------------------------------------------------------------------------------------------------------
# input spaces

CHAR_ALPHABET = ["[", "]", "\\", "/", "=", "#", "a", "b", "1", " ", "\n", ":", "bold", "red"]
_CHAR_RE = re.compile(r"bold|red|[\[\]\\/=#ab1 \n:]")
_CHAR_FULL = re.compile(r"(?:bold|red|[\[\]\\/=#ab1 \n:])*\Z")

TOKEN_ALPHABET = ["[red]", "[blue]", "[bold]", "[/]", "[/red]", "[/blue]", "x", "\\", "\n", "[not bold]", "[/bold]", "[b]"]
TOKEN_ALPHABET_QUICK = TOKEN_ALPHABET[:9]

# A tag is a style definition, and "link URL" is a style definition: the link may be written inside the tag text
# ("[link URL]", "[bold link URL]") as well as in the "[link=URL]" spelling.  The URL is data, not a style word:
# the character must carry exactly the URL of the tag (case included), and two link tags name the same style only
# when their URLs are equal.  U / u differ only in case.
LINK_U = "Http://A/b"
LINK_u = "http://a/b"
LINK_TOKEN_ALPHABET = [
    "[link %s]" % LINK_U,
    "[link %s]" % LINK_u,
    "[bold link %s]" % LINK_U,
    "[/link %s]" % LINK_U,
    "[/link %s]" % LINK_u,
    "[/]",
    "x",
    "[link=%s]" % LINK_U,
    "[/link]",
    "[/link %s bold]" % LINK_U,
]

RANDOM_SYMBOLS = (
    ["[", "]", "[", "]", "[/", "[/]", "\\", "\\\\", "/", "=", "#", "a", "b", "1", " ", "\n", ":", "B", "x"]
    + ["bold", "red", "blue", "not", "on", "link", "italic", "u", "i", "#ff0000", "color(", ")", "dim"]
    + ["[link ", "[/link ", "Http://A/b", "http://a/b"]
)


def _in_char_space(s: str, max_len: int) -> bool:
    return bool(_CHAR_FULL.match(s)) and len(_CHAR_RE.findall(s)) <= max_len


def _decode(index: int, length: int, alphabet) -> str:
    n = len(alphabet)
    parts = []
    for _ in range(length):
        index, d = divmod(index, n)
        parts.append(alphabet[d])
    return "".join(reversed(parts))


# generator of structured documents -----------------------------------------------------------------------------
# name id -> (opening spellings of the name, closing spellings, keyword arguments of the style it denotes)
NAMES = {
    "B": (["bold", "b", "bOLD"], ["bold", "b", "BOLD", " bold ", "Bold"], {"bold": True}),
    "NB": (["not bold", "not b"], ["not bold", "NOT bold", "not  b"], {"bold": False}),
    "R": (["red", "rED"], ["red", "RED", " red"], {"color": "red"}),
    "BL": (["blue"], ["blue", "Blue"], {"color": "blue"}),
    "G1": (["color(2)"], ["color(2)", "COLOR(2)"], {"color": "color(2)"}),
    "BR": (["bold red", "red bold", "b red"], ["bold red", "red bold", "RED b"], {"bold": True, "color": "red"}),
    "OR": (["on red"], ["on red", "ON red"], {"bgcolor": "red"}),
    "OB": (["on blue"], ["on blue"], {"bgcolor": "blue"}),
    "I": (["italic", "i"], ["italic", "i", "I"], {"italic": True}),
    "U": (["underline", "u"], ["u", "underline"], {"underline": True}),
    "NU": (["not underline", "not u"], ["not u", "not underline"], {"underline": False}),
    "H": (["#ff0000", "#FF0000"], ["#ff0000", "#FF0000"], {"color": "#ff0000"}),
    "RGB": (["rgb(1,2,3)"], ["rgb(1,2,3)", "RGB(1,2,3)"], {"color": "rgb(1,2,3)"}),
    "FOO": (["foo", "fOO"], ["foo", "FOO", " foo "], {}),
    "A": (["a"], ["a", "A"], {}),
    "LINK": (["link"], ["link", "LINK", " link"], None),  # needs a parameter
    # links written as a style definition inside the tag text; the URL is carried verbatim (mixed case), and a
    # URL that differs only in case is a different style, hence a different name (LU vs LL)
    "LU": (
        ["link https://Example.com/Docs/README.md", "lINK https://Example.com/Docs/README.md", "link  https://Example.com/Docs/README.md"],
        ["link https://Example.com/Docs/README.md", "LINK https://Example.com/Docs/README.md", " link https://Example.com/Docs/README.md "],
        {"link": "https://Example.com/Docs/README.md"},
    ),
    "LL": (
        ["link https://example.com/docs/readme.md"],
        ["link https://example.com/docs/readme.md", "Link https://example.com/docs/readme.md"],
        {"link": "https://example.com/docs/readme.md"},
    ),
    "BLU": (
        ["bold link Http://A/b", "link Http://A/b bold", "b link Http://A/b"],
        ["bold link Http://A/b", "link Http://A/b b", "BOLD link Http://A/b"],
        {"bold": True, "link": "Http://A/b"},
    ),
    "ULQ": (
        ["underline link ftp://Host/Path?Q#Frag"],
        ["underline link ftp://Host/Path?Q#Frag", "link ftp://Host/Path?Q#Frag u"],
        {"underline": True, "link": "ftp://Host/Path?Q#Frag"},
    ),
}
LINK_URLS = ["http://a", "https://example.org/x?y=1", "b", "https://Example.com/Docs/README.md"]

LEAVES = [
    ("x", "x"),
    ("yz", "yz"),
    (" ", " "),
    ("\n", "\n"),
    ("[1]", "[1]"),
    ("[]", "[]"),
    ("\\[b]", "[b]"),
    ("\\[/]", "[/]"),
    ("\\\\\\[red]", "\\[red]"),
    ("\\\\ ", "\\\\ "),
    ("\\a", "\\a"),
    ("[A]", "[A]"),
    ("a]", "a]"),
    ("[ b]", "[ b]"),
    ("[\n", "[\n"),
    (":smile:", ":smile:"),
    ("\\[link=x]", "[link=x]"),
    ("=", "="),
    ("[=a]", "[=a]"),
]


def gen_document(rng: random.Random):
    """-> (markup, expected) where expected is ('error',) or (plain, per_char tuple of keyword-built Style per
    open tag instance in opening order)"""
    from rich.style import Style

    parts: List[str] = []
    plain: List[str] = []
    per_char: List[tuple] = []
    stack: List[Tuple[str, object]] = []  # (name id, style)
    steps = rng.randint(1, 14)
    error = False
    for _ in range(steps):
        r = rng.random()
        if r < 0.36:
            nid = rng.choice(list(NAMES))
            opens, _closes, kw = NAMES[nid]
            spelling = rng.choice(opens)
            if kw is None:
                url = rng.choice(LINK_URLS)
                parts.append("[%s=%s]" % (spelling, url))
                style = Style(link=url)
            elif rng.random() < 0.08 and nid in ("B", "I", "U"):
                # a parameter that makes the definition unparseable: the tag then styles nothing
                parts.append("[%s=?]" % spelling)
                style = Style()
            else:
                parts.append("[%s]" % spelling)
                style = Style(**kw)
            stack.append((nid, style))
        elif r < 0.66:
            markup, text = rng.choice(LEAVES)
            parts.append(markup)
            plain.append(text)
            per_char.extend([tuple(st for _, st in stack)] * len(text))
        elif r < 0.80:
            if stack:
                parts.append(rng.choice(["[/]", "[/ ]", "[/=x]"]))
                stack.pop()
            elif rng.random() < 0.15:
                parts.append("[/]")
                error = True
                break
        else:
            if stack and rng.random() < 0.93:
                nid = rng.choice(stack)[0]
                closes = NAMES[nid][1]
                parts.append("[/%s]" % rng.choice(closes))
                for idx in range(len(stack) - 1, -1, -1):
                    if stack[idx][0] == nid:
                        del stack[idx]
                        break
            elif rng.random() < 0.3:
                open_ids = set(n for n, _ in stack)
                cands = [n for n in NAMES if n not in open_ids]
                # a name that is not open (equal-style aliases share an id, so ids suffice)
                nid = rng.choice(cands)
                parts.append("[/%s]" % rng.choice(NAMES[nid][1]))
                error = True
                break
    markup = "".join(parts)
    if error:
        return markup, ("error",)
    return markup, ("".join(plain), per_char)


def check_generated(markup: str, expected, counts) -> list:
    """self-check: generator-known expectation vs reference interpreter"""
    counts["c04.internal"] = counts.get("c04.internal", 0) + 1
    fails = []
    try:
        got = ref_interpret(markup)
    except RefError:
        got = ("error",)
    except RefUndecided as e:
        return [("c04.internal", "generator produced a document outside the preconditions", None, str(e))]
    if expected[0] == "error" or got[0] == "error":
        if expected[0] != got[0]:
            fails.append(("c04.internal", "generator and reference interpreter disagree on the error verdict", repr(expected)[:200], repr(got)[:200]))
        return fails
    if expected[0] != got[0]:
        fails.append(("c04.internal", "generator and reference interpreter disagree on plain text", expected[0], got[0]))
        return fails
    for i, (e, g) in enumerate(zip(expected[1], got[1])):
        es = None
        from rich.style import Style

        es = Style.null()
        for st in e:
            es = es + st
        if not (es == _effect(g)) or len(e) != len(g):
            fails.append(("c04.internal", "generator and reference interpreter disagree on the style of character %d" % i, [str(x) for x in e], list(g)))
            break
    return fails


# ---------------------------------------------------------------------------------------------------------------
# workers


def _h(s: str) -> int:
    return int.from_bytes(hashlib.blake2b(s.encode("utf-8", "surrogatepass"), digest_size=8).digest(), "big")


def _record(result, fails, s, templates=(0,)):
    for clause, what, expected, observed in fails:
        lst = result["failures"].setdefault(clause, [])
        if len(lst) >= MAX_PER_CLAUSE:
            continue
        lst.append({"check": clause, "what": what, "input": s, "expected": expected, "observed": observed, "_templates": list(templates)})


def _new_result():
    return {"evaluations": 0, "nontrivial": 0, "clauses": {}, "failures": {}, "samples": [], "hashes": set()}


def _work(job):
    kind = job[0]
    res = _new_result()
    counts = res["clauses"]
    ntpl = len(TEMPLATES)
    if kind in ("chars", "tokens", "ltokens"):
        _, length, lo, hi, max_len, n_tokens = job
        alphabet = CHAR_ALPHABET if kind == "chars" else TOKEN_ALPHABET[:n_tokens] if kind == "tokens" else LINK_TOKEN_ALPHABET
        for index in range(lo, hi):
            s = _decode(index, length, alphabet)
            if kind == "tokens" and _in_char_space(s, max_len):
                continue  # already enumerated in the character space: keep cases distinct
            if kind == "ltokens" and "link" not in s:
                continue  # only "[/]" and "x": already enumerated in the token space
            res["evaluations"] += 1
            if "[" in s:
                res["nontrivial"] += 1
            f = check_markup(s, counts, deep=(kind == "ltokens"))
            # embedding is only interesting when s contains something escape() could have to act on
            templates = (0, 1 + index % (ntpl - 1)) if ("[" in s or "\\" in s) else ()
            f += check_escape(s, counts, templates)
            if f:
                _record(res, f, s, templates)
        if lo == 0 and length >= 3:
            res["samples"].append(_decode(hi - 1, length, alphabet))
    elif kind == "random":
        _, seed, count, min_len = job
        rng = random.Random(seed)
        for _ in range(count):
            target = rng.randint(min_len, 40)
            parts = []
            total = 0
            while total < target:
                sym = rng.choice(RANDOM_SYMBOLS)
                parts.append(sym)
                total += len(sym)
            s = "".join(parts)[:40]
            res["evaluations"] += 1
            if "[" in s:
                hs = _h(s)
                if hs not in res["hashes"]:
                    res["hashes"].add(hs)
            f = check_markup(s, counts, deep=True, use_from_markup=True)
            templates = tuple(range(ntpl))
            f += check_escape(s, counts, templates)
            if f:
                _record(res, f, s, templates)
        res["samples"].append(s)
    elif kind == "trees":
        _, seed, count = job
        rng = random.Random(seed)
        for _ in range(count):
            markup, expected = gen_document(rng)
            res["evaluations"] += 1
            if "[" in markup:
                res["hashes"].add(_h("T" + markup))
            f = check_generated(markup, expected, counts)
            f += check_markup(markup, counts, deep=True, use_from_markup=True)
            # the plain text of a generated document is an arbitrary-looking string: use it as s for escape
            if expected[0] != "error":
                templates = tuple(range(ntpl))
                fe = check_escape(expected[0], counts, templates)
                if fe:
                    _record(res, fe, expected[0], templates)
            if f:
                _record(res, f, markup)
        res["samples"].append(markup)
    return res


def _jobs(tier: str, seed: int):
    quick = tier == "quick"
    max_len = 5 if quick else 6
    jobs = []
    chunk = 30000
    token_alphabet = TOKEN_ALPHABET_QUICK if quick else TOKEN_ALPHABET
    for kind, alphabet in (("chars", CHAR_ALPHABET), ("tokens", token_alphabet)):
        for length in range(0, max_len + 1):
            total = len(alphabet) ** length
            step = chunk if kind == "chars" else chunk // 3
            for lo in range(0, total, step):
                jobs.append((kind, length, lo, min(total, lo + step), max_len, len(alphabet)))
    link_len = 4 if quick else 5
    for length in range(0, link_len + 1):
        total = len(LINK_TOKEN_ALPHABET) ** length
        for lo in range(0, total, chunk // 3):
            jobs.append(("ltokens", length, lo, min(total, lo + chunk // 3), max_len, len(LINK_TOKEN_ALPHABET)))
    n_random = 24000 if quick else 200000
    n_trees = 24000 if quick else 200000
    per = 2000
    for i in range(n_random // per):
        jobs.append(("random", seed * 1000003 + i, per, max_len + 1))
    for i in range(n_trees // per):
        jobs.append(("trees", seed * 1000003 + 500000 + i, per))
    return jobs, max_len, n_random, n_trees, link_len


def run(tier: str, seed: int) -> dict:
    t0 = time.time()
    jobs, max_len, n_random, n_trees, link_len = _jobs(tier, seed)
    procs = max(1, min(16, os.cpu_count() or 1))
    total = _new_result()
    if procs > 1:
        with multiprocessing.Pool(procs) as pool:
            results = pool.map(_work, jobs, chunksize=1)
    else:  # pragma: no cover
        results = [_work(j) for j in jobs]
    for r in results:
        total["evaluations"] += r["evaluations"]
        total["nontrivial"] += r["nontrivial"]
        total["hashes"] |= r["hashes"]
        for k, v in r["clauses"].items():
            total["clauses"][k] = total["clauses"].get(k, 0) + v
        for clause, lst in r["failures"].items():
            total["failures"].setdefault(clause, []).extend(lst)
        for smp in r["samples"]:
            if len(total["samples"]) < 8:
                total["samples"].append(smp)
    failures = []
    for clause in sorted(total["failures"]):
        # shortest inputs first, then minimise; keep distinct minimised inputs
        seen = set()
        cands = sorted(total["failures"][clause], key=lambda f: (len(f["input"]), f["input"]))
        for f in cands:
            if len(seen) >= MAX_PER_CLAUSE:
                break
            templates = tuple(f.pop("_templates", (0,)))
            s = f["input"]
            if clause != "c04.internal":
                try:
                    m = minimise(s, clause, templates)
                except Exception:
                    m = s
            else:
                m = s
            if m in seen:
                continue
            seen.add(m)
            if m != s:
                # recompute expected / observed for the minimised input
                c: Dict[str, int] = {}
                again = [x for x in check_markup(m, c, deep=True) + check_escape(m, c, templates) if x[0] == clause]
                if again:
                    _, what, expected, observed = again[0]
                    f = {"check": clause, "what": what, "input": m, "expected": expected, "observed": observed, "minimised_from": s}
            f["input_key"] = repr(f["input"])
            failures.append(f)
    distinct = total["nontrivial"] + len(total["hashes"])
    return {
        "evaluations": total["evaluations"],
        "distinct_nontrivial": distinct,
        "rule": "markup strings: (1) every concatenation of <= L symbols of the character alphabet, (2) every concatenation of <= L "
        "tokens of the tag-token alphabet that is not already in (1), (2b) every concatenation of <= LL tokens of the link-token "
        "alphabet (links written as style definitions inside the tag text, URLs differing only in case) that contains a link "
        "tag, (3) random concatenations of syntax symbols, length "
        "L+1..40 characters, (4) documents emitted by a random walk over open / text leaf / close-by-name / [/] / bad close "
        "with aliased spellings and overlapping closes; each string is also used as the argument s of escape(). A case is "
        "non-trivial when the string contains '['; (1),(2),(2b) are distinct by construction, (3),(4) are counted by distinct hash.",
        "bound": "L=%d; character alphabet %r (%d symbols); token alphabet %r; LL=%d, link-token alphabet %r; %d random strings <= 40 chars; %d generated documents "
        "<= 14 steps; %d embedding templates; emoji=False; empty theme" % (max_len, CHAR_ALPHABET, len(CHAR_ALPHABET), TOKEN_ALPHABET_QUICK if tier == "quick" else TOKEN_ALPHABET, link_len, LINK_TOKEN_ALPHABET, n_random, n_trees, len(TEMPLATES)),
        "samples": total["samples"],
        "clauses": dict(sorted(total["clauses"].items())),
        "failures": failures,
        "seconds": round(time.time() - t0, 2),
        "processes": procs,
    }
