"""C15 - recording, capture and export agree with what was written (bounded check).

A history of print / log / rule / line / control (bell, clear, show_cursor) / capture / export operations is run
on a recording console writing to a StringIO. Ground truth is the *file*: its contents since the last clearing
export, read with the independent terminal model ``_sgr`` (visible text = everything except escape sequences
and control codes; per character attributes / colours / link).

Clauses
  c15.export_text               export_text(styles=False) == visible text written to the file since the last clear
  c15.export_html               export_html (both style modes, default and bare format), tags removed by
                                html.parser and entities decoded, == that same text
  c15.export_styled             export_text(styles=True) read with _sgr: same characters; per character the same
                                attributes and link as in the file, and the file's colour is the documented
                                down-conversion of the exported colour (skipped: colour system None; colours
                                under no_color)
  c15.export_excludes_captured  the three equalities above in histories where something was captured since the
                                last clear (the property: export == what was written to the *file*)
  c15.capture_exact             Capture.get() == what a twin console (same configuration, same history, no capture)
                                wrote to its file for the same operations
  c15.capture_no_file           nothing reaches the file while capturing
  c15.export_noclear_unchanged  exporting twice with clear=False gives the same result
  c15.export_clear_empties      after an export with clear=True every export is empty
"""
import datetime
import html.parser
import io
import json
import random
import re
import time
import zlib

from . import _sgr
from . import c03

MAX_FAIL = 3
CLAUSES = (
    "c15.export_text", "c15.export_html", "c15.export_styled", "c15.export_excludes_captured",
    "c15.capture_exact", "c15.capture_no_file", "c15.export_noclear_unchanged", "c15.export_clear_empties",
)

STRS = (
    "a<b>&c", "\"q\" 's' &amp; &lt;", "x > y && y < z", "[bold]not markup[/bold]",
    "plain text that is long enough to wrap around a narrow console", "日本語 <wide>", "",
    "1 2.5 True None 'str'", "</pre></code><script>", "&#38; &nbsp;", "[/x] ]] [[", "end",
)
MARKUPS = (
    "[bold red]a<b>&amp;[/] tail", "[link=https://example.org/?a=1&b=2]L<i>nk[/link] after",
    "[u]x[/u][i]y[/i]&", "w [on blue] sp [/] z", "[bold]B[/bold]<>[dim]d[/dim]",
)
TITLES = ("", "T", "a<b>&c", "\"q\"")
WIDTHS = (20, 40, 80)
SYSTEMS = (None, "standard", "256", "truecolor", "windows")
_FIXED_TIME = datetime.datetime(2020, 1, 2, 3, 4, 5)


def make_config(k):
    return {"color_system": SYSTEMS[k % 5], "force_terminal": (k // 5) % 2 == 0, "width": WIDTHS[(k // 10) % 3],
            "no_color": (k // 30) % 4 == 3}


def config_key(config):
    return "%s,ft%d,w%d,nc%d" % (config["color_system"], int(config["force_terminal"]), config["width"],
                                 int(config["no_color"]))


def make_console(config, record):
    from rich.console import Console

    file = io.StringIO()
    console = Console(file=file, record=record, color_system=config["color_system"],
                      force_terminal=config["force_terminal"], width=config["width"], no_color=config["no_color"],
                      legacy_windows=False, log_path=False, get_datetime=lambda: _FIXED_TIME, _environ={})
    return console, file


# ------------------------------------------------------------------------------------------ histories


def gen_payload(rng, pool):
    r = rng.random()
    if r < 0.45:
        return {"str": rng.choice(STRS)}
    if r < 0.65:
        return {"markup": rng.choice(MARKUPS)}
    parts = []
    for _ in range(rng.randrange(1, 4)):
        spec = rng.choice(pool) if rng.random() < 0.8 else None
        parts.append([rng.choice(STRS[:6] + ("z", "<>&")), c03.spec_json(spec)])
    return {"text": parts}


def gen_output_op(rng, pool):
    r = rng.random()
    if r < 0.40:
        kw = {}
        if rng.random() < 0.25:
            kw["end"] = ""
        if rng.random() < 0.2:
            kw["style"] = rng.choice(("italic", "on blue", "bold red"))
        if rng.random() < 0.3:
            kw["highlight"] = False
        return ["print", gen_payload(rng, pool), kw]
    if r < 0.52:
        return ["log", gen_payload(rng, pool)]
    if r < 0.62:
        return ["rule", rng.choice(TITLES)]
    if r < 0.74:
        return ["line", rng.choice((1, 1, 2, 0))]
    if r < 0.82:
        return ["bell"]
    if r < 0.88:
        return ["clear"]
    return ["show_cursor", rng.random() < 0.5]


def gen_export_op(rng):
    if rng.random() < 0.5:
        return ["export_text", rng.random() < 0.5, rng.random() < 0.4]
    return ["export_html", rng.random() < 0.5, rng.random() < 0.5, rng.random() < 0.5]


def gen_history(rng, pool, max_ops):
    n = rng.randrange(1, max_ops + 1)
    ops = []
    for _ in range(n):
        r = rng.random()
        if r < 0.12:
            ops.append(["capture", [gen_output_op(rng, pool) for _ in range(rng.randrange(1, 4))]])
        elif r < 0.27:
            ops.append(gen_export_op(rng))
        else:
            ops.append(gen_output_op(rng, pool))
    return ops


def directed_histories():
    """Small histories that every run contains (adjacency of control codes and text, capture then export)."""
    p = lambda s, **kw: ["print", {"str": s}, kw]  # noqa: E731
    return [
        [p("a<b>&c")],
        [["show_cursor", False], ["line", 1]],
        [["bell"], p("x")],
        [p("x", end=""), ["bell"], p("y")],
        [["clear"], ["rule", "T"]],
        [["capture", [p("inside")]], p("outside")],
        [p("before"), ["capture", [["rule", "a<b>&c"], ["bell"]]], ["export_text", True, False], p("after")],
        [p("one"), ["export_html", False, False, False], p("two"), ["export_html", True, True, True], p("three")],
        [["print", {"markup": MARKUPS[1]}, {}], ["export_text", False, True]],
        [["log", {"str": "a<b>&c"}], ["log", {"markup": MARKUPS[0]}]],
        [["line", 2], ["line", 0], p("", end="")],
    ]


def build_payload(payload):
    from rich.text import Text

    if "text" in payload:
        parts = []
        for text, spec in payload["text"]:
            parts.append(text if spec is None else (text, c03.build_style(c03.spec_from_json(spec))))
        return Text.assemble(*parts)
    if "markup" in payload:
        return payload["markup"]
    return payload["str"]


def apply_output(console, op):
    kind = op[0]
    if kind == "print":
        payload = op[1]
        kw = dict(op[2])
        console.print(build_payload(payload), markup=("markup" in payload), **kw)
    elif kind == "log":
        payload = op[1]
        console.log(build_payload(payload), markup=("markup" in payload))
    elif kind == "rule":
        from rich.text import Text

        console.rule(Text(op[1]))
    elif kind == "line":
        console.line(op[1])
    elif kind == "bell":
        console.bell()
    elif kind == "clear":
        console.clear()
    elif kind == "show_cursor":
        console.show_cursor(op[1])
    else:
        raise ValueError(kind)


class _TextOnly(html.parser.HTMLParser):
    def __init__(self):
        super().__init__(convert_charrefs=True)
        self.out = []

    def handle_data(self, data):
        self.out.append(data)


def html_text(code: str) -> str:
    """Tags removed, entities decoded."""
    parser = _TextOnly()
    parser.feed(code)
    parser.close()
    return "".join(parser.out)


def html_code_part(document: str) -> str:
    """The contents of the <pre> element of the default export format."""
    start = document.index("<pre")
    start = document.index(">", start) + 1
    end = document.rindex("</pre>")
    return document[start:end]


_LINK_ID = re.compile("\x1b\\]8;id=([^;\x1b]*);")


def _normalise_link_ids(text):
    """OSC 8 ``id=`` parameters are random per Style object (time + randint, regenerated by
    ``Style.without_color`` for every rendered buffer under no_color): they are not part of "exactly as it
    would have been written" and are blanked before two runs of the same history are compared."""
    return _LINK_ID.sub("\x1b]8;id=#;", text)


def _cells_compare(file_text, styled, config):
    """Per character comparison of the styled export with the file. Returns (what, expected, observed) or None."""
    f = _sgr.interpret(file_text)
    e = _sgr.interpret(styled)
    if f.text != e.text:
        return ("styled export decodes to different characters", f.text, e.text)
    system = config["color_system"]
    if system is None:
        return None
    for k, (fc, ec) in enumerate(zip(f.cells, e.cells)):
        ch, fa, ffg, fbg, fl = fc
        _c, ea, efg, ebg, el = ec
        if ch == "\n":
            continue
        if fa != ea:
            return ("attributes differ at char %d %r" % (k, ch), sorted(fa), sorted(ea))
        if fl != el:
            return ("link differs at char %d %r" % (k, ch), fl, el)
        if not config["no_color"]:
            if _sgr.canon(ffg) not in _sgr.downconvert(efg, system):
                return ("foreground differs at char %d %r (file vs down-converted export)" % (k, ch),
                        list(_sgr.canon(ffg)), list(_sgr.canon(efg)))
            if _sgr.canon(fbg) not in _sgr.downconvert(ebg, system):
                return ("background differs at char %d %r (file vs down-converted export)" % (k, ch),
                        list(_sgr.canon(fbg)), list(_sgr.canon(ebg)))
    return None


def evaluate(ops, config):
    """Run the history (plus the closing block of exports). Returns (clauses evaluated, failures)."""
    console, file = make_console(config, True)
    twin, twin_file = make_console(config, False)
    evaluated = []
    fails = []
    state = {"mark": 0, "captured": False}

    def fail(clause, what, exp, obs):
        fails.append((clause, what, exp, obs))

    def check_exports(clear_text, styles, html_modes):
        """All export equalities against the file since the last clear, non clearing; then optional clear."""
        since = file.getvalue()[state["mark"]:]
        visible = _sgr.strip(since)
        scen = "c15.export_excludes_captured" if state["captured"] else None
        # text
        clause = scen or "c15.export_text"
        evaluated.append(clause)
        t1 = console.export_text(clear=False, styles=False)
        if t1 != visible:
            fail(clause, "export_text(styles=False) differs from the visible text in the file", visible, t1)
        evaluated.append("c15.export_noclear_unchanged")
        t2 = console.export_text(clear=False, styles=False)
        if t2 != t1:
            fail("c15.export_noclear_unchanged", "second export_text(clear=False) differs", t1, t2)
        # html
        for inline, bare in html_modes:
            clause = scen or "c15.export_html"
            evaluated.append(clause)
            if bare:
                doc = console.export_html(clear=False, inline_styles=inline, code_format="{code}")
                code = doc
            else:
                doc = console.export_html(clear=False, inline_styles=inline)
                code = html_code_part(doc)
            got = html_text(code)
            if got != visible:
                fail(clause, "export_html(inline_styles=%s%s) text differs from the visible text in the file" % (
                    inline, ", bare format" if bare else ""), visible, got)
            doc2 = (console.export_html(clear=False, inline_styles=inline, code_format="{code}") if bare
                    else console.export_html(clear=False, inline_styles=inline))
            if doc2 != doc:
                fail("c15.export_noclear_unchanged", "second export_html(clear=False) differs", doc, doc2)
        # styled
        if styles:
            clause = scen or "c15.export_styled"
            evaluated.append(clause)
            styled = console.export_text(clear=False, styles=True)
            diff = _cells_compare(since, styled, config)
            if diff is not None:
                fail(clause, "export_text(styles=True): " + diff[0], diff[1], diff[2])
        if clear_text is not None:
            evaluated.append("c15.export_clear_empties")
            if clear_text == "text" and len(t1) % 2 == 1:
                # every other time the clearing export is the *styled* one (same clear semantics)
                console.export_text(clear=True, styles=True)
            elif clear_text == "text":
                last = console.export_text(clear=True, styles=False)
                if last != t1:
                    fail("c15.export_noclear_unchanged", "clearing export_text differs from the one before", t1, last)
            else:
                console.export_html(clear=True, code_format="{code}")
            after = [console.export_text(clear=False), console.export_text(clear=False, styles=True),
                     html_text(console.export_html(clear=False, code_format="{code}"))]
            if after != ["", "", ""]:
                fail("c15.export_clear_empties", "exports after a clearing export are not empty", ["", "", ""], after)
            state["mark"] = len(file.getvalue())
            state["captured"] = False

    for op in ops:
        kind = op[0]
        if kind == "capture":
            before = len(file.getvalue())
            twin_before = len(twin_file.getvalue())
            # every other capture block is left by an exception (which must propagate and change nothing else)
            leave_by_exception = (len(op[1]) + len(str(op[1]))) % 2 == 1

            class _Leave(Exception):
                pass

            try:
                with console.capture() as cap:
                    for inner in op[1]:
                        apply_output(console, inner)
                    if leave_by_exception:
                        raise _Leave()
            except _Leave:
                pass
            for inner in op[1]:
                apply_output(twin, inner)
            evaluated.append("c15.capture_no_file")
            if len(file.getvalue()) != before:
                fail("c15.capture_no_file", "output reached the file during capture", "",
                     file.getvalue()[before:])
            evaluated.append("c15.capture_exact")
            want = twin_file.getvalue()[twin_before:]
            try:
                got = cap.get()
            except Exception as e:  # noqa
                got = "Capture.get() raised %s" % type(e).__name__
            if _normalise_link_ids(got) != _normalise_link_ids(want):
                fail("c15.capture_exact", "Capture.get() differs from what would have been written", want, got)
            if want:
                state["captured"] = True
        elif kind == "export_text":
            check_exports("text" if op[1] else None, op[2], ())
        elif kind == "export_html":
            check_exports("html" if op[1] else None, False, ((op[2], op[3]),))
        else:
            apply_output(console, op)
            apply_output(twin, op)
        if fails:
            return evaluated, fails
    # closing block: every export, then a clearing one
    check_exports(None, True, ((False, False), (True, True)))
    if not fails:
        check_exports("text", False, ())
    return evaluated, fails


# ------------------------------------------------------------------------------------------ driver


def _signature(clause, what, exp, obs):
    if "\x1b" in str(obs) or "\x07" in str(obs):
        return what.split(" differs")[0] + "/control-code"
    return what.split(" differs")[0].split(" at char")[0]


def minimise(ops, config, clause, sig):
    def still(o):
        try:
            return any(f[0] == clause and _signature(*f) == sig for f in evaluate(o, config)[1])
        except Exception:
            return False

    cur = json.loads(json.dumps(ops))
    changed = True
    while changed:
        changed = False
        for k in range(len(cur)):
            cand = cur[:k] + cur[k + 1:]
            if still(cand):
                cur = cand
                changed = True
                break
            if cur[k][0] == "capture" and len(cur[k][1]) > 1:
                for j in range(len(cur[k][1])):
                    inner = cur[k][1][:j] + cur[k][1][j + 1:]
                    cand = cur[:k] + [["capture", inner]] + cur[k + 1:]
                    if still(cand):
                        cur = cand
                        changed = True
                        break
                if changed:
                    break
    # simplify payloads
    def payload_slots(o):
        for k, op in enumerate(o):
            if op[0] in ("print", "log"):
                yield (k, None)
            elif op[0] == "capture":
                for j, inner in enumerate(op[1]):
                    if inner[0] in ("print", "log"):
                        yield (k, j)

    for k, j in list(payload_slots(cur)):
        for simple in ({"str": "x"}, {"str": "<"}):
            cand = json.loads(json.dumps(cur))
            target = cand[k] if j is None else cand[k][1][j]
            if target[1] == simple:
                continue
            target[1] = simple
            if target[0] == "print":
                pass
            if still(cand):
                cur = cand
                break
        target = cur[k] if j is None else cur[k][1][j]
        if target[0] == "print" and target[2]:
            for key in list(target[2]):
                cand = json.loads(json.dumps(cur))
                t2 = cand[k] if j is None else cand[k][1][j]
                del t2[2][key]
                if still(cand):
                    cur = cand
    return cur


def _plan(tier):
    if tier == "quick":
        return {"histories": 1800, "blocks": 6, "procs": 1, "max_ops": 12}
    return {"histories": 60000, "blocks": 40, "procs": 16, "max_ops": 12}


_CASES_CACHE = {}


def _cases(tier, seed):
    key = (tier, seed)
    if key not in _CASES_CACHE:
        _CASES_CACHE.clear()
        _CASES_CACHE[key] = _build_cases(tier, seed)
    return _CASES_CACHE[key]


def _build_cases(tier, seed):
    plan = _plan(tier)
    pool = c03.style_pool(seed, plan["blocks"], 20)
    rng = random.Random(seed * 9973 + 23)
    cases = []
    k = 0
    for ops in directed_histories():
        for c in range(0, 120, 7 if tier == "quick" else 1):
            cases.append((ops, make_config(c)))
    for _ in range(plan["histories"]):
        ops = gen_history(rng, pool, plan["max_ops"])
        cases.append((ops, make_config(k + rng.randrange(120))))
        k += 1
    return plan, cases


def _run_chunk(args):
    tier, seed, lo, hi = args
    _plan_, cases = _cases(tier, seed)
    results = []
    for ci in range(lo, hi):
        ops, config = cases[ci]
        try:
            evaluated, fails = evaluate(ops, config)
        except Exception as exc:
            evaluated = ["c15.export_text"]
            fails = [("c15.export_text", "exception %s: %s" % (type(exc).__name__, exc), "no exception",
                      repr(exc))]
        results.append((ci, evaluated, [(f[0], f[1], c03._jsonable(f[2]), c03._jsonable(f[3])) for f in fails]))
    return results


def _key(ops, config):
    blob = json.dumps(ops, sort_keys=True, ensure_ascii=True)
    return "h:%08x/%s" % (zlib.crc32(blob.encode()), config_key(config))


def _has_output(ops):
    for op in ops:
        if op[0] in ("print", "log", "rule") or (op[0] == "line" and op[1]):
            return True
        if op[0] == "capture" and _has_output(op[1]):
            return True
    return False


def _export_specs(seed, plan):
    specs = []
    for i in range(len(c03.ATTRS)):
        for val in (True, False):
            attrs = [None] * len(c03.ATTRS)
            attrs[i] = val
            specs.append({"attrs": tuple(attrs), "fg": None, "bg": None, "link": None})
    specs.extend(c03.style_pool(seed, plan["blocks"], 20)[:120])
    return specs


def _export_vs_spec(spec):
    """-> None or (what, expected, observed)"""
    import io

    from rich.console import Console
    from rich.text import Text

    console = Console(file=io.StringIO(), record=True, color_system="truecolor", force_terminal=True, width=80,
                      legacy_windows=False, _environ={})
    console.print(Text.assemble("left ", ("WORD", c03.build_style(spec)), " right"))
    styled = console.export_text(clear=False, styles=True)
    config = {"color_system": "truecolor", "no_color": False, "force_terminal": True, "legacy_windows": False}
    segs = [["left ", None, False], ["WORD", spec, False], [" right\n", None, False]]
    _ev, fails = c03.check_stream(styled, segs, config)
    for clause, what, exp, obs in fails:
        if clause in ("c03.chars", "c03.attrs", "c03.fg", "c03.bg", "c03.link"):
            return ("%s [%s]" % (what, clause), exp, obs)
    return None


def replay(inp):
    return evaluate(inp["ops"], inp["config"])


def run(tier: str = "quick", seed: int = 0) -> dict:
    t0 = time.time()
    plan, cases = _cases(tier, seed)
    n = len(cases)
    if plan["procs"] > 1:
        import multiprocessing

        step = max(1, n // (plan["procs"] * 8))
        chunks = [(tier, seed, lo, min(n, lo + step)) for lo in range(0, n, step)]
        with multiprocessing.Pool(plan["procs"]) as mp:
            parts = mp.map(_run_chunk, chunks)
        results = [r for part in parts for r in part]
    else:
        results = _run_chunk((tier, seed, 0, n))
    results.sort(key=lambda r: r[0])

    clauses = {c: 0 for c in CLAUSES}
    candidates = {}
    cand_sigs = set()
    distinct = set()
    nontrivial = set()
    with_capture = 0
    for ci, evaluated, fails in results:
        ops, config = cases[ci]
        for c in evaluated:
            clauses[c] = clauses.get(c, 0) + 1
        key = _key(ops, config)
        distinct.add(key)
        if _has_output(ops):
            nontrivial.add(key)
        if any(op[0] == "capture" for op in ops):
            with_capture += 1
        for clause, what, exp, obs in fails:
            sig = _signature(clause, what, exp, obs)
            cand = candidates.setdefault(clause, [])
            if len(cand) < 20 or (clause, sig) not in cand_sigs:
                cand.append((ci, what, exp, obs, sig))
            cand_sigs.add((clause, sig))

    failures = []
    for clause in sorted(candidates):
        picked, sigs = [], set()
        for item in candidates[clause]:
            if item[4] not in sigs and len(picked) < MAX_FAIL:
                sigs.add(item[4])
                picked.append(item)
        for item in candidates[clause]:
            if len(picked) >= MAX_FAIL:
                break
            if item not in picked:
                picked.append(item)
        for ci, what, exp, obs, sig in picked:
            ops, config = cases[ci]
            small = minimise(ops, config, clause, sig)
            hit = next((f for f in evaluate(small, config)[1] if f[0] == clause), None)
            if hit is not None:
                what, exp, obs = hit[1], c03._jsonable(hit[2]), c03._jsonable(hit[3])
            else:  # pragma: no cover
                small = ops
            record = {"check": clause, "what": what, "input_key": _key(small, config),
                      "input": {"ops": small, "config": config}, "expected": exp, "observed": obs}
            if any(f["check"] == clause and f["input_key"] == record["input_key"] for f in failures):
                continue
            failures.append(record)

    # "the styled export decodes ... with the same styles": against the styles that were printed, not only against the
    # file (which is produced by the same code) - one styled word per style: every attribute alone and the C03 pool
    n_spec = 0
    for spec in _export_specs(seed, plan):
        n_spec += 1
        bad = _export_vs_spec(spec)
        if bad is not None and sum(1 for f in failures if f["input_key"].startswith("spec:")) < MAX_FAIL:
            failures.append({"check": "c15.export_styled", "what": "export_text(styles=True) vs the printed style: " + bad[0],
                             "input_key": "spec:" + json.dumps(c03._jsonable(spec), sort_keys=True)[:160],
                             "input": {"printed_style": c03._jsonable(spec), "text": "left WORD right"},
                             "expected": c03._jsonable(bad[1]), "observed": c03._jsonable(bad[2])})
    clauses["c15.export_styled"] = clauses.get("c15.export_styled", 0) + n_spec

    samples = [{"ops": cases[i][0], "config": cases[i][1]} for i in (0, len(cases) // 2, len(cases) - 1)]
    return {
        "evaluations": len(results),
        "distinct_nontrivial": len(nontrivial),
        "rule": ("case = (history, console configuration); every history ends with a closing block (all exports "
                 "without clear, then a clearing export and the emptiness check); distinct by crc of the history + "
                 "configuration (%d distinct); non-trivial = the history produces visible output (print / log / "
                 "rule / line); %d histories contain a capture block" % (len(distinct), with_capture)),
        "bound": ("tier %s seed %d: %d random histories of 1..%d operations (print of str markup=False / valid "
                  "markup / styled Text with links from the C03 style pool, optional style=, end='', highlight; log; "
                  "rule; line 0..2; bell; clear; show_cursor; capture blocks of 1..3 output operations, not nested; "
                  "export_text / export_html with clear x styles / inline x bare format) + %d directed histories x "
                  "configurations; configurations: 5 colour systems x force_terminal x width %s x no_color (1 in 4); "
                  "texts with < > & quotes entities markup-looking; log_path=False and a fixed clock" % (
                      tier, seed, plan["histories"], plan["max_ops"], len(directed_histories()), list(WIDTHS))),
        "samples": samples,
        "clauses": clauses,
        "failures": failures,
        "seconds": round(time.time() - t0, 2),
    }
