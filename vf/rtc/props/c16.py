"""C16 - pretty-printed data evaluates back to the data.

Bounded runtime check of `rich.pretty.pretty_repr(obj, max_width=, indent_size=, expand_all=, max_length=, max_string=)`.
The oracle is written from the property statement and does not look at rich's Node / _Line machinery:

  c16.no_exception            pretty_repr returns a str (no exception, cycles included)
  c16.eval_roundtrip          (no max_length / max_string, acyclic) eval(result, {deque, Counter, defaultdict, array})
                              is equal to obj and has the same type - recursively, so (1,) != [1] and True != 1.
                              Precondition: a defaultdict with a non-None factory has no evaluable repr in Python itself
                              ("<class 'list'>"); that text is mapped to the class name before evaluation.
  c16.single_line_when_fits   not expand_all and the one-line form fits max_width (cells): list / tuple / dict / set /
                              frozenset values give exactly repr(obj); other containers give one line
  c16.expanded_layout         otherwise every expanded container is "<indent><key: >open" / one item per line at
                              indent + indent_size, "," after every item but the last (after the only item of a
                              1-tuple too) / "<indent>close<,>" - matched line by line against the value itself
  c16.inline_only_if_fits     a non-empty container kept on one line: that whole line is <= max_width cells
  c16.expand_all              expand_all=True: no non-empty container is kept on one line
  c16.item_text               leaves / empty containers are shown by their repr (empty deque / Counter may be "deque()",
                              "Counter()")
  c16.cycle_ellipsis          a container met again on the path from the root is shown as "..." and the walk terminates;
                              a merely shared (acyclic) container is shown in full every time
  c16.max_length_count        a container of n > max_length items shows its first max_length items and "... +{n-max_length}"
  c16.same_after_abandoned_call  "for every value": the result does not depend on what was printed before - a call abandoned
                              by a BaseException from some __repr__ (Ctrl-C while a value is displayed) leaves the next
                              pretty_repr of the same containers unchanged (lists and dicts, every third value)
  c16.max_string_count        a str / bytes of n > max_string characters shows repr(s[:max_string]) followed by
                              "+{n-max_string}"

Values: list, tuple (0 / 1 / n), dict, set, frozenset, deque, Counter, defaultdict (factory None / list / int), array
(typecodes i, d, B; empty too); leaves str (wide, combining, quotes, newlines, backslashes), bytes, int, float, bool,
None.  Elements of sets are restricted to hash-stable values (numbers, tuples / frozensets of numbers) or a single
str / bytes so that the run is reproducible across interpreter hash seeds.
"""
from __future__ import annotations

import hashlib
import os
import random
import re
import sys
import time
from array import array
from collections import Counter, defaultdict, deque
from typing import Any, Dict, List, Optional, Tuple

REPO = os.environ.get("VF_REPO", "/repo")
if REPO not in sys.path:
    sys.path.insert(0, REPO)

MAX_PER_CLAUSE = 3
CLAUSES = (
    "c16.no_exception", "c16.eval_roundtrip", "c16.single_line_when_fits", "c16.expanded_layout",
    "c16.inline_only_if_fits", "c16.expand_all", "c16.item_text", "c16.cycle_ellipsis",
    "c16.max_length_count", "c16.max_string_count", "c16.same_after_abandoned_call",
)


class _Abandon(BaseException):
    """stands for KeyboardInterrupt / SystemExit raised while some object's __repr__ runs"""


class _Interrupting:
    def __repr__(self):
        raise _Abandon()


BASIC5 = (list, tuple, dict, set, frozenset)
CONTAINERS = (list, tuple, dict, set, frozenset, deque, Counter, defaultdict, array)

_cells = None


def cells(s: str) -> int:
    global _cells
    if _cells is None:
        from vf.rtc.specnative import cells as c

        _cells = c
    return _cells(s)


# ------------------------------------------------------------------------------------------------ leaves
LEAF_STR = ["", "a", "hello world", "it's", 'say "hi"', "both ' and \"", "line1\nline2", "tab\there", "日本語",
            "ｗｉｄｅ wide", "🙂 ok", "café", "back\\slash", "x" * 30, "word " * 9, "}{][)(,", "\x1b[0m", "é"]
# width-table boundary code points (last of a range / single-code-point ranges)
LEAF_STR += ["\U0001f64f\U0001f64f\U0001f64f", "\u2705 done", "\ud7a3\uff60", "\u23f0\u2728"]
LEAF_BYTES = [b"", b"abc", b"\x00\xff", b"it's", b"new\nline", b"y" * 25]
LEAF_INT = [0, 1, -1, 7, 42, 255, 1000000, -12345678901234567890]
LEAF_FLOAT = [0.0, -0.0, 1.5, -2.25, 3.14159, 1e100, 1e-07]
LEAF_MISC = [True, False, None]
FACTORIES = [None, None, list, int]
TYPECODES = {"i": [0, 1, -5, 70000, 12], "d": [0.5, -1.25, 3.0, 1e10], "B": [0, 1, 255, 128]}


def _leaf(rng: random.Random, stable_hash: bool = False):
    r = rng.random()
    if stable_hash:
        if r < 0.6:
            return rng.choice(LEAF_INT)
        if r < 0.85:
            return rng.choice(LEAF_FLOAT)
        return rng.choice([True, False])
    if r < 0.35:
        return rng.choice(LEAF_STR)
    if r < 0.45:
        return rng.choice(LEAF_BYTES)
    if r < 0.70:
        return rng.choice(LEAF_INT)
    if r < 0.85:
        return rng.choice(LEAF_FLOAT)
    return rng.choice(LEAF_MISC)


def _size(rng: random.Random) -> int:
    r = rng.random()
    if r < 0.12:
        return 0
    if r < 0.30:
        return 1
    if r < 0.55:
        return 2
    if r < 0.75:
        return 3
    if r < 0.93:
        return rng.randint(4, 6)
    return rng.randint(7, 12)


class _Budget:
    def __init__(self, n):
        self.n = n


def gen(rng: random.Random, depth: int, budget: _Budget, hashable: bool = False, stable: bool = False, force: bool = False):
    """a value whose nesting is at most `depth`; force=True: a container whose spine reaches `depth` if possible"""
    if depth <= 0 or budget.n <= 0 or (not force and rng.random() < 0.35):
        return _leaf(rng, stable)
    budget.n -= 1
    if hashable:
        kinds = ["tuple", "tuple", "frozenset"]
    else:
        kinds = ["list", "list", "tuple", "tuple", "dict", "dict", "set", "frozenset", "deque", "Counter",
                 "defaultdict", "array"]
    kind = rng.choice(kinds)
    n = _size(rng)
    if force and n == 0 and depth > 1:
        n = 1
    if kind in ("list", "tuple", "deque"):
        items = []
        for i in range(n):
            items.append(gen(rng, depth - 1, budget, hashable=hashable, stable=stable, force=force and i == 0))
        if kind == "list":
            return items
        if kind == "tuple":
            return tuple(items)
        return deque(items)
    if kind in ("set", "frozenset"):
        if not stable and rng.random() < 0.2:
            items = [rng.choice(LEAF_STR + LEAF_BYTES)] if n else []  # a single str / bytes: order is trivially stable
        else:
            items = [gen(rng, depth - 1, budget, hashable=True, stable=True, force=force and i == 0) for i in range(n)]
        return set(items) if kind == "set" else frozenset(items)
    if kind in ("dict", "defaultdict"):
        d = {} if kind == "dict" else defaultdict(rng.choice(FACTORIES))
        for i in range(n):
            r = rng.random()
            if r < 0.6:
                k = rng.choice(LEAF_STR)
            elif r < 0.85:
                k = _leaf(rng)
            else:
                k = gen(rng, min(depth - 1, 2), budget, hashable=True, stable=stable)
            if stable and isinstance(k, (str, bytes, type(None))):
                k = rng.choice(LEAF_INT)
            d[k] = gen(rng, depth - 1, budget, stable=stable, force=force and i == 0)
        return d
    if kind == "Counter":
        c = Counter()
        for i in range(n):
            c[rng.choice(LEAF_STR[:12]) if rng.random() < 0.7 else rng.choice(LEAF_INT)] += rng.randint(1, 4)
        return c
    tc = rng.choice(sorted(TYPECODES))
    return array(tc, [rng.choice(TYPECODES[tc]) for _ in range(n)])


def systematic_values() -> List[Any]:
    """small exhaustive family: every container kind x sizes 0/1/2 around every container kind x sizes 0/1/3, and
    every leaf in every sequence kind"""
    def mk(kind, items, hash_ok):
        if kind == "list":
            return list(items)
        if kind == "tuple":
            return tuple(items)
        if kind == "deque":
            return deque(items)
        if kind == "dict":
            return {f"k{i}": v for i, v in enumerate(items)}
        if kind == "defaultdict_none":
            return defaultdict(None, {f"k{i}": v for i, v in enumerate(items)})
        if kind == "defaultdict_list":
            return defaultdict(list, {f"k{i}": v for i, v in enumerate(items)})
        if not hash_ok:
            return None
        if kind == "set":
            return set(items)
        if kind == "frozenset":
            return frozenset(items)
        return None

    outer_kinds = ["list", "tuple", "deque", "dict", "defaultdict_none", "defaultdict_list", "set", "frozenset"]
    inner: List[Tuple[Any, bool]] = []
    for n in (0, 1, 3):
        nums = [10 ** 9 + i for i in range(n)]
        inner += [(list(nums), False), (tuple(nums), True), (dict((k, k) for k in nums), False), (set(nums), False),
                  (frozenset(nums), True), (deque(nums), False), (Counter({k: 2 for k in nums}), False),
                  (defaultdict(None, {k: 1 for k in nums}), False), (defaultdict(list, {k: [] for k in nums}), False),
                  (array("i", [i + 100000 for i in range(n)]), False), (array("d", [i + 0.5 for i in range(n)]), False)]
    vals: List[Any] = []
    for v, _h in inner:
        vals.append(v)
    for ok in outer_kinds:
        for n_out in (1, 2):
            for v, h in inner:
                o = mk(ok, [v] * 1 if n_out == 1 else [v, 5], h)
                if o is not None:
                    vals.append(o)
    # three levels of 1-tuples / 1-lists around something that needs expanding
    long_list = list(range(1, 11))
    vals += [(long_list,), ((long_list,),), [(long_list,)], {"k": (long_list,)}, ((1, 2, 3, 4, 5, 6, 7, 8, 9, 10),),
             (("x" * 30,),), ([],), ((),), (set(),), ({"a": (long_list,)},), deque([(long_list,)]), (deque(long_list),)]
    for leaf in LEAF_STR + LEAF_BYTES + LEAF_INT + LEAF_FLOAT + LEAF_MISC:
        vals += [leaf, [leaf], (leaf,), {"k": leaf}, deque([leaf, leaf])]
        if isinstance(leaf, (str, bytes)) or leaf is None:
            vals += [{leaf}, frozenset([leaf]), {leaf: 1}]
        else:
            vals += [{leaf, 3}, frozenset([leaf, 3]), {leaf: "v"}]
    return vals


def cyclic_values(rng: Optional[random.Random] = None, n_random: int = 0, depth: int = 3) -> List[Tuple[Any, str]]:
    out: List[Tuple[Any, str]] = []
    a = [1, 2]; a.append(a); out.append((a, "a = [1, 2]; a.append(a)"))
    d = {"k": 1}; d["self"] = d; out.append((d, "d = {'k': 1}; d['self'] = d"))
    a = [1]; b = [a, 2]; a.append(b); out.append((a, "a = [1]; b = [a, 2]; a.append(b)  # value a"))
    l = []; t = (l, 1); l.append(t); out.append((t, "l = []; t = (l, 1); l.append(t)  # value t"))
    l = []; t = (l,); l.append(t); out.append((t, "l = []; t = (l,); l.append(t)  # value t"))
    q = deque([1]); q.append(q); out.append((q, "q = deque([1]); q.append(q)"))
    dd = defaultdict(None); dd["x"] = [dd]; out.append((dd, "dd = defaultdict(None); dd['x'] = [dd]"))
    a = []; a.append(a); a.append(a); out.append((a, "a = []; a.append(a); a.append(a)"))
    a = list(range(12)); a.append(a); out.append((a, "a = list(range(12)); a.append(a)"))
    d = {"a": {"b": {}}}; d["a"]["b"]["top"] = d; d["a"]["b"]["mid"] = d["a"]; out.append((d, "d = {'a': {'b': {}}}; d['a']['b']['top'] = d; d['a']['b']['mid'] = d['a']"))
    x = [1, 2]; out.append(([x, x], "x = [1, 2]; [x, x]  # shared, not cyclic"))
    x = {"p": (1,)}; out.append(({"a": x, "b": [x, x]}, "x = {'p': (1,)}; {'a': x, 'b': [x, x]}  # shared, not cyclic"))
    x = list(range(10)); out.append(((x, x), "x = list(range(10)); (x, x)  # shared, not cyclic"))
    if rng is not None:
        for _ in range(n_random):
            v = gen(rng, depth, _Budget(25), force=True)
            # collect mutable nodes with their ancestor chains
            nodes = []

            def walk(o, chain):
                if isinstance(o, (list, deque)) or type(o) in (dict, defaultdict):
                    nodes.append((o, chain + [o]))
                if isinstance(o, (list, tuple, deque)):
                    for c in o:
                        walk(c, chain + [o])
                elif type(o) in (dict, defaultdict):
                    for c in o.values():
                        walk(c, chain + [o])

            walk(v, [])
            if not nodes:
                continue
            before = repr(v)
            node, chain = rng.choice(nodes)
            target = rng.choice(chain)
            if isinstance(node, (list, deque)):
                node.append(target)
            else:
                node["cyc"] = target
            out.append((v, f"{before} with an ancestor-or-self reference added to one of its list / dict / deque nodes: {repr(v)}"))
    return out


# ------------------------------------------------------------------------------------------------ the oracle
class Cfg:
    __slots__ = ("max_width", "indent_size", "expand_all", "max_length", "max_string")

    def __init__(self, max_width, indent_size, expand_all=False, max_length=None, max_string=None):
        self.max_width = max_width
        self.indent_size = indent_size
        self.expand_all = expand_all
        self.max_length = max_length
        self.max_string = max_string

    def as_dict(self):
        return {k: getattr(self, k) for k in self.__slots__}

    def key(self):
        return f"w={self.max_width},i={self.indent_size},x={int(self.expand_all)},ml={self.max_length},ms={self.max_string}"


def braces(obj) -> Tuple[str, str, str]:
    """(open, close, empty) for a container, from Python's own repr conventions"""
    t = type(obj)
    if t is list:
        return "[", "]", "[]"
    if t is tuple:
        return "(", ")", "()"
    if t is dict:
        return "{", "}", "{}"
    if t is set:
        return "{", "}", "set()"
    if t is frozenset:
        return "frozenset({", "})", "frozenset()"
    if t is deque:
        return "deque([", "])", "deque()"
    if t is Counter:
        return "Counter({", "})", "Counter()"
    if t is defaultdict:
        f = repr(obj.default_factory)
        return f"defaultdict({f}, {{", "})", f"defaultdict({f}, {{}})"
    if t is array:
        return f"array({obj.typecode!r}, [", "])", f"array({obj.typecode!r})"
    raise TypeError(t)


def is_container(obj) -> bool:
    return type(obj) in CONTAINERS


def is_mapping(obj) -> bool:
    return type(obj) in (dict, Counter, defaultdict)


def leaf_text(obj, cfg: Cfg) -> str:
    ms = cfg.max_string
    if ms is not None and isinstance(obj, (str, bytes)) and len(obj) > ms:
        return f"{obj[:ms]!r}+{len(obj) - ms}"
    return repr(obj)


def shown_children(obj, cfg: Cfg):
    """[(key_text or None, child, is_marker)] in display order, abbreviation applied"""
    n = len(obj)
    ml = cfg.max_length
    out = []
    if is_mapping(obj):
        it = list(obj.items())
        if ml is not None and n > ml:
            it = it[:ml]
        for k, v in it:
            out.append((leaf_text(k, cfg), v, False))
    else:
        it = list(obj)
        if ml is not None and n > ml:
            it = it[:ml]
        for v in it:
            out.append((None, v, False))
    if ml is not None and n > ml:
        out.append((None, f"... +{n - ml}", True))
    return out


def inline(obj, cfg: Cfg, path: Tuple[int, ...] = ()) -> str:
    """the one-line form"""
    if not is_container(obj):
        return leaf_text(obj, cfg)
    if id(obj) in path:
        return "..."
    op, cl, empty = braces(obj)
    if len(obj) == 0:
        return empty
    path = path + (id(obj),)
    parts = []
    for key, child, marker in shown_children(obj, cfg):
        if marker:
            parts.append(child)
        else:
            t = inline(child, cfg, path)
            parts.append(f"{key}: {t}" if key is not None else t)
    body = ", ".join(parts)
    if type(obj) is tuple and len(obj) == 1 and len(parts) == 1 and not (cfg.max_length == 0):
        body += ","
    return op + body + cl


_NORM = (("deque([])", "deque()"), ("Counter({})", "Counter()"))


def norm(s: str) -> str:
    for a, b in _NORM:
        if a in s:
            s = s.replace(a, b)
    return s


class Mismatch(Exception):
    def __init__(self, clause, what, line_no, expected, observed):
        self.clause, self.what, self.line_no, self.expected, self.observed = clause, what, line_no, expected, observed


def match(obj, lines: List[str], i: int, ws: str, prefix: str, suffixes: Tuple[str, ...], cfg: Cfg, path: Tuple[int, ...],
          counts: Dict[str, int], marker: bool = False) -> int:
    """match the display of obj starting at lines[i]; returns the index after it"""
    if i >= len(lines):
        raise Mismatch("c16.expanded_layout", "output ends before every item was shown", i,
                       ws + prefix + (obj if marker else inline(obj, cfg, path)), None)
    line = lines[i]
    nline = norm(line)
    atomic = marker or (not is_container(obj)) or (id(obj) in path) or len(obj) == 0
    if atomic:
        if marker:
            text, clause, what = obj, "c16.max_length_count", "abbreviation marker must report exactly the omitted item count"
            counts["c16.max_length_count"] += 1
        elif is_container(obj) and id(obj) in path:
            text, clause, what = "...", "c16.cycle_ellipsis", "a container met again on the path from the root is shown as ..."
            counts["c16.cycle_ellipsis"] += 1
        elif not is_container(obj):
            text = leaf_text(obj, cfg)
            if text != repr(obj):
                clause, what = "c16.max_string_count", "truncated string must show repr(s[:max_string]) and +<omitted characters>"
                counts["c16.max_string_count"] += 1
            else:
                clause, what = "c16.item_text", "a leaf is shown by its repr"
                counts["c16.item_text"] += 1
        else:
            text, clause, what = braces(obj)[2], "c16.item_text", "an empty container is shown by its repr"
            counts["c16.item_text"] += 1
        cands = [ws + prefix + text + s for s in suffixes]
        if nline not in cands:
            # a tuple of one item that lost / kept its comma is a layout matter, not an item-text matter
            raise Mismatch(clause, what, i, cands[0], line)
        return i + 1
    op, cl, _empty = braces(obj)
    one_tuple = type(obj) is tuple and len(obj) == 1
    first = ws + prefix + op
    if nline == first:
        # expanded
        counts["c16.expanded_layout"] += 1
        if cfg.expand_all:
            counts["c16.expand_all"] += 1
        kids = shown_children(obj, cfg)
        j = i + 1
        cws = ws + " " * cfg.indent_size
        sub = path + (id(obj),)
        for idx, (key, child, is_marker) in enumerate(kids):
            last = idx == len(kids) - 1
            if one_tuple and not is_marker:
                suf: Tuple[str, ...] = (",",)
            elif last:
                suf = ("", ",")
            else:
                suf = (",",)
            j = match(child, lines, j, cws, f"{key}: " if key is not None else "", suf, cfg, sub, counts, marker=is_marker)
        if j >= len(lines):
            raise Mismatch("c16.expanded_layout", "closing brace line missing", j, ws + cl + suffixes[0], None)
        cands = [ws + cl + s for s in suffixes]
        if lines[j] not in cands:
            raise Mismatch("c16.expanded_layout", "closing brace line of an expanded container (indentation, brace, separator)", j,
                           cands[0], lines[j])
        return j + 1
    text = inline(obj, cfg, path)
    cands = [ws + prefix + text + s for s in suffixes]
    if type(obj) is tuple and cfg.max_length == 0:  # nothing but the marker is shown: a trailing comma is accepted, not required
        cands += [ws + prefix + text[:-len(cl)] + "," + cl + s for s in suffixes]
    if nline in cands:
        counts["c16.inline_only_if_fits"] += 1
        if cfg.expand_all:
            counts["c16.expand_all"] += 1
            raise Mismatch("c16.expand_all", "expand_all=True but a non-empty container is kept on one line", i, first, line)
        w = cells(line)
        if w > cfg.max_width:
            raise Mismatch("c16.inline_only_if_fits", f"non-empty container kept on one line of {w} cells > max_width", i,
                           first, line)
        return i + 1
    raise Mismatch("c16.expanded_layout", "line is neither the one-line form of the container nor the opening line of its expansion",
                   i, f"{cands[0]!r} or {first!r}", line)


def has_cycle(obj, path=()) -> bool:
    if not is_container(obj) or type(obj) is array:
        return False
    if id(obj) in path:
        return True
    path = path + (id(obj),)
    if is_mapping(obj):
        return any(has_cycle(k, path) or has_cycle(v, path) for k, v in obj.items())
    return any(has_cycle(v, path) for v in obj)


def count_backrefs(obj, cfg: Cfg, path=()) -> int:
    if not is_container(obj) or type(obj) is array:
        return 0
    if id(obj) in path:
        return 1
    path = path + (id(obj),)
    return sum(count_backrefs(c, cfg, path) for _k, c, m in shown_children(obj, cfg) if not m)


def only_basic(obj) -> bool:
    if not is_container(obj):
        return True
    if type(obj) not in BASIC5:
        return False
    if type(obj) is dict:
        return all(only_basic(k) and only_basic(v) for k, v in obj.items())
    return all(only_basic(v) for v in obj)


def has_nonevaluable(obj) -> bool:
    """values whose Python repr is itself not an expression: inf / nan floats"""
    if isinstance(obj, float):
        return obj != obj or obj in (float("inf"), float("-inf"))
    if type(obj) is array:
        return any(has_nonevaluable(v) for v in obj) if obj.typecode in "fd" else False
    if is_mapping(obj):
        return any(has_nonevaluable(k) or has_nonevaluable(v) for k, v in obj.items())
    if is_container(obj):
        return any(has_nonevaluable(v) for v in obj)
    return False


def same(a, b) -> bool:
    """equal and of the same type, recursively"""
    if type(a) is not type(b):
        return False
    if isinstance(a, float):
        return a == b
    if type(a) in (list, tuple, deque):
        return len(a) == len(b) and all(same(x, y) for x, y in zip(a, b))
    if is_mapping(a):
        if len(a) != len(b):
            return False
        if type(a) is defaultdict and a.default_factory is not b.default_factory:
            return False
        kb = {k: k for k in b}
        for k, v in a.items():
            if k not in kb or not same(k, kb[k]) or not same(v, b[kb[k]]):
                return False
        return True
    if type(a) in (set, frozenset):
        if a != b:
            return False
        kb = {k: k for k in b}
        return all(same(k, kb[k]) for k in a)
    if type(a) is array:
        return a.typecode == b.typecode and a.tolist() == b.tolist()
    return a == b


EVAL_NS = {"deque": deque, "Counter": Counter, "defaultdict": defaultdict, "array": array}
_RE_CLASS = re.compile(r"<class '([A-Za-z_][A-Za-z_0-9.]*)'>")


def check_case(pretty_repr, obj, cfg: Cfg, counts: Dict[str, int], cyclic: bool) -> List[dict]:
    """all clauses for one (value, configuration); returns a list of {clause, what, expected, observed}"""
    fails: List[dict] = []
    counts["c16.no_exception"] += 1
    try:
        result = pretty_repr(obj, max_width=cfg.max_width, indent_size=cfg.indent_size, expand_all=cfg.expand_all,
                             max_length=cfg.max_length, max_string=cfg.max_string)
        if not isinstance(result, str):
            raise TypeError(f"returned {type(result).__name__}")
    except BaseException as e:  # RecursionError included
        fails.append({"clause": "c16.cycle_ellipsis" if cyclic and isinstance(e, RecursionError) else "c16.no_exception",
                      "what": "pretty_repr raised", "expected": "a string", "observed": f"{type(e).__name__}: {e}"})
        return fails
    abbreviated = cfg.max_length is not None or cfg.max_string is not None
    # (a) evaluates back
    if not abbreviated and not cyclic and not has_nonevaluable(obj):
        counts["c16.eval_roundtrip"] += 1
        src = _RE_CLASS.sub(lambda m: m.group(1), result) if "<class '" in result else result
        try:
            back = eval(src, dict(EVAL_NS))
            ok = same(back, obj)
            observed = f"{type(back).__name__}: {back!r}"[:300]
        except BaseException as e:
            ok = False
            observed = f"{type(e).__name__}: {e}"[:300]
        if not ok:
            fails.append({"clause": "c16.eval_roundtrip", "what": "eval(pretty_repr(obj)) is not an equal value of the same type",
                          "expected": f"{type(obj).__name__}: {obj!r}"[:300], "observed": observed, "result": result[:400]})
    # (b) single line whenever that fits
    one = inline(obj, cfg)
    slack = 1 if (type(obj) is tuple and cfg.max_length == 0) else 0  # "(... +1,)" is accepted too
    if is_container(obj) and len(obj) and not cfg.expand_all and cells(one) + slack <= cfg.max_width:
        counts["c16.single_line_when_fits"] += 1
        if not abbreviated and not cyclic and only_basic(obj):
            expect = repr(obj)
            if one != expect:  # the oracle's own one-line form must agree with Python here
                raise AssertionError(f"oracle self-check: inline {one!r} != repr {expect!r}")
            if result != expect:
                fails.append({"clause": "c16.single_line_when_fits", "what": "repr(obj) fits max_width but the result differs from it",
                              "expected": expect, "observed": result[:400]})
        elif "\n" in result:
            fails.append({"clause": "c16.single_line_when_fits", "what": "the one-line form fits max_width but the result has several lines",
                          "expected": one, "observed": result[:400]})
    # (b) (c) (d) line structure
    lines = result.split("\n")
    try:
        end = match(obj, lines, 0, "", "", ("",), cfg, (), counts)
        if end != len(lines):
            raise Mismatch("c16.expanded_layout", "extra lines after the value", end, None, lines[end])
    except Mismatch as m:
        fails.append({"clause": m.clause, "what": f"{m.what} (output line {m.line_no + 1})", "expected": m.expected,
                      "observed": m.observed, "result": result[:400]})
    except RecursionError:
        pass
    if cyclic:
        counts["c16.cycle_ellipsis"] += 1
        want = count_backrefs(obj, cfg)
        got = result.count("...") - result.count("... +")
        if want != got:
            fails.append({"clause": "c16.cycle_ellipsis", "what": "number of ... markers differs from the number of back references",
                          "expected": want, "observed": got, "result": result[:400]})
    return fails


# ------------------------------------------------------------------------------------------------ shrinking
def variants(obj, need_hashable=False):
    """one-step simplifications of obj (acyclic values only)"""
    if not is_container(obj):
        if isinstance(obj, str) and len(obj) > 1:
            yield obj[:1]
        if isinstance(obj, (str, bytes, float)) or obj is None:
            yield 0
        return
    t = type(obj)
    if t is array:
        for i in range(len(obj)):
            yield array(obj.typecode, obj.tolist()[:i] + obj.tolist()[i + 1:])
        return
    # hoist children
    kids = list(obj.values()) if is_mapping(obj) else list(obj)
    if not need_hashable:
        for c in kids:
            if is_container(c):
                yield c
    # remove one element
    if t in (list, tuple, deque):
        seq = list(obj)
        for i in range(len(seq)):
            yield t(seq[:i] + seq[i + 1:])
        for i, c in enumerate(seq):
            for v in variants(c, need_hashable):
                yield t(seq[:i] + [v] + seq[i + 1:])
    elif t in (set, frozenset):
        seq = list(obj)
        for i in range(len(seq)):
            yield t(seq[:i] + seq[i + 1:])
        for i, c in enumerate(seq):
            for v in variants(c, True):
                try:
                    yield t(seq[:i] + [v] + seq[i + 1:])
                except TypeError:
                    pass
    elif is_mapping(obj):
        items = list(obj.items())

        def rebuild(its):
            if t is dict:
                return dict(its)
            if t is Counter:
                return Counter(dict(its))
            return defaultdict(obj.default_factory, its)

        for i in range(len(items)):
            yield rebuild(items[:i] + items[i + 1:])
        if t is not Counter:
            for i, (k, c) in enumerate(items):
                for v in variants(c):
                    yield rebuild(items[:i] + [(k, v)] + items[i + 1:])
            for i, (k, c) in enumerate(items):
                if isinstance(k, str) and k != "k":
                    if "k" not in obj:
                        yield rebuild(items[:i] + [("k", c)] + items[i + 1:])


def shrink(pretty_repr, obj, cfg: Cfg, clause: str, budget: int = 400):
    def fails(o, c):
        cnt = {k: 0 for k in CLAUSES}
        try:
            return any(f["clause"] == clause for f in check_case(pretty_repr, o, c, cnt, False))
        except AssertionError:
            return False

    steps = 0
    improved = True
    while improved and steps < budget:
        improved = False
        for cand in variants(obj):
            steps += 1
            if steps > budget:
                break
            if len(repr(cand)) < len(repr(obj)) and fails(cand, cfg):
                obj = cand
                improved = True
                break
    # configuration: prefer the plainest one that still fails
    for attr, plain in (("max_string", None), ("max_length", None), ("expand_all", False), ("indent_size", 4), ("max_width", 80)):
        if getattr(cfg, attr) != plain:
            c2 = Cfg(**cfg.as_dict())
            setattr(c2, attr, plain)
            if fails(obj, c2):
                cfg = c2
    if cfg.max_width not in (80,):
        lo = cfg.max_width
        for w in (1, 10, 20, 40):
            if w < lo:
                c2 = Cfg(**cfg.as_dict())
                c2.max_width = w
                if fails(obj, c2):
                    cfg = c2
                    break
    return obj, cfg


# ------------------------------------------------------------------------------------------------ cases
INDENTS = (1, 2, 4, 8)


def configs_for(rng: random.Random, obj, n_extra: int) -> List[Cfg]:
    plain = Cfg(80, 4)
    try:
        L = cells(inline(obj, plain))
    except RecursionError:
        L = 80
    cfgs: List[Cfg] = []
    widths = {1, max(1, L - 1), max(1, min(200, L)), min(200, L + 1)}
    for _ in range(n_extra):
        r = rng.random()
        if r < 0.6:
            widths.add(rng.randint(1, max(2, min(200, L + 2))))
        else:
            widths.add(rng.randint(1, 200))
    for w in sorted(widths):
        cfgs.append(Cfg(w, rng.choice(INDENTS)))
    cfgs.append(Cfg(rng.randint(1, 200), rng.choice(INDENTS), expand_all=True))
    # abbreviations
    for _ in range(2):
        ml = rng.choice([None, 0, 1, 2, 3, 5])
        ms = rng.choice([None, 0, 1, 3, 10])
        if ml is None and ms is None:
            ml = 2
        cfgs.append(Cfg(rng.randint(1, max(2, min(200, L + 2))), rng.choice(INDENTS), expand_all=rng.random() < 0.15,
                        max_length=ml, max_string=ms))
    return cfgs


def nontrivial(obj) -> bool:
    """the value has a non-empty container, so that layout decisions exist"""
    return is_container(obj) and len(obj) > 0


def _value_key(obj) -> str:
    try:
        return repr(obj)
    except RecursionError:
        return "<deep>"


def _signature(type_name: str, f: dict) -> str:
    """coarse root-cause signature, used only to pick *different* examples among the <= 3 reported per clause"""
    exp, obs = f.get("expected"), f.get("observed")
    what = re.sub(r"\d+", "N", str(f.get("what")))[:60]
    m = re.match(r"^(\w*(?:Error|Exception|Interrupt))\b", obs) if isinstance(obs, str) else None
    if m:
        kind = m.group(1)
    elif isinstance(exp, str) and isinstance(obs, str):
        e, o = exp.strip(), obs.strip()
        if e != o and e.startswith(o):
            kind = "missing:" + e[len(o):][:6]
        elif e != o and o.startswith(e):
            kind = "extra:" + o[len(e):][:6]
        elif "\n" in o and "\n" not in e:
            kind = "multiline"
        else:
            kind = "differs"
    else:
        kind = "differs"
    return what + "|" + kind


def _work(args):
    tier, seed, kind, start, stop, depth = args
    from rich.pretty import pretty_repr

    counts = {k: 0 for k in CLAUSES}
    raw_fail: Dict[str, List[tuple]] = {k: [] for k in CLAUSES}
    evaluations = 0
    distinct = set()
    samples = []
    sysvals = systematic_values() if kind == "sys" else None
    for idx in range(start, stop):
        rng = random.Random(f"c16:{seed}:{kind}:{idx}")
        recipe = None
        cyclic = False
        if kind == "sys":
            obj = sysvals[idx]
            n_extra = 6
        elif kind == "cyc":
            pool = cyclic_values()
            if idx < len(pool):
                obj, recipe = pool[idx]
            else:
                extra = cyclic_values(rng, 1, min(depth, 4))[len(pool):]
                if not extra:
                    continue
                obj, recipe = extra[0]
            cyclic = has_cycle(obj)
            n_extra = 6
        else:
            d = 1 + idx % depth
            obj = gen(rng, d, _Budget(40), force=True)
            n_extra = 4
        vkey = recipe or _value_key(obj)
        nt = nontrivial(obj)
        if type(obj) in (list, dict) and idx % 3 == 1:
            counts["c16.same_after_abandoned_call"] += 1
            before = pretty_repr(obj, max_width=30)
            if type(obj) is list:
                obj.append(_Interrupting())
            else:
                obj["\0interrupt"] = _Interrupting()
            try:
                pretty_repr(obj, max_width=30)
            except _Abandon:
                pass
            finally:
                if type(obj) is list:
                    obj.pop()
                else:
                    del obj["\0interrupt"]
            after = pretty_repr(obj, max_width=30)
            if after != before:
                f = {"clause": "c16.same_after_abandoned_call", "what": "pretty_repr of the same value differs after an earlier call on it was abandoned by a BaseException raised in an element's __repr__",
                     "expected": before[:300], "observed": after[:300]}
                raw_fail[f["clause"]].append((obj, Cfg(30, 4), f, recipe, True, "abandoned"))
        for cfg in configs_for(rng, obj, n_extra):
            evaluations += 1
            fails = check_case(pretty_repr, obj, cfg, counts, cyclic)
            if nt:
                distinct.add(int.from_bytes(hashlib.blake2b(f"{type(obj).__name__}|{vkey}|{cfg.key()}".encode("utf-8", "replace"),
                                                            digest_size=8).digest(), "big"))
            for f in fails:
                lst = raw_fail[f["clause"]]
                sig = _signature(type(obj).__name__, f)
                same_sig = sum(1 for x in lst if x[5] == sig)
                if same_sig < 2 and len({x[5] for x in lst} | {sig}) <= 8:
                    lst.append((obj, cfg, f, recipe, cyclic, sig))
        if len(samples) < 2 and nt and idx % 7 == 3:
            cfg = Cfg(20, 2)
            samples.append({"value": vkey[:120], "config": cfg.as_dict(),
                            "result": pretty_repr(obj, max_width=20, indent_size=2)[:200]})
    # minimise
    out_fail: Dict[str, List[dict]] = {k: [] for k in CLAUSES}
    for clause, lst in raw_fail.items():
        seen = set()
        for obj, cfg, f, recipe, cyclic, _sig in lst:
            if not cyclic and recipe is None:
                try:
                    obj2, cfg2 = shrink(pretty_repr, obj, cfg, clause)
                    cnt = {k: 0 for k in CLAUSES}
                    f2 = [x for x in check_case(pretty_repr, obj2, cfg2, cnt, False) if x["clause"] == clause]
                    if f2:
                        obj, cfg, f = obj2, cfg2, f2[0]
                except Exception:
                    pass
            vkey = recipe or _value_key(obj)
            key = f"{vkey}|{cfg.key()}"
            if key in seen:
                continue
            seen.add(key)
            out_fail[clause].append({
                "check": clause, "what": f["what"], "input_key": key[:200],
                "input": dict(cfg.as_dict(), value=vkey, type=type(obj).__name__),
                "expected": f.get("expected"), "observed": f.get("observed"), "result": f.get("result"),
                "_sig": _signature(type(obj).__name__, f),
            })
    return counts, out_fail, evaluations, distinct, samples


def run(tier: str = "quick", seed: int = 0) -> dict:
    import multiprocessing as mp

    t0 = time.time()
    thorough = tier == "thorough"
    depth = 6 if thorough else 4
    n_random = 200_000 if thorough else 14_000
    n_cyc_random = 4000 if thorough else 400
    nproc = min(16, os.cpu_count() or 1)
    n_sys = len(systematic_values())
    n_cyc = len(cyclic_values()) + n_cyc_random
    jobs = []

    def split(kind, n, parts):
        step = max(1, (n + parts - 1) // parts)
        for s in range(0, n, step):
            jobs.append((tier, seed, kind, s, min(n, s + step), depth))

    split("rnd", n_random, nproc * 6)
    split("sys", n_sys, nproc)
    split("cyc", n_cyc, nproc)
    counts = {k: 0 for k in CLAUSES}
    fails: Dict[str, List[dict]] = {k: [] for k in CLAUSES}
    evaluations = 0
    distinct = set()
    samples = []
    ctx = mp.get_context("fork")
    cells("x")  # load the width table once, before forking
    with ctx.Pool(nproc) as pool:
        for c, f, ev, dist, smp in pool.imap_unordered(_work, jobs, chunksize=1):
            for k, v in c.items():
                counts[k] += v
            for k, lst in f.items():
                fails[k].extend(lst)
            evaluations += ev
            distinct |= dist
            samples.extend(smp)
    failures = []
    for k in CLAUSES:
        groups: Dict[str, List[dict]] = {}
        seen = set()
        for f in sorted(fails[k], key=lambda f: (len(f["input_key"]), f["input_key"])):
            if f["input_key"] in seen:
                continue
            seen.add(f["input_key"])
            groups.setdefault(f.pop("_sig"), []).append(f)
        order = sorted(groups.values(), key=lambda g: (len(g[0]["input_key"]), g[0]["input_key"]))
        picked = []
        rank = 0
        while len(picked) < MAX_PER_CLAUSE and any(rank < len(g) for g in order):
            for g in order:
                if rank < len(g) and len(picked) < MAX_PER_CLAUSE:
                    picked.append(g[rank])
            rank += 1
        failures.extend(picked)
    samples.sort(key=lambda s: s["value"])
    return {
        "evaluations": evaluations,
        "distinct_nontrivial": len(distinct),
        "rule": "one case = (value, max_width, indent_size, expand_all, max_length, max_string); values come from a systematic "
                "family (container kind x size 0/1/2 around container kind x size 0/1/3, every leaf in every sequence kind, "
                "nested 1-tuples), seeded random generation with a forced spine of the chosen depth, and cyclic / shared "
                "structures; distinct by (type, repr(value), configuration); non-trivial = the value is a non-empty container",
        "bound": f"nesting depth <= {depth}; <= 40 containers and <= 12 items per container; max_width 1..200 sampled "
                 f"(always 1 and the fit boundary L-1, L, L+1 of the one-line form); indent_size in {list(INDENTS)}; expand_all; "
                 f"max_length in [None,0,1,2,3,5]; max_string in [None,0,1,3,10]; {n_random} random values, {n_sys} systematic, "
                 f"{n_cyc} cyclic / shared",
        "samples": samples[:4],
        "clauses": counts,
        "failures": failures,
        "seconds": round(time.time() - t0, 2),
    }


if __name__ == "__main__":  # pragma: no cover
    import json

    print(json.dumps(run(sys.argv[1] if len(sys.argv) > 1 else "quick", 0), default=str, indent=1)[:8000])
