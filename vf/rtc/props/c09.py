"""C09 (bounded): measurements are sound bounds on what rendering produces.

(i)   c09.bounds                 for each tree and sampled available width W in 0..200 (incl. widths below smin):
                                 ``Measurement.get(console, tree, W)`` has 0 <= minimum <= maximum <= W, and is (0, 0) for W < 1
(ii)  c09.render_at_maximum      rendering at the reported maximum never produces a line wider than that value,
      c09.render_at_minimum      same for the reported minimum -- both only for values >= smin(tree)
                                 (``.leading_ge_2`` / ``.ratio_0`` suffix for the two small separate pools, see _trees)
(iii) c09.text_minimum           Text / str / objects cast via __rich__ to Text or str, without tabs:
      c09.text_maximum           minimum == widest word, maximum == widest line (both capped by the available width, as
      c09.text_no_wrap_at_maximum (i) demands), and rendering at the widest-line width yields exactly the input lines
                                 (the minimum clause is not evaluated for a text without any word -- "its widest word"
                                 is undefined there, and tests/test_text.py pins (4, 4) for four blanks)
      c09.raised                 measuring or rendering raised / timed out (no measurement to judge)

``input_key`` is ``<input class>:<hash of tree+width>`` with input class one of ``leading>=2``, ``ratio=0``, ``text``,
``blank-text``, ``cast-to-str`` (or no prefix for the main pool), so a known finding can be matched by its prefix.

Trees are those of C01 plus two wrappers: ``NoMeasure`` (a renderable without ``__rich_measure__``) and ``Cast`` (an object
that is renderable only through ``__rich__``).  Line widths use ``vf.rtc.specnative.cells``.
"""
from __future__ import annotations

import random
import re
import time
from typing import Any, Dict, List, Optional, Tuple

from . import _trees as T

TIERS = {
    "quick": {"main": 700, "leading": 30, "ratio0": 30, "texts": 1200, "depth": 3, "nrand": 8, "chunk": 10},
    "thorough": {"main": 24000, "leading": 1000, "ratio0": 1000, "texts": 60000, "depth": 4, "nrand": 14, "chunk": 50},
}
CASE_SECONDS = 5.0
SUFFIX = {"main": "", "leading": ".leading_ge_2", "ratio0": ".ratio_0", "texts": ""}
KEY_PREFIX = {"main": "", "leading": "leading>=2:", "ratio0": "ratio=0:", "texts": "text:"}


# ---------------------------------------------------------------------------------------------------- oracles


def check_bounds(w: int, mn: int, mx: int) -> Optional[str]:
    if w < 1:
        return None if (mn, mx) == (0, 0) else "(0, 0) when the available width is < 1"
    return None if 0 <= mn <= mx <= w else f"0 <= minimum <= maximum <= {w}"


def widest_word(s: str) -> int:
    return max([0] + [T.cells(x) for x in re.split(r"[ \n]+", s) if x])


def widest_line(s: str) -> int:
    return max(T.cells(x) for x in s.split("\n"))


def _render_max(renderable, v: int) -> Tuple[bool, Any]:
    ok, val = T.guarded(lambda: T.render_lines(renderable, v), CASE_SECONDS)
    if not ok:
        return False, val
    return True, T.max_line_cells(val)


def tree_failures(d: T.Desc, renderable, w: int, pool: str, cache: Optional[Dict[int, Any]] = None, counts: Optional[Dict[str, int]] = None):
    """all clause violations of one (tree, available width) case -> list of (check, expected, observed, what)"""
    out = []
    cache = {} if cache is None else cache
    counts = {} if counts is None else counts
    sm = T.smin(d)
    counts["c09.bounds"] = counts.get("c09.bounds", 0) + 1
    ok, m = T.guarded(lambda: T.measure(renderable, w), CASE_SECONDS)
    if not ok:
        return [("c09.raised", "Measurement.get returns", m, f"Measurement.get at available width {w} (smin {sm}): {m}")]
    mn, mx = m
    exp = check_bounds(w, mn, mx)
    if exp:
        out.append(("c09.bounds", exp, {"minimum": mn, "maximum": mx}, f"measurement ({mn}, {mx}) at available width {w}"))
    for name, v in (("maximum", mx), ("minimum", mn)):
        if name == "minimum" and mn == mx:
            continue
        if v < max(1, sm) or v > 400:
            continue
        clause = f"c09.render_at_{name}{SUFFIX[pool]}"
        counts[clause] = counts.get(clause, 0) + 1
        if v not in cache:
            cache[v] = _render_max(renderable, v)
        ok, val = cache[v]
        if not ok:
            out.append(("c09.raised", "render completes", val, f"render at the reported {name} {v}: {val}"))
        elif val[0] > v:
            out.append((clause, f"every line <= {v} cells when rendered at the reported {name} {v} (>= smin {sm})",
                        {"measurement": [mn, mx], "available": w, "cells": val[0], "line": val[1]},
                        f"measured ({mn}, {mx}) at available width {w}; rendered at {v} a line has {val[0]} cells"))
    return out


def text_string(d: T.Desc) -> Optional[str]:
    """the string of a Text / Str leaf, possibly behind Cast wrappers (what clause (iii) speaks about)"""
    while d["t"] == "Cast":
        d = d["child"]
    return d["s"] if d["t"] in ("Text", "Str") else None


def text_failures(d: T.Desc, renderable, w: int, counts: Optional[Dict[str, int]] = None):
    counts = {} if counts is None else counts
    s = text_string(d)
    out = []
    ww, wl = widest_word(s), widest_line(s)
    ok, m = T.guarded(lambda: T.measure(renderable, w), CASE_SECONDS)
    if not ok:
        return [("c09.raised", "Measurement.get returns", m, f"Measurement.get of text at available width {w}: {m}")]
    mn, mx = m
    has_word = any(x for x in re.split(r"[ \n]+", s))
    if w >= 1:
        counts["c09.text_maximum"] = counts.get("c09.text_maximum", 0) + 1
        if has_word:  # "its widest word" says nothing about a text that has no word at all
            counts["c09.text_minimum"] = counts.get("c09.text_minimum", 0) + 1
        if has_word and mn != min(ww, w):
            out.append(("c09.text_minimum", min(ww, w), mn, f"minimum {mn}, widest word is {ww} cells (available {w})"))
        if mx != min(wl, w):
            out.append(("c09.text_maximum", min(wl, w), mx, f"maximum {mx}, widest line is {wl} cells (available {w})"))
    return out


def text_nowrap_failure(d: T.Desc, renderable, counts: Optional[Dict[str, int]] = None):
    s = text_string(d)
    wl = widest_line(s)
    if wl < 1:
        return []
    counts = {} if counts is None else counts
    counts["c09.text_no_wrap_at_maximum"] = counts.get("c09.text_no_wrap_at_maximum", 0) + 1
    ok, lines = T.guarded(lambda: T.render_lines(renderable, wl), CASE_SECONDS)
    if not ok:
        return [("c09.raised", "render completes", lines, f"render of text at its maximum {wl}: {lines}")]
    if lines and lines[-1] == "":
        lines = lines[:-1]  # the text's own end="\n"
    want = s.split("\n")
    if len(lines) != len(want):
        return [("c09.text_no_wrap_at_maximum", {"lines": len(want)}, {"lines": len(lines), "output": lines[:6]},
                 f"text of {len(want)} line(s) rendered at its maximum {wl} came out as {len(lines)} line(s)")]
    return []


# ---------------------------------------------------------------------------------------------------- workers


def _tree_for(seed: int, pool: str, idx: int, depth: int):
    rng = random.Random(f"c09:{seed}:{pool}:{idx}")
    d = T.gen_tree(rng, rng.choice([2, depth, depth]) if depth > 2 else depth, pool, extras=True)
    return rng, d


def _text_for(seed: int, idx: int):
    rng = random.Random(f"c09:{seed}:texts:{idx}")
    r = rng.random()
    if r < 0.06:
        s = rng.choice(["", " ", "  ", "\n", " \n ", "\n\n", "a ", " a", "a\n", "\na", "a  b", "\u65e5", "\u200b", "\u0301", "a\n\n\nb"])
        base: T.Desc = {"t": "Text", "s": s}
    elif r < 0.8:
        base = T.gen_text(rng)
    else:
        base = {"t": "Str", "s": T.gen_string(rng)}
    wrap = rng.random()
    d = base
    if wrap < 0.15:
        d = {"t": "Cast", "child": base}  # __rich__ returns a Text or a str (never another castable object)
    return rng, d


def _work(job) -> Dict[str, Any]:
    tier, seed, pool, a, b = job
    cfg = TIERS[tier]
    out = {"evals": 0, "pairs": set(), "clauses": {}, "fails": [], "samples": [], "trees": 0, "nontrivial_trees": 0}
    counts = out["clauses"]
    for idx in range(a, b):
        if pool == "texts":
            rng, d = _text_for(seed, idx)
        else:
            rng, d = _tree_for(seed, pool, idx, cfg["depth"])
        sm = T.smin(d)
        nontrivial = T.node_count(d) >= 2
        sig = T.sig_key(d)
        out["trees"] += 1
        out["nontrivial_trees"] += int(nontrivial)
        ok, r = T.guarded(lambda: T.build(d), CASE_SECONDS)
        if not ok:
            out["fails"].append({"check": "c09.raised", "pool": pool, "idx": idx, "w": sm, "desc": d, "expected": "constructors accept valid options",
                                 "observed": r, "what": f"building the tree raised: {r}"})
            continue
        cache: Dict[int, Any] = {}
        found = []
        if pool == "texts":
            s = text_string(d)
            ws = T.widths_all(rng, max(sm, widest_line(s)), 0, 5)
            for w in ws:
                out["evals"] += 1
                if nontrivial:
                    out["pairs"].add((sig, T.width_class(w, sm)))
                found += [(w, f) for f in tree_failures(d, r, w, pool, cache, counts)]
                found += [(w, f) for f in text_failures(d, r, w, counts) if f[0] != "c09.raised"]  # (a raise is reported once)
            out["evals"] += 1
            found += [(widest_line(s), f) for f in text_nowrap_failure(d, r, counts)]
        else:
            for w in T.widths_all(rng, sm, 0, cfg["nrand"]):
                out["evals"] += 1
                if nontrivial:
                    out["pairs"].add((sig, T.width_class(w, sm)))
                found += [(w, f) for f in tree_failures(d, r, w, pool, cache, counts)]
        for w, (check, expected, observed, what) in found:
            out["fails"].append({"check": check, "pool": pool, "idx": idx, "w": w, "desc": d, "expected": expected,
                                 "observed": observed, "what": what})
        if idx == a and not found and len(out["samples"]) < 1:
            w = sm + 5
            out["samples"].append({"tree": T.short(d, 400), "smin": sm, "available": w, "measurement": list(T.measure(r, w))})
    return out


# ---------------------------------------------------------------------------------------------------- minimisation, report


def _case_failures(d: T.Desc, r, w: int, pool: str):
    if pool == "texts" and text_string(d) is not None:
        fs = text_failures(d, r, w) + tree_failures(d, r, w, pool)
        if w == widest_line(text_string(d)):
            fs += text_nowrap_failure(d, r)
        return fs
    return tree_failures(d, r, w, pool)


def input_class(d: T.Desc, pool: str) -> str:
    """a coarse, input-only label that prefixes input_key (so that a known finding can be matched by prefix)"""
    if pool != "texts":
        return KEY_PREFIX[pool]
    inner = d
    casts = 0
    while inner["t"] == "Cast":
        inner, casts = inner["child"], casts + 1
    s = inner.get("s", "x")
    if casts and inner["t"] == "Str":
        return "cast-to-str:"
    if not s.strip(" \n"):
        return "blank-text:"
    return "text:"


def _minimise(f: Dict[str, Any], cheap: bool = False) -> Dict[str, Any]:
    check, pool = f["check"], f["pool"]

    def probe(desc: T.Desc, r, w: int):
        if pool == "texts" and text_string(desc) is None:
            return None
        for got in _case_failures(desc, r, w, pool):
            if got[0] == check:
                return got
        return None

    def extra(desc: T.Desc) -> List[int]:
        s = text_string(desc) if pool == "texts" else None
        return [widest_line(s)] if s is not None else []

    if cheap:
        d, w = f["desc"], f["w"]
    else:
        d, w = T.minimise(f["desc"], f["w"], lambda desc, r, x: probe(desc, r, x) is not None, lambda desc: 0, extra_widths=extra)
    got = probe(d, T.build(d), w)
    if got is None:
        d, w = f["desc"], f["w"]
        got = probe(d, T.build(d), w) or (check, f["expected"], f["observed"], f["what"])
    _, expected, observed, what = got
    return {"check": check, "what": what, "input_key": T.key_of(d, w, input_class(d, pool)),
            "input": {"tree": d, "available_width": w, "smin": T.smin(d),
                      "replay": "r = vf.rtc.props._trees.build(tree); vf.rtc.props.c09._case_failures(tree, r, available_width, pool)",
                      "pool": pool, "found_as": {"pool": pool, "index": f["idx"], "available_width": f["w"], "nodes": T.node_count(f["desc"])}},
            "expected": expected, "observed": observed}


def _aggregate(parts, minimise, classify, tier, cfg, t0, rule, bound) -> Dict[str, Any]:
    evals = 0
    pairs = set()
    clauses: Dict[str, int] = {}
    raw: List[Dict[str, Any]] = []
    samples: List[Any] = []
    trees = nontrivial = 0
    for p in parts:
        evals += p["evals"]
        pairs |= p["pairs"]
        for k, v in p["clauses"].items():
            clauses[k] = clauses.get(k, 0) + v
        raw.extend(p["fails"])
        if len(samples) < 4:
            samples.extend(p["samples"][: 4 - len(samples)])
        trees += p["trees"]
        nontrivial += p["nontrivial_trees"]
    counts: Dict[str, int] = {}
    failing_trees: Dict[str, set] = {}
    for f in raw:
        counts[f["check"]] = counts.get(f["check"], 0) + 1
        failing_trees.setdefault(f["check"], set()).add((f["pool"], f["idx"]))
    failures: List[Dict[str, Any]] = []
    per: Dict[str, int] = {}
    tried: Dict[str, int] = {}
    seen_keys = set()
    seen_trees = set()
    seen_classes = set()
    t_min = time.time()
    budget = 12.0 if tier == "quick" else 90.0  # minimisation is a courtesy, not the check
    ordered = sorted(raw, key=lambda f: (f["check"], T.node_count(f["desc"]), f["w"], f["idx"]))
    for diverse in (True, False):  # first one failure per (clause, input class), then fill up to 3 per clause
        for f in ordered:
            c = f["check"]
            cls = (c, classify(f))
            if per.get(c, 0) >= 3 or tried.get(c, 0) >= 4 or (c, f["pool"], f["idx"]) in seen_trees:
                continue
            if diverse and cls in seen_classes:
                continue
            if not diverse and time.time() - t_min > budget / 2:
                break
            seen_classes.add(cls)
            seen_trees.add((c, f["pool"], f["idx"]))
            tried[c] = tried.get(c, 0) + 1
            m = minimise(f, time.time() - t_min > budget)
            if (c, m["input_key"]) in seen_keys:
                continue
            seen_keys.add((c, m["input_key"]))
            per[c] = per.get(c, 0) + 1
            failures.append(m)
    failures.sort(key=lambda m: m["check"])
    return {
        "evaluations": evals,
        "distinct_nontrivial": len(pairs),
        "rule": rule,
        "bound": bound,
        "samples": samples,
        "clauses": clauses,
        "failures": failures,
        "failure_counts": counts,
        "failing_trees": {k: len(v) for k, v in failing_trees.items()},
        "trees": trees,
        "nontrivial_trees": nontrivial,
        "elapsed_s": round(time.time() - t0, 2),
    }


def run(tier: str = "quick", seed: int = 0) -> Dict[str, Any]:
    t0 = time.time()
    tier = tier if tier in TIERS else "quick"
    cfg = TIERS[tier]
    T.specnative.width_table()
    jobs = []
    for pool in ("main", "leading", "ratio0"):
        jobs += [(tier, seed, pool, a, b) for a, b in T.chunk(cfg[pool], cfg["chunk"])]
    jobs += [(tier, seed, "texts", a, b) for a, b in T.chunk(cfg["texts"], cfg["chunk"] * 5)]
    parts = T.run_pool(_work, jobs)
    rule = ("a case is (renderable, available width); renderables are drawn deterministically from (seed, pool, index): trees as in "
            "C01 plus NoMeasure/Cast wrappers, and a separate stream of bare texts (Text, str, __rich__ casts) for the text clauses; "
            "widths: 0..4, smin-3..smin+2, smin/2, random ones, 200 (and, per text, its widest-line width for the no-wrap clause). "
            "Distinct = distinct (tree shape signature, width class relative to smin) pairs; non-trivial = the tree has >= 2 nodes.")
    bound = (f"tier {tier}: {cfg['main']} trees + {cfg['leading']} (leading>=2) + {cfg['ratio0']} (ratio=0) of nesting depth <= "
             f"{cfg['depth']}, {cfg['texts']} texts; contents: ASCII words, CJK/emoji/fullwidth, combining and zero-width code points, "
             "embedded newlines, blank-only texts, no tabs; available widths 0..200")
    res = _aggregate(parts, _minimise, lambda f: input_class(f["desc"], f["pool"]), tier, cfg, t0, rule, bound)
    _min_width_family(res, tier)
    return res


def _min_width_family(res: Dict[str, Any], tier: str) -> None:
    """Directed family (added by the maintainer of /verif): tables with `min_width` at available widths on both
    sides of it.  The measurement must stay a sound bound: 0 <= min <= max <= W and rendering at the
    reported maximum must not produce a wider line."""
    import io

    from rich import box as rbox
    from rich.console import Console
    from rich.measure import Measurement
    from rich.table import Table

    cells = T.specnative.cells
    n = bad = 0
    widths = list(range(1, 45)) + [60, 61, 80, 120, 200]
    for mw in (10, 24, 60):
        for expand in (False, True):
            for show_edge in (True, False):
                for W in widths:
                    def mk():
                        t = Table("Name", "Description", min_width=mw, expand=expand, show_edge=show_edge, box=rbox.ASCII)
                        t.add_row("a", "some words here")
                        return t
                    console = Console(width=W, file=io.StringIO(), color_system=None, legacy_windows=False, _environ={})
                    m = Measurement.get(console, mk(), W)
                    n += 1
                    res["clauses"]["c09.min_width_table"] = res["clauses"].get("c09.min_width_table", 0) + 1
                    ok = 0 <= m.minimum <= m.maximum <= W
                    widest = None
                    if ok and m.maximum >= 7:  # structural minimum of this two-column table: 3 borders + 2*(2 padding + 1)... kept generous
                        opts = console.options.update(width=m.maximum)
                        text = "".join(seg.text for seg in console.render(mk(), opts) if not seg.is_control)
                        widest = max([cells(line) for line in text.split("\n")] + [0])
                        ok = widest <= m.maximum
                    if not ok and bad < 3:
                        bad += 1
                        res["failures"].append({"check": "c09.min_width_table", "what": f"Table(min_width={mw}, expand={expand}, show_edge={show_edge}) at available width {W}: measured ({m.minimum}, {m.maximum}), widest line when rendered at the maximum: {widest}",
                                                "input_key": f"min_width={mw}|expand={expand}|edge={show_edge}|W={W}", "input": {"min_width": mw, "expand": expand, "show_edge": show_edge, "W": W},
                                                "expected": "0 <= minimum <= maximum <= W and no rendered line wider than the maximum", "observed": {"measurement": [m.minimum, m.maximum], "widest_line": widest}})
    res["evaluations"] += n
