"""C14 - no input makes the pipeline fail with an undocumented error (string half; the renderable-tree half lives in
c14_trees.py and is merged in when that module exists).

For every string s (a "case" is one entry point called on one string):

  c14.Color.parse             Color.parse(s)                      only ColorParseError may escape
  c14.Style.parse             Style.parse(s)                      only StyleSyntaxError
  c14.Style.normalize         Style.normalize(s)                  nothing
  c14.Console.get_style       Console().get_style(s)              only MissingStyle
  c14.markup.render           rich.markup.render(s)               only MarkupError
  c14.Console.print           Console(file=StringIO()).print(s)   only MarkupError (markup on, highlight on)
  c14.Console.print:markup_off  ... .print(s, markup=False)       nothing (highlight on)
  c14.Console.print:terminal  same as the first on a forced terminal with the "standard" colour system, so that
                              styles are actually turned into escape codes; only MarkupError
  c14.AnsiDecoder.decode      list(AnsiDecoder().decode(s))       nothing
  c14.Text                    Text(s)                             nothing

The oracle is the statement itself (the set of documented exception types); nothing of rich's parsing is modelled.

Inputs: exhaustive concatenations of tokens of a syntax-fragment alphabet.  The cheap entry points get the full
alphabet to the length of the tier; the expensive ones (Console.print costs ~150 us) get the full alphabet to a
smaller length plus, for longer strings, the sub-alphabet of fragments that are syntax-significant for that entry
point.  The exact lengths are in the returned ``bound``.  The alphabet is checked to be uniquely decodable
(Sardinas-Patterson), so distinct token sequences are distinct strings.  Beyond that: random Unicode strings
(non-ASCII decimal digits, other numeric characters, astral characters, control / format characters, never a lone
surrogate), half of them poured into syntax templates.
"""
from __future__ import annotations

import hashlib
import importlib
import importlib.util
import io
import itertools
import multiprocessing
import os
import random
import time
from typing import Callable, Dict, List, Tuple

MAX_PER_CLAUSE = 3

FULL = ["rgb(", "color(", "#", ",", ")", "1", "256", "\u00b2", "\u0663", "ff", "on", "not", "link", "bold", "[", "]", "/", "\\", "\x1b", ";", "m", " ", "="]
SUB = {
    "style": ["rgb(", "color(", "#", ",", ")", "1", "256", "\u00b2", "ff", "on", "not", "link", "bold", " "],
    "ansi": ["\x1b", "[", "]", ";", "m", "1", "256", "\u00b2", "\u0663", "ff", "\\", " "],
    "print_quick": ["[", "]", "/", "rgb(", ",", ")", "\\"],
    "term": ["[", "]", "color(", "256", ")", "m", "on", " "],
    "color": ["rgb(", "color(", "#", ",", ")", "1", "256", "\u00b2", "\u0663", "ff", " ", "m"],
    "markup": ["[", "]", "/", "\\", "=", "rgb(", ",", ")", "1", "bold", "not", " ", "link", "#"],
    "print": ["[", "]", "/", "rgb(", ",", ")", "1", "\\", "=", "bold"],
}
STRUCTURAL = set("()#,[]/\\\x1b;=")

# group -> clauses
GROUPS = {
    "color": ["c14.Color.parse"],
    "style": ["c14.Style.parse", "c14.Style.normalize", "c14.Console.get_style"],
    "render": ["c14.markup.render"],
    "ansi": ["c14.AnsiDecoder.decode"],
    "text": ["c14.Text"],
    "print": ["c14.Console.print", "c14.Console.print:markup_off"],
    "print_on": ["c14.Console.print"],
    "print_off": ["c14.Console.print:markup_off"],
    "terminal": ["c14.Console.print:terminal"],
}

# plan[tier] = list of (group, alphabet name, min length, max length)
PLAN = {
    "quick": [
        ("color", "full", 0, 4),
        ("color", "color", 5, 6),
        ("render", "full", 0, 4),
        ("render", "markup", 5, 5),
        ("text", "full", 0, 4),
        ("style", "full", 0, 4),
        ("style", "style", 5, 5),
        ("ansi", "full", 0, 4),
        ("ansi", "ansi", 5, 5),
        ("print", "full", 0, 3),
        ("terminal", "full", 0, 3),
        ("print_on", "print_quick", 4, 6),
        ("print_off", "print_quick", 4, 5),
    ],
    "thorough": [
        ("color", "full", 0, 5),
        ("color", "color", 6, 7),
        ("render", "full", 0, 5),
        ("render", "markup", 6, 6),
        ("text", "full", 0, 5),
        ("style", "full", 0, 5),
        ("style", "style", 6, 6),
        ("ansi", "full", 0, 5),
        ("ansi", "ansi", 6, 6),
        ("print", "full", 0, 4),
        ("terminal", "full", 0, 3),
        ("print", "print", 5, 5),
        ("print_on", "print", 6, 6),
        ("terminal", "print", 4, 5),
        ("terminal", "term", 6, 6),
    ],
}
# approximate cost per string (microseconds) to size the jobs
COST = {"color": 1.5, "render": 3.5, "text": 1.5, "style": 16, "ansi": 6, "print": 290, "print_on": 145, "print_off": 145, "terminal": 150}


def uniquely_decodable(code: List[str]) -> bool:
    """Sardinas-Patterson test"""
    code_set = set(code)
    if len(code_set) != len(code):
        return False

    def dangling(a_set, b_set):
        out = set()
        for a in a_set:
            for b in b_set:
                if a != b and b.startswith(a):
                    out.add(b[len(a) :])
        return out

    current = dangling(code_set, code_set)
    seen = set()
    while current:
        if current & code_set:
            return False
        frozen = frozenset(current)
        if frozen in seen:
            break
        seen.add(frozen)
        current = dangling(code_set, current) | dangling(current, code_set)
    return True


# ---------------------------------------------------------------------------------------------------------------
# entry points

_ENV: Dict[str, object] = {}


def _env():
    if not _ENV:
        from rich.ansi import AnsiDecoder
        from rich.color import Color, ColorParseError
        from rich.console import Console
        from rich.errors import MarkupError, MissingStyle, StyleSyntaxError
        from rich.markup import render
        from rich.style import Style
        from rich.text import Text

        buf1, buf2, buf3 = io.StringIO(), io.StringIO(), io.StringIO()
        con = Console(file=buf1, width=80)
        con_off = Console(file=buf2, width=80)
        con_term = Console(file=buf3, width=80, force_terminal=True, color_system="standard")
        bufs = (buf1, buf2, buf3)

        def trim():
            for b in bufs:
                b.seek(0)
                b.truncate(0)

        _ENV.update(
            trim=trim,
            entries={
                "c14.Color.parse": (Color.parse, (ColorParseError,)),
                "c14.Style.parse": (Style.parse, (StyleSyntaxError,)),
                "c14.Style.normalize": (Style.normalize, ()),
                "c14.Console.get_style": (con.get_style, (MissingStyle,)),
                "c14.markup.render": (render, (MarkupError,)),
                "c14.Console.print": (con.print, (MarkupError,)),
                "c14.Console.print:markup_off": (lambda s: con_off.print(s, markup=False), ()),
                "c14.Console.print:terminal": (con_term.print, (MarkupError,)),
                "c14.AnsiDecoder.decode": (lambda s: list(AnsiDecoder().decode(s)), ()),
                "c14.Text": (Text, ()),
            },
        )
    return _ENV


def fresh_call(clause: str, s: str):
    """the entry point on fresh objects (replay form). Returns None or 'Type: message' of an undocumented escape"""
    from rich.ansi import AnsiDecoder
    from rich.color import Color, ColorParseError
    from rich.console import Console
    from rich.errors import MarkupError, MissingStyle, StyleSyntaxError
    from rich.markup import render
    from rich.style import Style
    from rich.text import Text

    table = {
        "c14.Color.parse": (lambda: Color.parse(s), (ColorParseError,)),
        "c14.Style.parse": (lambda: Style.parse(s), (StyleSyntaxError,)),
        "c14.Style.normalize": (lambda: Style.normalize(s), ()),
        "c14.Console.get_style": (lambda: Console(file=io.StringIO()).get_style(s), (MissingStyle,)),
        "c14.markup.render": (lambda: render(s), (MarkupError,)),
        "c14.Console.print": (lambda: Console(file=io.StringIO()).print(s), (MarkupError,)),
        "c14.Console.print:markup_off": (lambda: Console(file=io.StringIO()).print(s, markup=False), ()),
        "c14.Console.print:terminal": (lambda: Console(file=io.StringIO(), width=80, force_terminal=True, color_system="standard").print(s), (MarkupError,)),
        "c14.AnsiDecoder.decode": (lambda: list(AnsiDecoder().decode(s)), ()),
        "c14.Text": (lambda: Text(s), ()),
    }
    fn, allowed = table[clause]
    try:
        fn()
    except allowed:
        return None
    except Exception as e:  # noqa
        return "%s: %s" % (type(e).__name__, e)
    return None


REPLAY = {
    "c14.Color.parse": "Color.parse(s)",
    "c14.Style.parse": "Style.parse(s)",
    "c14.Style.normalize": "Style.normalize(s)",
    "c14.Console.get_style": "Console(file=io.StringIO()).get_style(s)",
    "c14.markup.render": "rich.markup.render(s)",
    "c14.Console.print": "Console(file=io.StringIO()).print(s)",
    "c14.Console.print:markup_off": "Console(file=io.StringIO()).print(s, markup=False)",
    "c14.Console.print:terminal": "Console(file=io.StringIO(), width=80, force_terminal=True, color_system='standard').print(s)",
    "c14.AnsiDecoder.decode": "list(AnsiDecoder().decode(s))",
    "c14.Text": "Text(s)",
}
DOCUMENTED = {
    "c14.Color.parse": "returns or raises ColorParseError",
    "c14.Style.parse": "returns or raises StyleSyntaxError",
    "c14.Style.normalize": "returns",
    "c14.Console.get_style": "returns or raises MissingStyle",
    "c14.markup.render": "returns or raises MarkupError",
    "c14.Console.print": "returns or raises MarkupError",
    "c14.Console.print:markup_off": "returns",
    "c14.Console.print:terminal": "returns or raises MarkupError",
    "c14.AnsiDecoder.decode": "returns",
    "c14.Text": "returns",
}


# ---------------------------------------------------------------------------------------------------------------
# workers


def _new():
    return {"evaluations": 0, "nontrivial": 0, "clauses": {}, "failures": {}, "failing": {}, "samples": [], "hashes": set()}


def _nontrivial(s: str) -> bool:
    for ch in s:
        if ch in STRUCTURAL or ord(ch) > 127:
            return True
    return False


def _run_strings(res, clauses: List[str], strings):
    env = _env()
    entries = env["entries"]
    n = 0
    for clause in clauses:
        fn, allowed = entries[clause]
        count = 0
        bad = res["failures"].setdefault(clause, [])
        for s in strings:
            count += 1
            try:
                fn(s)
            except allowed:
                pass
            except Exception as e:  # noqa - that is the point
                res["failing"][clause] = res["failing"].get(clause, 0) + 1
                if len(bad) < 12:
                    bad.append((s, "%s: %s" % (type(e).__name__, e)))
        res["clauses"][clause] = res["clauses"].get(clause, 0) + count
        n += count
        if not bad:
            del res["failures"][clause]
    res["evaluations"] += n
    return n


_SUFFIX: Dict[Tuple[str, int], List[str]] = {}


def _suffixes(alpha_name: str, k: int) -> List[str]:
    key = (alpha_name, k)
    if key not in _SUFFIX:
        alphabet = FULL if alpha_name == "full" else SUB[alpha_name]
        _SUFFIX[key] = ["".join(p) for p in itertools.product(alphabet, repeat=k)]
    return _SUFFIX[key]


def _work(job):
    res = _new()
    kind = job[0]
    if kind == "enum":
        _, group, alpha_name, length, tail, lo, hi = job
        alphabet = FULL if alpha_name == "full" else SUB[alpha_name]
        suffixes = _suffixes(alpha_name, tail)
        nt_suffix = None
        head = length - tail
        n = len(alphabet)
        clauses = GROUPS[group]
        for index in range(lo, hi):
            parts = []
            x = index
            for _ in range(head):
                x, d = divmod(x, n)
                parts.append(alphabet[d])
            prefix = "".join(reversed(parts))
            strings = [prefix + suf for suf in suffixes]
            _run_strings(res, clauses, strings)
            if _nontrivial(prefix):
                res["nontrivial"] += len(strings) * len(clauses)
            else:
                if nt_suffix is None:
                    nt_suffix = sum(1 for suf in suffixes if _nontrivial(suf))
                res["nontrivial"] += nt_suffix * len(clauses)
            if group.startswith("print") or group == "terminal":
                _env()["trim"]()
        if lo == 0 and length >= 4 and strings:
            res["samples"].append({"entry": clauses[0], "s": strings[len(strings) // 3]})
    elif kind == "random":
        _, seed, count = job
        rng = random.Random(seed)
        strings = []
        for _ in range(count):
            s = random_unicode(rng)
            strings.append(s)
        all_clauses = list(REPLAY)
        _run_strings(res, all_clauses, strings)
        _env()["trim"]()
        for s in strings:
            if _nontrivial(s):
                res["hashes"].add(int.from_bytes(hashlib.blake2b(s.encode("utf-8"), digest_size=8).digest(), "big"))
        res["samples"].append({"entry": "all", "s": strings[0]})
        res["n_clauses"] = len(all_clauses)
    return res


# random Unicode ------------------------------------------------------------------------------------------------
ND = "\u0660\u0661\u0662\u0663\u0669\u06f5\u0966\u0967\u096f\uff10\uff11\uff19\U0001d7ce\U0001d7cf\U0001d7d7\U0001d7ff\u07c0\u07c1\u0e53\U00011066"
NO = "\u00b2\u00b3\u00b9\u2070\u2074\u2080\u2081\u2460\u2469\u2488\u00bd\u00bc\u2153\u2189\u09f4\u3021\u2160\u216b\u3007\u5341\U00010107\U0001f101"
ASTRAL = ["\U0001f600", "\U0001d11e", "\U00010348", "\U0001f1e6\U0001f1fa", "\U0001f468\u200d\U0001f469\u200d\U0001f467", "\U0010ffff", "\U000e0001", "\U0001f3fb", "\U00020000", "\U000f0000"]
CONTROL = [chr(c) for c in range(0, 32)] + list("\x7f\x80\x85\x9b\x9c\x9f\u200b\u200d\u2028\u2029\ufeff\u202e\u0300\u00a0\u3000\u1680\ufffe\uffff")
TEMPLATES = [
    "rgb(%s,%s,%s)", "color(%s)", "#%s", "on %s", "not %s", "link %s", "%s on %s", "\x1b[%sm", "\x1b[%s;%sm", "\x1b[38;2;%s;%s;%sm",
    "\x1b[38;5;%sm", "\x1b[48;5;%s", "\x1b]8;%s;%s\x1b\\", "\x1b]%s\x07", "[%s]x[/%s]", "[%s]", "[/%s]", "[link=%s]%s[/link]", "[rgb(%s,%s,%s)]%s",
    "[color(%s)]%s[/]", "[on %s]", "\\[%s]", "%s=%s", "'%s'", "%s.%s", "0x%s", "%se%s", "<%s %s=%s>", "http://%s", "%s\n%s", "%s\r%s", "%s\t%s",
]  # fmt: skip


def _piece(rng: random.Random) -> str:
    r = rng.random()
    if r < 0.30:
        return rng.choice(FULL)
    if r < 0.45:
        return rng.choice(ND)
    if r < 0.58:
        return rng.choice(NO)
    if r < 0.70:
        return rng.choice(ASTRAL)
    if r < 0.85:
        return rng.choice(CONTROL)
    if r < 0.93:
        return rng.choice("0123456789abcdefABCDEF_-+. ")
    # any non-surrogate code point
    while True:
        cp = rng.randrange(0x110000)
        if not 0xD800 <= cp <= 0xDFFF:
            return chr(cp)


def _chunk(rng: random.Random, hi: int) -> str:
    return "".join(_piece(rng) for _ in range(rng.randint(0, hi)))


def random_unicode(rng: random.Random) -> str:
    if rng.random() < 0.5:
        out = []
        for _ in range(rng.randint(1, 3)):
            t = rng.choice(TEMPLATES)
            out.append(t % tuple(_chunk(rng, 3) for _ in range(t.count("%s"))))
            if rng.random() < 0.4:
                out.append(_chunk(rng, 3))
        return "".join(out)
    return _chunk(rng, 24) or _piece(rng)


# ---------------------------------------------------------------------------------------------------------------


def minimise(clause: str, s: str, kind: str) -> str:
    """greedy character deletion while an undocumented exception of the same type still escapes"""
    budget = 300 if clause.startswith("c14.Console.print") else 1500
    changed = True
    while changed and budget > 0:
        changed = False
        for size in (max(1, len(s) // 2), 2, 1):
            i = 0
            while i < len(s) and budget > 0:
                cand = s[:i] + s[i + size :]
                budget -= 1
                got = fresh_call(clause, cand)
                if got is not None and got.split(":", 1)[0] == kind:
                    s = cand
                    changed = True
                else:
                    i += 1
    return s


def _jobs(tier: str, seed: int):
    jobs = []
    target_us = 1.5e6  # per job
    for group, alpha_name, lo_len, hi_len in PLAN[tier]:
        alphabet = FULL if alpha_name == "full" else SUB[alpha_name]
        n = len(alphabet)
        for length in range(lo_len, hi_len + 1):
            tail = min(length, 3)
            per_prefix = n ** tail
            prefixes = n ** (length - tail)
            cost = per_prefix * COST[group]
            step = max(1, int(target_us / cost))
            for lo in range(0, prefixes, step):
                jobs.append(("enum", group, alpha_name, length, tail, lo, min(prefixes, lo + step)))
    n_random = 12000 if tier == "quick" else 200000
    per = 1000
    for i in range(n_random // per):
        jobs.append(("random", seed * 1000003 + i, per))
    return jobs, n_random


def run(tier: str, seed: int) -> dict:
    t0 = time.time()
    for name, alphabet in [("full", FULL)] + list(SUB.items()):
        if not uniquely_decodable(alphabet):  # pragma: no cover
            raise AssertionError("token alphabet %s is not uniquely decodable" % name)
    jobs, n_random = _jobs(tier, seed)
    # longest jobs first for a better packing
    order = sorted(range(len(jobs)), key=lambda i: -(COST.get(jobs[i][1], 500) if jobs[i][0] == "enum" else 500))
    procs = max(1, min(16, os.cpu_count() or 1))
    if procs > 1:
        with multiprocessing.Pool(procs) as pool:
            results = pool.map(_work, [jobs[i] for i in order], chunksize=1)
    else:  # pragma: no cover
        results = [_work(jobs[i]) for i in order]
    total = _new()
    n_all_clauses = len(REPLAY)
    for r in results:
        total["evaluations"] += r["evaluations"]
        total["nontrivial"] += r["nontrivial"]
        total["hashes"] |= r["hashes"]
        for k, v in r["clauses"].items():
            total["clauses"][k] = total["clauses"].get(k, 0) + v
        for k, v in r["failing"].items():
            total["failing"][k] = total["failing"].get(k, 0) + v
        for clause, lst in r["failures"].items():
            total["failures"].setdefault(clause, []).extend(lst)
        for smp in r["samples"]:
            if len(total["samples"]) < 8:
                total["samples"].append(smp)
    failures = []
    for clause in sorted(total["failures"]):
        cands = sorted(set(total["failures"][clause]), key=lambda t: (len(t[0]), t[0]))
        # one candidate per distinct exception text first (digits and quoted literals blanked), then the rest
        by_kind: Dict[str, Tuple[str, str]] = {}
        for s, msg in cands:
            k = _blank(msg)
            by_kind.setdefault(k, (s, msg))
        ordered = list(by_kind.values()) + [c for c in cands if c not in by_kind.values()]
        seen = set()
        for s, msg in ordered[:10]:
            if len(seen) >= MAX_PER_CLAUSE:
                break
            kind = msg.split(":", 1)[0]
            m = minimise(clause, s, kind)
            if m in seen:
                continue
            seen.add(m)
            observed = fresh_call(clause, m)
            rec = {
                "check": clause,
                "what": "%s lets %s escape" % (REPLAY[clause], (observed or msg).split(":", 1)[0]),
                "input_key": repr(m),
                "input": m,
                "expected": DOCUMENTED[clause],
                "observed": observed if observed is not None else "not reproduced on fresh objects; in the run: " + msg,
            }
            if m != s:
                rec["minimised_from"] = s
            failures.append(rec)
    out = {
        "evaluations": total["evaluations"],
        "distinct_nontrivial": total["nontrivial"] + len(total["hashes"]) * n_all_clauses,
        "rule": "a case is (entry point, string). Strings: every concatenation of tokens of the alphabet given in `bound` for that entry "
        "point (the alphabets are uniquely decodable and the length ranges of the alphabets of one entry point do not overlap, so the "
        "enumerated cases are distinct by construction), then random Unicode strings (distinct by hash, fed to all %d entry points). "
        "Non-trivial = the string contains a structural character ( ) # , [ ] / \\ ESC ; = or a non-ASCII character." % n_all_clauses,
        "bound": "full alphabet %r; sub-alphabets %r; plan (entry group, alphabet, min..max tokens): %r; groups %r; %d random Unicode "
        "strings of <= 24 pieces or <= 3 syntax templates with <= 3-piece holes" % (FULL, {k: SUB[k] for k in SUB}, PLAN[tier], GROUPS, n_random),
        "samples": total["samples"],
        "clauses": dict(sorted(total["clauses"].items())),
        "failures": failures,
        "failing_cases": dict(sorted(total["failing"].items())),
        "seconds": round(time.time() - t0, 2),
        "processes": procs,
    }
    out["seconds_strings"] = out["seconds"]
    _decoded_text_family(out)
    _merge_trees(out, tier, seed)
    out["seconds"] = round(time.time() - t0, 2)
    return out


def _decoded_text_family(out: dict) -> None:
    """Directed family (added by the maintainer of /verif): what the decoder returns must itself be printable —
    every SGR sequence of up to 4 parameters over a small alphabet (incl. out-of-range colour indices and
    components) is decoded and the resulting Text printed on every colour system; nothing may raise."""
    import itertools

    from rich.ansi import AnsiDecoder
    from rich.console import Console

    params = ["", "0", "1", "38", "48", "5", "2", "255", "256", "300", "999"]
    n = bad = 0
    consoles = [Console(file=io.StringIO(), width=20, force_terminal=True, color_system=cs, legacy_windows=False, _environ={})
                for cs in (None, "standard", "256", "truecolor", "windows")]
    for k in range(1, 5):
        for combo in itertools.product(params, repeat=k):
            s = "\x1b[" + ";".join(combo) + "mtext\x1b[0m tail"
            n += 1
            try:
                texts = list(AnsiDecoder().decode(s))
                for con in consoles:
                    for t in texts:
                        con.print(t)
            except Exception as e:  # noqa
                if bad < 3:
                    bad += 1
                    out["failures"].append({"check": "c14.AnsiDecoder.decoded_text_prints", "what": "decoding / printing the decoded Text raised %s" % type(e).__name__,
                                            "input_key": repr(s), "input": s, "expected": "no exception", "observed": "%s: %s" % (type(e).__name__, e)})
    # OSC sequences: every body of up to 5 symbols over {"8", ";", "u", "id=1", "0"} (well-formed hyperlinks, hyperlinks
    # without the second ';', empty bodies, other OSC numbers), terminated by ST or BEL or left unterminated
    osc_alpha = ["8", ";", "u", "id=1", "0"]
    for k in range(0, 6):
        for combo in itertools.product(osc_alpha, repeat=k):
            for end in ("\x1b\\", "\x07", ""):
                s = "a\x1b]" + "".join(combo) + end + "b\x1b]8;;\x1b\\c"
                n += 1
                try:
                    texts = list(AnsiDecoder().decode(s))
                    for t in texts:
                        consoles[3].print(t)
                except Exception as e:  # noqa
                    if bad < 3:
                        bad += 1
                        out["failures"].append({"check": "c14.AnsiDecoder.decoded_text_prints", "what": "decoding / printing the decoded Text raised %s" % type(e).__name__,
                                                "input_key": repr(s), "input": s, "expected": "no exception", "observed": "%s: %s" % (type(e).__name__, e)})
    out["clauses"]["c14.AnsiDecoder.decoded_text_prints"] = n
    out["evaluations"] += n


def _blank(msg: str) -> str:
    import re

    return re.sub(r"'[^']*'|\"[^\"]*\"|\d+", "_", msg)


def _merge_trees(out: dict, tier: str, seed: int) -> None:
    """merge the renderable-tree half when vf/rtc/props/c14_trees.py exists; silently skip when it does not"""
    name = __name__.rsplit(".", 1)[0] + ".c14_trees" if "." in __name__ else "c14_trees"
    try:
        spec = importlib.util.find_spec(name)
    except (ImportError, ValueError):
        spec = None
    if spec is None:
        return
    try:
        mod = importlib.import_module(name)
        r = mod.run_trees(tier, seed)
    except Exception as e:  # noqa
        out["failures"].append(
            {"check": "c14.trees:harness", "what": "c14_trees.run_trees raised", "input_key": "run_trees(%r, %r)" % (tier, seed), "input": [tier, seed], "expected": "a result dict", "observed": "%s: %s" % (type(e).__name__, e)}
        )
        return
    if not isinstance(r, dict):
        return
    out["evaluations"] += int(r.get("evaluations", 0))
    out["distinct_nontrivial"] += int(r.get("distinct_nontrivial", 0))
    for k, v in (r.get("clauses") or {}).items():
        out["clauses"][k] = out["clauses"].get(k, 0) + v
    out["failures"].extend(r.get("failures") or [])
    out["samples"].extend((r.get("samples") or [])[:4])
    if r.get("rule"):
        out["rule"] += " || trees: " + str(r["rule"])
    if r.get("bound"):
        out["bound"] += " || trees: " + str(r["bound"])
    for k, v in r.items():
        if k not in ("evaluations", "distinct_nontrivial", "clauses", "failures", "samples", "rule", "bound"):
            out.setdefault("trees", {})[k] = v
