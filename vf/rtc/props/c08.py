"""C08 - Framing renderables draw exact rectangles around intact content (bounded run-time check).

Clauses, written from the property text:

  (a) c08.frame_rectangle      Panel / Padding / Align render as exact rectangles: all lines of equal cell width,
                               the full available width when expanding (for Align: when `pad`);
  (b) c08.frame_child_intact   the child's own lines - the child rendered ALONE at the inner width is the oracle -
                               appear unchanged and in order inside the frame, and the frame adds exactly the
                               requested border and padding cells (also Constrain / Styled: pass-through);
      c08.frame_border         top / bottom border lines are the box's, the title sits where `title_align` says;
      c08.frame_pad_style      every cell the frame adds (border, padding, fill) carries the requested style;
  (c) c08.rule_fills_width     a Rule is one line of exactly the width given (wide `characters` too);
      c08.bar_width            Bar / ProgressBar never exceed the width, and fill it exactly when colour is
                               available (Bar and the pulse animation always);
  (d) c08.columns_once_in_order  every item of Columns exactly once, in row-first / column-first / right-to-left order;
      c08.tree_depth_first     every visible Tree node exactly once, depth-first, its label (rendered alone at
                               W - 4*depth as the oracle) behind a prefix of exactly four cells per level;
      c08.tree_guides          the prefix is made of guide glyphs of the right kind (fork/end/continue/blank).

Cell widths come from vf.rtc.specnative (linear expansion of the width table), never from rich.cells.
"""
from __future__ import annotations

import copy
import hashlib
import inspect
import io
import json
import os
import random
import time
from multiprocessing import get_context
from typing import Any, Dict, List, Optional, Tuple

from vf.rtc.specnative import width_table

MAX_FAIL = 3

BOXES = ["ROUNDED", "ASCII", "SQUARE", "HEAVY", "DOUBLE", "SIMPLE", "MINIMAL", "HORIZONTALS", "HEAVY_EDGE", "ASCII2"]
STYLES = [None, None, "on blue", "red on white", "bold"]
PADS = [0, 1, (0, 1), (1, 2), (0, 2, 1, 0), (2, 0, 0, 3), (1, 1, 1, 1), (0, 3)]
WORDS_N = "abcdefghijklmnopqrstuvwxyzABCDEFGHIJKLMNOPQRSTUVWXYZ0123456789"
WIDE = "漢字仮名交換日本語中文한국어テスト😀🙂🚀🎉"
ZERO = ["é", "a‍b", "ñ", "x️"]
RULE_CHARS = ["─", "━", "-", "=*", "＝", "━＝", "\U0001f642", "a漢b"]
GUIDE_KIND = {}
for _g, _k in (("    ", "S"), ("|   ", "C"), ("+-- ", "F"), ("`-- ", "E"), ("│   ", "C"), ("├── ", "F"), ("└── ", "E"),
               ("┃   ", "C"), ("┣━━ ", "F"), ("┗━━ ", "E"), ("║   ", "C"), ("╠══ ", "F"), ("╚══ ", "E")):
    GUIDE_KIND[_g] = _k
ASCII_GUIDES = {"    ", "|   ", "+-- ", "`-- "}


def _cw(ch: str) -> int:
    return width_table()[ord(ch)]


def _cells(s: str) -> int:
    t = width_table()
    return sum(t[ord(c)] for c in s)


def _unpack(pad) -> Tuple[int, int, int, int]:
    if isinstance(pad, int):
        return (pad, pad, pad, pad)
    pad = tuple(pad)
    if len(pad) == 1:
        return (pad[0],) * 4
    if len(pad) == 2:
        return (pad[0], pad[1], pad[0], pad[1])
    return pad  # type: ignore


class _AsciiIO(io.StringIO):
    encoding = "ascii"


def _console(W: int, color: bool = True, ascii_only: bool = False):
    from rich.console import Console

    return Console(width=W, height=25, file=_AsciiIO() if ascii_only else io.StringIO(),
                   color_system="truecolor" if color else None, force_terminal=True, legacy_windows=False,
                   _environ={})


def _render(console, renderable, width: Optional[int] = None):
    """-> (lines as lists of (char, style), whether the output ended with a new line)"""
    return _render_with(console, renderable, console.options if width is None else console.options.update(width=width))


def _render_with(console, renderable, options):
    lines: List[List[Tuple[str, Any]]] = [[]]
    for seg in console.render(renderable, options):
        if seg.is_control:
            continue
        parts = seg.text.split("\n")
        for i, part in enumerate(parts):
            if i:
                lines.append([])
            lines[-1].extend((ch, seg.style) for ch in part)
    ended = not lines[-1]
    if ended:
        lines.pop()
    return lines, ended


def _txt(line) -> str:
    return "".join(ch for ch, _s in line)


def _alone(console, renderable, width: int, pad: bool) -> List[str]:
    """the oracle for a child: the child rendered alone at `width`"""
    lines = console.render_lines(renderable, console.options.update(width=width), pad=pad)
    return ["".join(seg.text for seg in line if not seg.is_control) for line in lines]


# --------------------------------------------------------------------------------------------------------
# renderable descriptions


def _text_min(s: str) -> int:
    return 2 if any(_cw(c) == 2 for c in s) else 1


def smin(spec: Dict[str, Any]) -> int:
    """structural minimum: borders + padding + one cell (two with a double-width character) per innermost column"""
    k = spec["k"]
    if k == "text":
        return _text_min(spec["s"])
    if k == "table":
        n = len(spec["rows"][0])
        total = 2 + (n - 1)
        for j in range(n):
            total += 2 + max(_text_min(r[j]) for r in spec["rows"] + ([spec["head"]] if spec.get("head") else []))
        return total
    if k == "panel":
        _t, r, _b, l = _unpack(spec["padding"])
        base = 2 + l + r + smin(spec["child"])
        if spec.get("title"):
            base = max(base, 4 + 2 + _text_min(spec["title"]))
        return base
    if k == "padding":
        _t, r, _b, l = _unpack(spec["pad"])
        return l + r + smin(spec["child"])
    if k in ("align", "constrain", "styled"):
        return smin(spec["child"])
    raise ValueError(k)


def _res(value, W: int, floor: int) -> Optional[int]:
    if value is None:
        return None
    if isinstance(value, dict):
        return max(floor, W - value["rel"])
    return int(value)


def mk(spec: Dict[str, Any], W: int):
    """build the renderable (fresh objects on every call)"""
    from rich import box as rbox
    from rich.align import Align
    from rich.constrain import Constrain
    from rich.padding import Padding
    from rich.panel import Panel
    from rich.styled import Styled
    from rich.table import Table
    from rich.text import Text

    k = spec["k"]
    if k == "text":
        return Text(spec["s"], style=spec.get("style") or "", justify=spec.get("justify"))
    if k == "table":
        head = spec.get("head")
        t = Table(*head, expand=bool(spec.get("expand"))) if head else Table(show_header=False, expand=bool(spec.get("expand")))
        if not head:
            for _ in spec["rows"][0]:
                t.add_column()
        for r in spec["rows"]:
            t.add_row(*r)
        return t
    child = mk(spec["child"], W)
    floor = smin(spec)
    if k == "panel":
        pad = spec["padding"]
        title = spec.get("title")
        if title and len(title) % 2 == 0:
            from rich.text import Text as _T

            title = _T(title)  # a caller-owned Text object as title (every other title): must not be modified
        return Panel(child, getattr(rbox, spec["box"]), title=title, title_align=spec.get("title_align", "center"),
                     expand=spec["expand"], style=spec.get("style") or "none", width=_res(spec.get("width"), W, floor),
                     padding=pad if isinstance(pad, int) else tuple(pad))
    if k == "padding":
        pad = spec["pad"]
        return Padding(child, pad if isinstance(pad, int) else tuple(pad), style=spec.get("style") or "none",
                       expand=spec["expand"])
    if k == "align":
        kw = {}
        if spec.get("vertical") is not None:
            kw["vertical"] = spec["vertical"]
        return Align(child, spec["align"], style=spec.get("style"), pad=spec["pad"], width=_res(spec.get("width"), W, floor), **kw)
    if k == "constrain":
        return Constrain(child, _res(spec.get("width"), W, floor))
    if k == "styled":
        return Styled(child, spec["style"])
    raise ValueError(k)


def _want(style_name: Optional[str]) -> Dict[str, Any]:
    if not style_name or style_name == "none":
        return {}
    from rich.style import Style

    st = Style.parse(style_name)
    out = {}
    if st.bgcolor is not None:
        out["bgcolor"] = st.bgcolor
    if st.color is not None:
        out["color"] = st.color
    if st.bold is not None:
        out["bold"] = st.bold
    return out


def _style_ok(style, want: Dict[str, Any]) -> bool:
    if not want:
        return True
    if style is None:
        return False
    return all(getattr(style, k) == v for k, v in want.items())


class _Out:
    def __init__(self):
        self.clauses: Dict[str, int] = {}
        self.bad: List[Dict[str, Any]] = []

    def hit(self, name):
        self.clauses[name] = self.clauses.get(name, 0) + 1

    def fail(self, name, what, expected, observed, sub=""):
        self.bad.append({"check": name, "sub": sub, "what": what, "expected": expected, "observed": observed})


# --------------------------------------------------------------------------------------------------------
# (a) (b): frames


def _title_tops(bx, title: str, align: str, w: int) -> Optional[List[str]]:
    """the acceptable top lines of a titled panel, or None when the title does not fit in full"""
    shown = " " + title.replace("\n", " ") + " "
    room = w - 4
    excess = room - _cells(shown)
    if excess < 0:
        return None

    def line(left):
        return bx.top_left + bx.top + bx.top * left + shown + bx.top * (excess - left) + bx.top + bx.top_right

    if align == "left":
        return [line(0)]
    if align == "right":
        return [line(excess)]
    return sorted({line(excess // 2), line(excess - excess // 2)})


def check_frame(spec: Dict[str, Any], W: int) -> Tuple[Dict[str, int], List[Dict[str, Any]]]:
    out = _Out()
    console = _console(W)
    k = spec["k"]
    obj = mk(spec, W)
    try:
        if k == "panel" and spec.get("title"):
            # the same object measured and rendered before: a frame must come out the same every time
            from rich.measure import Measurement as _M

            _M.get(console, obj, W)
            _render(console, obj)
        lines, ended = _render(console, obj)
    except Exception as e:
        out.hit("c08.renders")
        out.fail("c08.renders", "rendering raised %s" % type(e).__name__, "rendered output", repr(e)[:200], k)
        return out.clauses, out.bad
    texts = [_txt(l) for l in lines]
    lw = [_cells(t) for t in texts]
    child_spec = spec["child"]
    floor = smin(spec)
    if k in ("panel", "padding") and texts and len(set(lw)) == 1:
        # (transparent wrappers - styled, constrain, align without pad - hand the justification to their text, whose
        # lines then legitimately grow to the full width; Panel and Padding own their width)
        # the same frame under render options that carry a justification (console.print(x, justify=...), a table or
        # columns cell): justification moves text inside the frame, the frame stays a rectangle of the same width
        j = ("left", "center", "right", "full")[(W + len(texts) + len(texts[0])) % 4]
        out.hit("c08.frame_rectangle.under_justify")
        try:
            jl, _e = _render_with(console, mk(spec, W), console.options.update(justify=j))
            jw = [_cells(_txt(l)) for l in jl]
            if len(set(jw)) != 1 or jw[0] != lw[0]:
                out.fail("c08.frame_rectangle.under_justify", "%s rendered under options.justify=%r: line widths %s, %d with the default justification"
                         % (k, j, sorted(set(jw)), lw[0]), [lw[0]], {"widths": jw, "lines": [_txt(l) for l in jl][:8]}, k + ".justify")
        except Exception as e:
            out.fail("c08.frame_rectangle.under_justify", "rendering under options.justify=%r raised %s" % (j, type(e).__name__), "rendered output", repr(e)[:200], k + ".justify")

    def child():
        return mk(child_spec, W)

    def cmp_lines(expected: List[str], name="c08.frame_child_intact", what="frame lines differ from border + padding + the child's own lines"):
        if len(expected) != len(texts):
            out.fail(name, "%s: %d lines, expected %d" % (k, len(texts), len(expected)), expected[:12], texts[:12], k + ".count")
            return False
        for i, (e, o) in enumerate(zip(expected, texts)):
            if e != o:
                out.fail(name, "%s line %d: %s" % (k, i, what), e, o, k)
                return False
        return True

    def style_check(mask_own: List[Tuple[int, int]], want_name: Optional[str]):
        """mask_own[i] = (start, end) string indices of the child's own characters on line i (start == end: none)"""
        want = _want(want_name)
        if not want:
            return
        out.hit("c08.frame_pad_style")
        for i, line in enumerate(lines):
            a, b = mask_own[i]
            for x, (ch, st) in enumerate(line):
                if a <= x < b:
                    continue
                if not _style_ok(st, want):
                    out.fail("c08.frame_pad_style",
                             "%s(style=%r): cell added by the frame (line %d, index %d, %r) has style %s" % (k, want_name, i, x, ch, st),
                             want_name, {"line": texts[i], "style": str(st), "index": x}, k)
                    return

    if k == "panel":
        from rich import box as rbox

        bx = getattr(rbox, spec["box"])
        pt, pr, pb, pl = _unpack(spec["padding"])
        given = _res(spec.get("width"), W, floor)
        avail = W if given is None else min(W, given)
        out.hit("c08.frame_rectangle")
        if not texts or len(set(lw)) != 1:
            out.fail("c08.frame_rectangle", "panel lines of different cell widths", "equal widths", {"widths": lw, "lines": texts[:12]}, k)
            return out.clauses, out.bad
        w = lw[0]
        if w > avail or (spec["expand"] and w != avail):
            # own name for "a titled panel grows beyond its explicit `width`", so that it cannot crowd out other causes
            name = "c08.frame_rectangle"
            if spec.get("title") and given is not None and avail < w <= W:
                from vf.rtc.specnative import cells as _title_cells

                if avail < _title_cells(spec["title"]) + 6:
                    # below the structural minimum of a *titled* panel: corners (2) + one border cell each
                    # side (2) + the title with its two spaces — outside the property's precondition
                    out.hit("c08.precondition.title_needs_room")
                    return out.clauses, out.bad
                name = "c08.frame_rectangle.title_vs_width"
                out.hit(name)
            out.fail(name, "panel is %d cells wide, available %d = min(console %d, width %s) (expand=%s, title %r)"
                     % (w, avail, W, given, spec["expand"], spec.get("title")),
                     avail, {"width": w, "lines": texts[:6]}, k + (".title" if spec.get("title") else ""))
            return out.clauses, out.bad
        inner = w - 2 - pl - pr
        if inner < 1:
            if spec["expand"]:
                out.fail("c08.frame_rectangle", "no room for the child", ">=1", inner, k)
            return out.clauses, out.bad
        own = _alone(console, child(), inner, pad=False)
        full = _alone(console, child(), inner, pad=True)
        blank = bx.mid_left + " " * (w - 2) + bx.mid_right
        body = [blank] * pt + [bx.mid_left + " " * pl + c + " " * pr + bx.mid_right for c in full] + [blank] * pb
        out.hit("c08.frame_child_intact")
        if len(texts) != len(body) + 2:
            out.fail("c08.frame_child_intact", "panel has %d lines, expected %d (child %d + padding %d + 2 borders)"
                     % (len(texts), len(body) + 2, len(full), pt + pb), ["<top>"] + body[:10] + ["<bottom>"], texts[:12], k + ".count")
            return out.clauses, out.bad
        for i, (e, o) in enumerate(zip(body, texts[1:-1])):
            if e != o:
                out.fail("c08.frame_child_intact", "panel line %d differs from border + padding + the child's own line" % (i + 1), e, o, k)
                return out.clauses, out.bad
        out.hit("c08.frame_border")
        bottom = bx.bottom_left + bx.bottom * (w - 2) + bx.bottom_right
        if texts[-1] != bottom:
            out.fail("c08.frame_border", "panel bottom line", bottom, texts[-1], k)
        if spec.get("title"):
            tops = _title_tops(bx, spec["title"], spec.get("title_align", "center"), w)
            if tops is None:
                if not (texts[0].startswith(bx.top_left) and texts[0].endswith(bx.top_right)):
                    out.fail("c08.frame_border", "panel top line (title too long to show in full)", bx.top_left + "..." + bx.top_right, texts[0], k + ".title")
            elif texts[0] not in tops:
                out.fail("c08.frame_border", "panel top line with title aligned %s" % spec.get("title_align", "center"), tops, texts[0], k + ".title")
        else:
            top = bx.top_left + bx.top * (w - 2) + bx.top_right
            if texts[0] != top:
                out.fail("c08.frame_border", "panel top line", top, texts[0], k)
        mask = [(0, 0)] + [(0, 0)] * pt + [(1 + pl, 1 + pl + len(c)) for c in own] + [(0, 0)] * pb + [(0, 0)]
        if len(own) == len(full):
            style_check(mask, spec.get("style"))
        return out.clauses, out.bad

    if k == "padding":
        pt, pr, pb, pl = _unpack(spec["pad"])
        out.hit("c08.frame_rectangle")
        if not texts or len(set(lw)) != 1:
            out.fail("c08.frame_rectangle", "padding lines of different cell widths", "equal widths", {"widths": lw, "lines": texts[:12]}, k)
            return out.clauses, out.bad
        w = lw[0]
        if w > W or (spec["expand"] and w != W):
            out.fail("c08.frame_rectangle", "padding is %d cells wide, available %d (expand=%s)" % (w, W, spec["expand"]), W,
                     {"width": w, "lines": texts[:6]}, k)
            return out.clauses, out.bad
        inner = w - pl - pr
        if inner < 1:
            if spec["expand"]:
                out.fail("c08.frame_rectangle", "no room for the child", ">=1", inner, k)
            return out.clauses, out.bad
        own = _alone(console, child(), inner, pad=False)
        full = _alone(console, child(), inner, pad=True)
        body = [" " * w] * pt + [" " * pl + c + " " * pr for c in full] + [" " * w] * pb
        out.hit("c08.frame_child_intact")
        if cmp_lines(body) and len(own) == len(full):
            mask = [(0, 0)] * pt + [(pl, pl + len(c)) for c in own] + [(0, 0)] * pb
            style_check(mask, spec.get("style"))
        return out.clauses, out.bad

    if k == "align":
        given = _res(spec.get("width"), W, floor)
        limit = W if given is None else min(W, given)
        pad = spec["pad"]
        align = spec["align"]
        out.hit("c08.frame_rectangle")
        if not texts:
            out.fail("c08.frame_rectangle", "align produced no line", ">=1 line", texts, k)
            return out.clauses, out.bad
        if max(lw) > W:
            out.fail("c08.frame_rectangle", "align line wider than available", W, {"widths": lw}, k)
            return out.clauses, out.bad
        if pad and (len(set(lw)) != 1 or lw[0] != W):
            out.fail("c08.frame_rectangle", "Align(%s, pad=True) lines are %s cells wide, available %d" % (align, sorted(set(lw)), W), W,
                     {"widths": lw, "lines": texts[:8]}, k + "." + align)
            return out.clauses, out.bad
        if not pad and len(set(lw)) != 1:
            out.fail("c08.frame_rectangle", "Align(%s, pad=False) lines of different widths" % align, "equal widths",
                     {"widths": lw, "lines": texts[:8]}, k + "." + align)
            return out.clauses, out.bad
        out.hit("c08.frame_child_intact")
        # the child block may have been rendered at any inner width up to `limit` (the measured one); it must be
        # reproduced exactly for one of them, at the offset the alignment prescribes
        found = None
        tried = {}
        for iw in range(limit, 0, -1):
            own = _alone(console, child(), iw, pad=False)
            key = tuple(own)
            if key in tried:
                continue
            tried[key] = iw
            bw = max([_cells(o) for o in own] + [0])
            if bw > iw:
                continue
            excess = W - bw
            if align == "left":
                lefts = [0]
            elif align == "right":
                lefts = [excess]
            else:
                lefts = sorted({excess // 2, excess - excess // 2})
            for left in lefts:
                right = (excess - left) if pad else 0
                exp = [" " * left + o + " " * (bw - _cells(o)) + " " * right for o in own]
                if exp == texts:
                    found = (iw, left, own, bw)
                    break
            if found:
                break
        if not found:
            own = _alone(console, child(), limit, pad=False)
            out.fail("c08.frame_child_intact",
                     "Align(%s): output is not the child's own lines (rendered alone at any width <= %d) at the aligned offset" % (align, limit),
                     {"child_alone_at_%d" % limit: own[:8]}, texts[:8], k + "." + align)
            return out.clauses, out.bad
        iw, left, own, bw = found
        mask = [(left, left + len(o)) for o in own]
        style_check(mask, spec.get("style"))
        return out.clauses, out.bad

    if k == "constrain":
        given = _res(spec.get("width"), W, floor)
        iw = W if given is None else min(W, given)
        out.hit("c08.frame_child_intact")
        exp_lines, _e = _render(console, child(), iw)
        cmp_lines([_txt(l) for l in exp_lines], what="Constrain output differs from the child rendered alone at min(width, available)")
        return out.clauses, out.bad

    if k == "styled":
        out.hit("c08.frame_child_intact")
        exp_lines, _e = _render(console, child(), W)
        if cmp_lines([_txt(l) for l in exp_lines], what="Styled output differs from the child rendered alone"):
            want = _want(spec["style"])
            out.hit("c08.frame_pad_style")
            for i, (line, eline) in enumerate(zip(lines, exp_lines)):
                for x, ((ch, st), (_c, est)) in enumerate(zip(line, eline)):
                    # the style is applied underneath the child's own: attributes the child sets itself win
                    mine = {kk: v for kk, v in want.items() if est is None or getattr(est, kk) is None}
                    if not _style_ok(st, mine):
                        out.fail("c08.frame_pad_style", "Styled(%r): cell (line %d, index %d) has style %s" % (spec["style"], i, x, st),
                                 spec["style"], {"line": texts[i], "style": str(st)}, k)
                        return out.clauses, out.bad
        return out.clauses, out.bad
    raise ValueError(k)


# --------------------------------------------------------------------------------------------------------
# (c): rule, bar, progress bar


def check_rule(spec: Dict[str, Any], W: int):
    from rich.rule import Rule
    from rich.text import Text

    out = _Out()
    console = _console(W)
    title = spec.get("title") or ""
    rule = Rule(Text(title) if (title and spec.get("as_text")) else title, characters=spec["characters"], align=spec["align"])
    out.hit("c08.rule_fills_width")
    try:
        lines, ended = _render(console, rule)
    except Exception as e:
        out.fail("c08.rule_fills_width", "rendering raised %s" % type(e).__name__, "one line of %d cells" % W, repr(e)[:200], "raise")
        return out.clauses, out.bad
    texts = [_txt(l) for l in lines]
    if len(texts) != 1 or _cells(texts[0]) != W:
        out.fail("c08.rule_fills_width", "Rule(characters=%r, align=%s%s) is %s cells wide (%d line(s)), width given %d"
                 % (spec["characters"], spec["align"], ", titled" if title else "", [_cells(t) for t in texts], len(texts), W),
                 "one line of %d cells" % W, texts[:4], ("title" if title else "plain") + (".wide" if _cells(spec["characters"]) != len(spec["characters"]) else ""))
    return out.clauses, out.bad


def check_bar(spec: Dict[str, Any], W: int):
    out = _Out()
    color = spec.get("color", True)
    console = _console(W, color=color)
    given = spec.get("width")
    target = W if not given else min(given, W)
    out.hit("c08.bar_width")
    try:
        if spec["k"] == "bar":
            from rich.bar import Bar

            obj = Bar(spec["size"], spec["begin"], spec["end"], width=given)
            exact = True
        else:
            from rich.progress_bar import ProgressBar

            obj = ProgressBar(total=spec["total"], completed=spec["completed"], width=given, pulse=spec["pulse"],
                              animation_time=spec.get("time", 0.0))
            exact = color or spec["pulse"]
        lines, ended = _render(console, obj)
    except Exception as e:
        out.fail("c08.bar_width", "rendering raised %s" % type(e).__name__, "<= %d cells" % target, repr(e)[:200], spec["k"] + ".raise")
        return out.clauses, out.bad
    texts = [_txt(l) for l in lines]
    ws = [_cells(t) for t in texts]
    if len(texts) > 1 or (ws and ws[0] > target) or (exact and (not ws or ws[0] != target)):
        out.fail("c08.bar_width", "%s is %s cells wide, width %d (%s)" % (spec["k"], ws, target, "must fill exactly" if exact else "must not exceed"),
                 target, texts[:3], spec["k"] + (".pulse" if spec.get("pulse") else ""))
    return out.clauses, out.bad


# --------------------------------------------------------------------------------------------------------
# (d): columns, tree


def _item_obj(kind: str, s: str):
    from rich.panel import Panel
    from rich.text import Text

    if kind == "panel":
        return Panel(Text(s), expand=False)
    if kind == "str":
        return s
    return Text(s)


def check_columns(spec: Dict[str, Any], W: int):
    from rich.columns import Columns

    out = _Out()
    console = _console(W)
    items: List[str] = spec["items"]
    pad = spec["padding"]
    cols = Columns([_item_obj(spec["kind"], s) for s in items], padding=pad if isinstance(pad, int) else tuple(pad),
                   expand=spec["expand"], equal=spec["equal"], column_first=spec["column_first"],
                   right_to_left=spec["right_to_left"], align=spec["align"])
    name = "c08.columns_once_in_order"
    out.hit(name)
    mode = ("column_first" if spec["column_first"] else "row_first") + (".rtl" if spec["right_to_left"] else "")
    try:
        lines, ended = _render(console, cols)
    except Exception as e:
        out.fail(name, "rendering raised %s" % type(e).__name__, "rendered columns", repr(e)[:200], "raise")
        return out.clauses, out.bad
    texts = [_txt(l) for l in lines]
    owner: Dict[str, int] = {}
    for i, s in enumerate(items):
        for ch in s:
            if not ch.isspace():
                owner[ch] = i
    seen: Dict[str, int] = {}
    first: Dict[int, Tuple[int, int]] = {}
    seq: Dict[int, List[str]] = {}
    for li, t in enumerate(texts):
        off = 0
        for ch in t:
            if ch in owner:
                seen[ch] = seen.get(ch, 0) + 1
                first.setdefault(owner[ch], (li, off))
                seq.setdefault(owner[ch], []).append(ch)
            off += _cw(ch)
    wrong = [ch for ch in owner if seen.get(ch, 0) != 1]
    if wrong:
        out.fail(name, "Columns(%s): %d marker character(s) not shown exactly once (e.g. %r x%d of item %d)"
                 % (mode, len(wrong), wrong[0], seen.get(wrong[0], 0), owner[wrong[0]]), "every item exactly once", texts[:16], "once")
        return out.clauses, out.bad
    # grid position of every item: row = rank of its first line among the first lines, column = rank within that line
    row_lines = sorted({first[i][0] for i in first})
    grid: Dict[int, Tuple[int, int]] = {}
    per_row: List[List[int]] = []
    for r, li in enumerate(row_lines):
        here = sorted([i for i in first if first[i][0] == li], key=lambda i: first[i][1])
        if spec["right_to_left"]:
            here = here[::-1]
        per_row.append(here)
        for c, i in enumerate(here):
            grid[i] = (r, c)
    n = len(items)
    ncols = max(len(r) for r in per_row) if per_row else 0
    if not n:
        return out.clauses, out.bad
    if spec["column_first"]:
        lengths = [n // ncols + (1 if c < n % ncols else 0) for c in range(ncols)]
        exp = {}
        idx = 0
        for c in range(ncols):
            for r in range(lengths[c]):
                exp[idx] = (r, c)
                idx += 1
    else:
        exp = {i: (i // ncols, i % ncols) for i in range(n)}
    if grid != exp:
        diff = next(i for i in range(n) if grid.get(i) != exp.get(i))
        out.fail(name, "Columns(%s): item %d sits at (row, column) %s, expected %s with %d columns"
                 % (mode, diff, grid.get(diff), exp.get(diff), ncols),
                 {"order": [[i for i in range(n) if exp[i][0] == r] for r in range(max(v[0] for v in exp.values()) + 1)]},
                 {"order": per_row, "lines": texts[:16]}, mode)
    return out.clauses, out.bad


def _tree_nodes(node: Dict[str, Any], depth=0, lasts=()):
    """visible nodes in depth-first order: (node, depth, tuple of is-last flags for levels 1..depth)"""
    yield node, depth, lasts
    if node["expanded"]:
        ch = node["children"]
        for i, c in enumerate(ch):
            yield from _tree_nodes(c, depth + 1, lasts + (i == len(ch) - 1,))


def _all_nodes(node):
    yield node
    for c in node["children"]:
        yield from _all_nodes(c)


def _label_obj(label: Dict[str, Any]):
    from rich.panel import Panel
    from rich.text import Text

    if label["k"] == "panel":
        return Panel(Text(label["s"]))
    if label["k"] == "str":
        return label["s"]
    return Text(label["s"])


def _label_min(label) -> int:
    return _text_min(label["s"]) + (4 if label["k"] == "panel" else 0)


def tree_smin(spec) -> int:
    return max(4 * d + _label_min(n["label"]) for n, d, _l in _tree_nodes(spec["root"]))


def mk_tree(spec):
    from rich.tree import Tree

    def build(node, parent):
        kw = {"expanded": node["expanded"]}
        if node.get("guide_style"):
            kw["guide_style"] = node["guide_style"]
        if node.get("style"):
            kw["style"] = node["style"]
        t = Tree(_label_obj(node["label"]), **kw) if parent is None else parent.add(_label_obj(node["label"]), **kw)
        for c in node["children"]:
            build(c, t)
        return t

    return build(spec["root"], None)


def check_tree(spec: Dict[str, Any], W: int):
    out = _Out()
    ascii_only = bool(spec.get("ascii"))
    console = _console(W, ascii_only=ascii_only)
    name = "c08.tree_depth_first"
    out.hit(name)
    try:
        lines, ended = _render(console, mk_tree(spec))
    except Exception as e:
        out.fail(name, "rendering raised %s" % type(e).__name__, "rendered tree", repr(e)[:200], "raise")
        return out.clauses, out.bad
    texts = [_txt(l) for l in lines]
    visible = list(_tree_nodes(spec["root"]))
    hidden_chars = set()
    vis_ids = {id(n) for n, _d, _l in visible}
    for n in _all_nodes(spec["root"]):
        if id(n) not in vis_ids:
            hidden_chars |= {c for c in n["label"]["s"] if not c.isspace()}
    pos = 0
    guides_bad = None
    for node, d, lasts in visible:
        own = _alone(console, _label_obj(node["label"]), W - 4 * d, pad=True)
        for j, o in enumerate(own):
            if pos >= len(texts):
                out.fail(name, "tree output ends before node %r (depth %d)" % (node["label"]["s"], d), o, {"lines": texts[:20]}, "short")
                return out.clauses, out.bad
            t = texts[pos]
            # prefix = the characters covering the first 4*d cells
            off = 0
            x = 0
            while x < len(t) and off < 4 * d:
                off += _cw(t[x])
                x += 1
            prefix, rest = t[:x], t[x:]
            if off != 4 * d or rest != o:
                out.fail(name, "line %d: expected a %d-cell guide prefix followed by line %d of node %r rendered alone at width %d"
                         % (pos, 4 * d, j, node["label"]["s"], W - 4 * d), "<%d cells>" % (4 * d) + o, t, "line")
                return out.clauses, out.bad
            if guides_bad is None:
                groups = [prefix[q:q + 4] for q in range(0, len(prefix), 4)]
                kinds = []
                for g in groups:
                    kinds.append(GUIDE_KIND.get(g) if (not ascii_only or g in ASCII_GUIDES) else None)
                want = []
                for lv in range(1, d + 1):
                    last = lasts[lv - 1]
                    if lv < d:
                        want.append("S" if last else "C")
                    elif j == 0:
                        want.append("E" if last else "F")
                    else:
                        want.append("S" if last else "C")
                if kinds != want:
                    guides_bad = (pos, t, want, kinds)
            pos += 1
    if pos != len(texts):
        out.fail(name, "tree has %d extra line(s) after the last visible node" % (len(texts) - pos), pos, {"lines": texts[pos:pos + 6]}, "extra")
        return out.clauses, out.bad
    if any(c in hidden_chars for t in texts for c in t):
        out.fail(name, "a node under a collapsed parent is shown", "hidden", texts[:20], "hidden")
    out.hit("c08.tree_guides")
    if guides_bad:
        p, t, want, kinds = guides_bad
        out.fail("c08.tree_guides", "line %d: guide kinds %s, expected %s (S blank, C continue, F fork, E end%s)"
                 % (p, kinds, want, "; ASCII glyphs only" if ascii_only else ""), want, {"line": t, "lines": texts[:20]}, "guides")
    return out.clauses, out.bad


# --------------------------------------------------------------------------------------------------------
# generators


def _word(rng, lo=1, hi=7) -> str:
    return "".join(rng.choice(WORDS_N) for _ in range(rng.randint(lo, hi)))


def gen_text(rng: random.Random) -> Dict[str, Any]:
    r = rng.random()
    if r < 0.25:
        s = _word(rng)
    elif r < 0.45:
        s = " ".join(_word(rng, 1, 5) for _ in range(rng.randint(2, 5)))
    elif r < 0.6:
        s = "\n".join(" ".join(_word(rng, 1, 4) for _ in range(rng.randint(1, 3))) for _ in range(rng.randint(2, 3)))
    elif r < 0.78:
        s = "".join(rng.choice(WIDE) if rng.random() < 0.6 else rng.choice(WORDS_N) for _ in range(rng.randint(1, 6)))
        if not any(_cw(c) == 2 for c in s):
            s += rng.choice(WIDE)
        if rng.random() < 0.4:
            s += " " + _word(rng, 1, 3)
    elif r < 0.92:
        s = _word(rng, 0, 3) + rng.choice(ZERO) + _word(rng, 0, 3) + (" " + rng.choice(ZERO) if rng.random() < 0.3 else "")
    else:
        s = _word(rng, 9, 14)
    spec = {"k": "text", "s": s}
    if rng.random() < 0.3:
        spec["justify"] = rng.choice(["left", "center", "right", "full"])
    if rng.random() < 0.2:
        spec["style"] = rng.choice(["on red", "italic", "green"])
    return spec


def gen_child(rng: random.Random, depth: int) -> Dict[str, Any]:
    r = rng.random()
    if depth <= 0 or r < 0.5:
        if rng.random() < 0.15:
            nc, nr = rng.randint(1, 2), rng.randint(1, 2)
            cell = lambda: rng.choice(WIDE) if rng.random() < 0.2 else _word(rng, 1, 3)
            return {"k": "table", "head": [cell() for _ in range(nc)] if rng.random() < 0.5 else None,
                    "rows": [[cell() for _ in range(nc)] for _ in range(nr)], "expand": rng.random() < 0.3}
        if rng.random() < 0.15:
            return {"k": "styled", "style": rng.choice(["on red", "on green", "italic"]), "child": gen_text(rng)}
        return gen_text(rng)
    return gen_frame(rng, rng.choice(["panel", "padding", "align", "constrain", "styled"]), depth - 1, top=False)


def _has_vertical() -> bool:
    from rich.align import Align

    return "vertical" in inspect.signature(Align.__init__).parameters


def gen_frame(rng: random.Random, kind: str, depth: int, top: bool = True) -> Dict[str, Any]:
    child = gen_child(rng, depth)
    cmin = smin(child)

    def width_choice():
        if rng.random() < (0.35 if top else 0.2):
            return {"rel": rng.choice([0, 1, 2, 5, 9])} if top else cmin + 8 + rng.randint(0, 10)
        return None

    if kind == "panel":
        spec = {"k": "panel", "child": child, "box": rng.choice(BOXES), "expand": rng.random() < 0.6,
                "padding": rng.choice(PADS), "style": rng.choice(STYLES), "width": width_choice(), "title": None}
        if rng.random() < 0.4:
            spec["title"] = rng.choice([_word(rng, 1, 6), _word(rng, 1, 3) + " " + _word(rng, 1, 3), rng.choice(WIDE) + _word(rng, 0, 2),
                                        _word(rng, 10, 16)])
            spec["title_align"] = rng.choice(["left", "center", "right"])
        if isinstance(spec["padding"], tuple):
            spec["padding"] = list(spec["padding"])
        if isinstance(spec["width"], int):
            spec["width"] = max(spec["width"], smin(spec))
        return spec
    if kind == "padding":
        pad = rng.choice(PADS)
        return {"k": "padding", "child": child, "pad": list(pad) if isinstance(pad, tuple) else pad,
                "expand": rng.random() < 0.6, "style": rng.choice(STYLES)}
    if kind == "align":
        spec = {"k": "align", "child": child, "align": rng.choice(["left", "center", "right"]), "pad": rng.random() < 0.7,
                "width": width_choice(), "style": rng.choice(STYLES)}
        if _has_vertical() and rng.random() < 0.3:
            spec["vertical"] = rng.choice(["top", "middle", "bottom"])
        return spec
    if kind == "constrain":
        w = width_choice()
        return {"k": "constrain", "child": child, "width": w if w is not None or rng.random() < 0.3 else ({"rel": 3} if top else cmin + 5)}
    if kind == "styled":
        return {"k": "styled", "child": child, "style": rng.choice(["on blue", "red on white", "bold"])}
    raise ValueError(kind)


def gen_rule(rng):
    title = None
    if rng.random() < 0.6:
        title = rng.choice([_word(rng, 1, 8), _word(rng, 1, 4) + " " + _word(rng, 1, 4), rng.choice(WIDE) + rng.choice(WIDE) + _word(rng, 0, 3),
                            _word(rng, 1, 3) + "\n" + _word(rng, 1, 3), _word(rng, 18, 30)])
    return {"k": "rule", "title": title, "characters": rng.choice(RULE_CHARS), "align": rng.choice(["left", "center", "right"]),
            "as_text": rng.random() < 0.3}


def rule_smin(spec) -> int:
    t = width_table()
    cmin = min(t[ord(c)] for c in spec["characters"])
    if not spec.get("title"):
        return 1
    tmin = _text_min(spec["title"])
    return tmin + 2 + 2 * cmin if spec["align"] == "center" else tmin + 1 + cmin


def gen_bar(rng):
    if rng.random() < 0.25:
        # very short bars on a long scale: begin and end fall into the same cell or the same eighth of a cell
        size = rng.choice([1000, 997, 640, 64])
        a = rng.randrange(0, size)
        b = min(size, a + rng.choice([0, 1, 1, 2, 3, 8]))
        return {"k": "bar", "size": size, "begin": a, "end": b, "width": rng.choice([None, None, None, 1, 2, 3, 10])}
    if rng.random() < 0.45:
        size = rng.choice([1, 10, 100, 7.5, 0.3, 1e6])
        a, b = rng.random() * size, rng.random() * size
        r = rng.random()
        if r < 0.6:
            a, b = min(a, b), max(a, b)
        elif r < 0.7:
            a, b = 0, size
        elif r < 0.8:
            b = a
        elif r < 0.9:
            a, b = -1.0, size * 2
        return {"k": "bar", "size": size, "begin": a, "end": b, "width": rng.choice([None, None, 1, 5, 20, 100])}
    total = rng.choice([100, 1, 3, 7.5, 0, 1000])
    completed = rng.choice([0, total, total / 2 if total else 0, rng.random() * (total or 1), -5, (total or 1) * 2, 1, 33])
    return {"k": "progress", "total": total, "completed": completed, "pulse": rng.random() < 0.25,
            "width": rng.choice([None, None, 1, 5, 20, 100]), "color": rng.random() < 0.7, "time": rng.choice([0.0, 0.37, 12.5])}


def _markers(rng: random.Random):
    pool = list(WORDS_N) + [chr(c) for c in range(0x391, 0x3AA) if chr(c).isalpha()] + [chr(c) for c in range(0x410, 0x450)]
    wide = [chr(c) for c in range(0x4E00, 0x4E00 + 200)]
    rng.shuffle(pool)
    rng.shuffle(wide)
    return pool, wide


def gen_columns(rng):
    pool, wide = _markers(rng)
    n = rng.choice([1, 2, 3, 4, 5, 6, 7, 8, 9, 11, 13, 16])
    kind = rng.choice(["text", "text", "str", "multiline", "panel"])
    items = []
    for _ in range(n):
        k = rng.randint(1, 6)
        s = "".join(pool.pop() for _ in range(k))
        if rng.random() < 0.2:
            s = s[:1] + wide.pop() + s[1:]
        if kind == "multiline" and len(s) >= 2:
            cut = rng.randint(1, len(s) - 1)
            s = s[:cut] + "\n" + s[cut:]
        items.append(s)
    pad = rng.choice([(0, 1), (0, 1), 0, (0, 2), (1, 1), (0, 3, 0, 1)])
    return {"k": "columns", "items": items, "kind": "text" if kind == "multiline" else kind, "multiline": kind == "multiline",
            "padding": list(pad) if isinstance(pad, tuple) else pad,
            "expand": rng.random() < 0.4, "equal": rng.random() < 0.4, "column_first": rng.random() < 0.5,
            "right_to_left": rng.random() < 0.4, "align": rng.choice([None, None, "left", "center", "right"])}


def columns_smin(spec) -> int:
    # every item must be displayable without folding a word: widest line of any item (plus a Panel's frame)
    widest = max(max(_cells(part) for part in s.split("\n")) for s in spec["items"])
    return widest + (4 if spec["kind"] == "panel" else 0)


def gen_tree(rng, max_depth):
    pool, wide = _markers(rng)
    budget = [rng.randint(1, 14)]

    def label():
        k = rng.randint(1, 5)
        s = "".join(pool.pop() for _ in range(k))
        r = rng.random()
        if r < 0.15:
            s += wide.pop()
        elif r < 0.3 and len(s) >= 2:
            s = s[:1] + "\n" + s[1:]
        elif r < 0.4 and len(s) >= 2:
            s = s[:1] + " " + s[1:]
        return {"k": "panel" if rng.random() < 0.12 else ("str" if rng.random() < 0.3 else "text"), "s": s}

    def node(depth):
        n = {"label": label(), "expanded": rng.random() < 0.8, "children": [],
             "guide_style": rng.choice([None, None, None, "bold", "underline2", "red"]),
             "style": rng.choice([None, None, "on blue"])}
        if depth < max_depth:
            for _ in range(rng.choice([0, 1, 1, 2, 3])):
                if budget[0] <= 0:
                    break
                budget[0] -= 1
                n["children"].append(node(depth + 1))
        return n

    return {"k": "tree", "root": node(0), "ascii": rng.random() < 0.25}


# --------------------------------------------------------------------------------------------------------
# driver

FAMILIES = ["panel", "padding", "align", "constrain", "styled", "rule", "bar", "columns", "tree"]
WEIGHTS = {"panel": 5, "padding": 3, "align": 4, "constrain": 1, "styled": 1, "rule": 3, "bar": 3, "columns": 4, "tree": 3}
_SCHEDULE = [f for f in FAMILIES for _ in range(WEIGHTS[f])]


def gen_case(seed: int, idx: int, tier: str) -> Dict[str, Any]:
    rng = random.Random(seed * 1_000_003 + idx)
    fam = _SCHEDULE[idx % len(_SCHEDULE)]
    depth = 2 if tier == "quick" else 3
    if fam in ("panel", "padding", "align", "constrain", "styled"):
        return gen_frame(rng, fam, depth)
    if fam == "rule":
        return gen_rule(rng)
    if fam == "bar":
        return gen_bar(rng)
    if fam == "columns":
        return gen_columns(rng)
    return gen_tree(rng, depth + 1)


def case_smin(spec) -> int:
    k = spec["k"]
    if k == "rule":
        return rule_smin(spec)
    if k in ("bar", "progress"):
        return 1
    if k == "columns":
        return columns_smin(spec)
    if k == "tree":
        return tree_smin(spec)
    return smin(spec)


def check_case(spec: Dict[str, Any], W: int):
    k = spec["k"]
    if k == "rule":
        return check_rule(spec, W)
    if k in ("bar", "progress"):
        return check_bar(spec, W)
    if k == "columns":
        return check_columns(spec, W)
    if k == "tree":
        return check_tree(spec, W)
    return check_frame(spec, W)


def widths_for(spec, m: int, rng: random.Random, tier: str) -> List[int]:
    if tier == "quick":
        return [m + d for d in (0, 1, 2, 3, 4, 7, 12)] + [m + rng.randint(13, 70)]
    return [m + d for d in range(13)] + sorted({rng.randint(m + 13, max(m + 14, 200)) for _ in range(4)})


def _wclass(d: int) -> str:
    return str(d) if d <= 4 else ("5-7" if d <= 7 else ("8-12" if d <= 12 else ("13-40" if d <= 40 else ">40")))


def _strip(spec):
    """option signature: the description without its contents"""
    if isinstance(spec, dict):
        out = {}
        for k, v in spec.items():
            if k in ("s", "items", "rows", "head"):
                out[k] = len(v) if v is not None else None
            elif k == "title":
                out[k] = None if v is None else ("long" if len(v) > 9 else ("wide" if _text_min(v) == 2 else "short"))
            elif k in ("begin", "end", "completed"):
                out[k] = None
            else:
                out[k] = _strip(v)
        return out
    if isinstance(spec, list):
        return [_strip(v) for v in spec]
    return spec


def _key(spec, W) -> str:
    return hashlib.sha1((json.dumps(spec, sort_keys=True, ensure_ascii=True) + "|%d" % W).encode()).hexdigest()[:12]


def _size(spec, W):
    return (len(json.dumps(spec)), W)


def _pick(lst: list) -> list:
    lst = sorted(lst, key=lambda x: x[0])
    out, rest, seen = [], [], set()
    for e in lst:
        if e[3]["sub"] not in seen:
            seen.add(e[3]["sub"])
            out.append(e)
        else:
            rest.append(e)
    return (out + rest)[:MAX_FAIL]


def _work(args):
    tier, seed, lo, hi = args
    clauses: Dict[str, int] = {}
    fails: Dict[str, list] = {}
    fail_counts: Dict[str, int] = {}
    sigs = set()
    evals = 0
    samples = []
    for idx in range(lo, hi):
        spec = gen_case(seed, idx, tier)
        m = case_smin(spec)
        rng = random.Random(seed * 7919 + idx)
        sig = hashlib.sha1(json.dumps(_strip(spec), sort_keys=True, default=str).encode()).digest()[:8]
        for W in widths_for(spec, m, rng, tier):
            cl, bad = check_case(spec, W)
            evals += 1
            sigs.add(sig + _wclass(W - m).encode())
            for k, v in cl.items():
                clauses[k] = clauses.get(k, 0) + v
            for b in bad:
                fail_counts[b["check"]] = fail_counts.get(b["check"], 0) + 1
                lst = fails.setdefault(b["check"], [])
                lst.append((_size(spec, W), spec, W, b))
                fails[b["check"]] = _pick(lst)
        if lo == 0 and idx < len(_SCHEDULE) and (idx == 0 or _SCHEDULE[idx] != _SCHEDULE[idx - 1]):
            samples.append({"spec": spec, "W": m + 3})
    return {"clauses": clauses, "fails": fails, "fail_counts": fail_counts, "sigs": sigs, "evals": evals, "samples": samples}


# --------------------------------------------------------------------------------------------------------
# minimiser


def _still(spec, W, clause, sub=None):
    try:
        if W < case_smin(spec):
            return None
        _cl, bad = check_case(spec, W)
    except Exception:
        return None
    for b in bad:
        if b["check"] == clause and (sub is None or b["sub"] == sub):
            return b
    return None


def _shrink_str(s: str):
    if len(s) > 1:
        yield s[: len(s) // 2]
        yield s[len(s) // 2:]
        yield s[:-1]
        yield s[1:]
    if "\n" in s:
        yield s.replace("\n", "")


def _variants(spec):
    """smaller / plainer descriptions of the same kind"""
    k = spec.get("k")
    defaults = {"style": None, "title": None, "width": None, "justify": None, "guide_style": None, "ascii": False,
                "equal": False, "expand": None, "align": None, "right_to_left": False, "column_first": False, "as_text": False,
                "pulse": False}
    for key, dv in defaults.items():
        if key in spec and spec[key] != dv and not (key == "align" and k in ("align", "rule")) and not (key == "style" and k == "styled"):
            if key == "expand":
                continue
            d = copy.deepcopy(spec)
            d[key] = dv
            yield d
    if k in ("panel", "padding") and spec.get("expand") is False:
        d = copy.deepcopy(spec)
        d["expand"] = True
        yield d
    if k == "columns" and spec.get("expand"):
        d = copy.deepcopy(spec)
        d["expand"] = False
        yield d
    for key in ("padding", "pad"):
        if key in spec and spec[key] != 0:
            for v in (0, [0, 1]):
                if spec[key] != v:
                    d = copy.deepcopy(spec)
                    d[key] = v
                    yield d
    if k == "panel" and spec["box"] != "ASCII":
        d = copy.deepcopy(spec)
        d["box"] = "ASCII"
        yield d
    if "child" in spec:
        c = spec["child"]
        if "child" in c:                       # drop one level of nesting
            d = copy.deepcopy(spec)
            d["child"] = c["child"]
            yield d
        if c["k"] != "text":
            d = copy.deepcopy(spec)
            d["child"] = {"k": "text", "s": "ab"}
            yield d
        for v in _variants(c):
            d = copy.deepcopy(spec)
            d["child"] = v
            yield d
    for key in ("s", "title", "characters"):
        if isinstance(spec.get(key), str):
            for s2 in _shrink_str(spec[key]):
                if s2 or key == "s":
                    d = copy.deepcopy(spec)
                    d[key] = s2
                    yield d
    if k == "columns":
        for i in range(len(spec["items"]) - 1, -1, -1):
            if len(spec["items"]) > 1:
                d = copy.deepcopy(spec)
                del d["items"][i]
                yield d
        for i, s in enumerate(spec["items"]):
            for s2 in _shrink_str(s):
                if s2.strip():
                    d = copy.deepcopy(spec)
                    d["items"][i] = s2
                    yield d
        if spec["kind"] != "text":
            d = copy.deepcopy(spec)
            d["kind"] = "text"
            yield d
    if k == "tree":
        def paths(node, path=()):
            yield path
            for i, c in enumerate(node["children"]):
                yield from paths(c, path + (i,))

        def at(root, path):
            n = root
            for i in path:
                n = n["children"][i]
            return n

        for p in sorted(paths(spec["root"]), key=lambda p: (-len(p), p)):
            if p:
                d = copy.deepcopy(spec)
                del at(d["root"], p[:-1])["children"][p[-1]]
                yield d
            n = at(spec["root"], p)
            for key, dv in (("guide_style", None), ("style", None), ("expanded", True)):
                if n.get(key) != dv:
                    d = copy.deepcopy(spec)
                    at(d["root"], p)[key] = dv
                    yield d
            if n["label"]["k"] != "text":
                d = copy.deepcopy(spec)
                at(d["root"], p)["label"]["k"] = "text"
                yield d
            for s2 in _shrink_str(n["label"]["s"]):
                if s2.strip():
                    d = copy.deepcopy(spec)
                    at(d["root"], p)["label"]["s"] = s2
                    yield d
    if k in ("bar", "progress"):
        for key, vals in (("width", [None]), ("size", [1, 10]), ("total", [100, 1]), ("begin", [0]), ("completed", [0, 1]), ("time", [0.0])):
            for v in vals:
                if key in spec and spec[key] != v:
                    d = copy.deepcopy(spec)
                    d[key] = v
                    yield d


def minimise(spec, W, clause, budget=500, deadline=None):
    best = _still(spec, W, clause)
    if best is None:
        return spec, W, None
    sub = best["sub"]
    cur = spec
    spent = 0
    progress = True
    while progress and spent < budget:
        if deadline is not None and time.time() > deadline:
            break
        progress = False
        delta = W - case_smin(cur)
        for d in _variants(cur):
            if spent >= budget:
                break
            try:
                m2 = case_smin(d)
            except Exception:
                continue
            for W2 in sorted({m2 + delta, W}):
                if W2 > W:
                    continue
                spent += 1
                b = _still(d, W2, clause, sub)
                if b is not None:
                    cur, W, best, progress = d, W2, b, True
                    break
            if progress:
                break
        if not progress:
            for W2 in range(case_smin(cur), W):
                spent += 1
                b = _still(cur, W2, clause, sub)
                if b is not None:
                    W, best, progress = W2, b, True
                    break
    return cur, W, best


def _min_job(args):
    clause, spec, W, b = args
    s2, W2, b2 = minimise(spec, W, clause, budget=400)
    if b2 is None:
        s2, W2, b2 = spec, W, b
    return clause, s2, W2, b2


TIERS = {"quick": 2700, "thorough": 2700 * 40}


def run(tier: str, seed: int) -> dict:
    t0 = time.time()
    if tier not in TIERS:
        tier = "quick"
    n = TIERS[tier]
    procs = min(16, os.cpu_count() or 1)
    chunk = len(_SCHEDULE) * max(1, n // (procs * 6 * len(_SCHEDULE)))
    jobs = [(tier, seed, lo, min(n, lo + chunk)) for lo in range(0, n, chunk)]
    width_table()
    import rich.columns  # noqa: F401
    import rich.progress_bar  # noqa: F401
    import rich.rule  # noqa: F401
    import rich.tree  # noqa: F401
    import rich.bar  # noqa: F401

    ctx = get_context("fork")
    with ctx.Pool(procs) as pool:
        parts = pool.map(_work, jobs, chunksize=1)
    clauses: Dict[str, int] = {}
    fail_counts: Dict[str, int] = {}
    sigs = set()
    evals = 0
    cands: Dict[str, list] = {}
    samples = []
    for p in parts:
        evals += p["evals"]
        sigs |= p["sigs"]
        samples += p["samples"]
        for k, v in p["clauses"].items():
            clauses[k] = clauses.get(k, 0) + v
        for k, v in p["fail_counts"].items():
            fail_counts[k] = fail_counts.get(k, 0) + v
        for k, v in p["fails"].items():
            cands.setdefault(k, []).extend(v)
    failures = []
    todo = [(clause, spec, W, b) for clause in sorted(cands) for _sz, spec, W, b in _pick(cands[clause])]
    with ctx.Pool(min(procs, max(1, len(todo)))) as pool:      # minimisation is bounded by evaluations, not by time
        done = pool.map(_min_job, todo, chunksize=1)
    seen = set()
    for clause, s2, W2, b2 in done:
        if True:
            key = _key(s2, W2)
            if clause + key in seen:
                continue
            seen.add(clause + key)
            failures.append({"check": clause, "what": b2["what"], "input_key": key,
                             "input": {"spec": s2, "W": W2, "structural_minimum": case_smin(s2),
                                       "replay": "vf.rtc.props.c08.check_case(spec, W)"},
                             "expected": b2["expected"], "observed": b2["observed"]})
    return {
        "evaluations": evals,
        "distinct_nontrivial": len(sigs),
        "rule": "case i is of family schedule[i %% %d] (panel, padding, align, constrain, styled, rule, bar/progress bar, columns, "
                "tree; weights %s); all options and contents are drawn from a PRNG seeded with (seed, i); every case is "
                "rendered at the widths in `bound`; every case is non-trivial (it renders at least one line and evaluates at "
                "least one clause); distinct = distinct (description with contents replaced by their sizes, width class "
                "W - structural minimum in {0,1,2,3,4,5-7,8-12,13-40,>40}) pairs" % (len(_SCHEDULE), json.dumps(WEIGHTS)),
        "bound": "%d cases; frames nested to depth %d over children {Text: words, sentences, newlines, CJK/emoji, combining / "
                 "zero-width characters, long words; small Tables; Styled text}; Panel box in %s x title (short, two words, wide, "
                 "long) x title_align x expand x width x padding in %s x style in %s; Padding 1/2/4-tuples x expand x style; "
                 "Align left/center/right x pad x width x style%s; Constrain; Styled; Rule characters in %s x title x align; Bar "
                 "size/begin/end/width; ProgressBar total/completed/width/pulse x colour on/off; Columns 1..16 items (Text, str, "
                 "two-line, Panel) x equal x expand x column_first x right_to_left x align x padding; Tree <= 15 nodes, depth <= %d, "
                 "expanded flags, guide styles {None,bold,underline2,red}, ascii; widths W = structural minimum + %s; %d "
                 "processes; tier %s; seed %d"
                 % (n, 2 if tier == "quick" else 3, BOXES, PADS, STYLES, " x vertical" if _has_vertical() else " (this tree's Align has no `vertical`)",
                    [c.encode("unicode_escape").decode() for c in RULE_CHARS], 3 if tier == "quick" else 4,
                    "{0,1,2,3,4,7,12} and one in [13,70]" if tier == "quick" else "{0..12} and 4 sampled up to 200", procs, tier, seed),
        "samples": samples[:4],
        "clauses": clauses,
        "failures": failures,
        "failure_counts": fail_counts,
        "seconds": round(time.time() - t0, 1),
    }
