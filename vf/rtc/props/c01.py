"""C01 (bounded): rendered output never exceeds the available width.

For each generated renderable tree and each width W from its structural minimum ``smin`` to ``smin+12``
(all), then sampled up to 200: the Segment stream of ``Console.render`` at W (no crop at top level) is
split at newlines and every line must occupy at most W cells.  Cell widths come from
``vf.rtc.specnative`` (linear expansion of the width table), not from ``rich.cells``.

Clauses
  c01.width_bound                main pool (table ``leading`` in {0,1})
  c01.width_bound.leading_ge_2   small separate pool: a boxed table with ``leading >= 2`` somewhere in the tree
  c01.width_bound.ratio_0        small separate pool: an expanding table with a ``ratio=0`` column next to a ``ratio>0`` one
  c01.render_raised              rendering raised / timed out at a width >= smin (nothing to measure)
"""
from __future__ import annotations

import random
import time
from typing import Any, Dict, List, Optional

from . import _trees as T

TIERS = {
    # trees in the main pool, trees in the leading>=2 pool, max nesting depth, sampled widths beyond smin+12
    "quick": {"main": 1000, "leading": 50, "ratio0": 50, "depth": 3, "extra": 7, "chunk": 10},
    "thorough": {"main": 24000, "leading": 1000, "ratio0": 1000, "depth": 4, "extra": 12, "chunk": 50},
}
CASE_SECONDS = 5.0
CLAUSE = {"main": "c01.width_bound", "leading": "c01.width_bound.leading_ge_2", "ratio0": "c01.width_bound.ratio_0"}
KEY_PREFIX = {"main": "", "leading": "leading>=2:", "ratio0": "ratio=0:"}


def _check_one(desc: T.Desc, renderable, w: int):
    """-> None if fine, else (check-suffix, expected, observed, what)"""
    ok, val = T.guarded(lambda: T.render_lines(renderable, w), CASE_SECONDS)
    if not ok:
        return ("raised", "render completes", val, f"render at width {w} (smin {T.smin(desc)}): {val}")
    m, line = T.max_line_cells(val)
    if m > w:
        return ("over", f"every line <= {w} cells", {"cells": m, "line": line},
                f"a line of {m} cells at available width {w} (smin {T.smin(desc)})")
    return None


def _tree_for(seed: int, pool: str, idx: int, depth: int):
    rng = random.Random(f"c01:{seed}:{pool}:{idx}")
    # depth is drawn so that shallow trees (cheap, many widths classes) and deep ones both occur
    d = T.gen_tree(rng, rng.choice([2, depth, depth]) if depth > 2 else depth, pool)
    return rng, d


def _work(job) -> Dict[str, Any]:
    tier, seed, pool, a, b = job
    cfg = TIERS[tier]
    out = {"evals": 0, "pairs": set(), "clauses": {}, "fails": [], "samples": [], "trees": 0, "nontrivial_trees": 0,
           "max_depth": 0}
    clause = CLAUSE[pool]
    for idx in range(a, b):
        rng, d = _tree_for(seed, pool, idx, cfg["depth"])
        sm = T.smin(d)
        nontrivial = T.node_count(d) >= 2
        sig = T.sig_key(d)
        out["trees"] += 1
        out["nontrivial_trees"] += int(nontrivial)
        out["max_depth"] = max(out["max_depth"], T.depth_of(d))
        ok, r = T.guarded(lambda: T.build(d), CASE_SECONDS)
        if not ok:
            out["fails"].append({"check": "c01.render_raised", "pool": pool, "idx": idx, "w": sm, "desc": d, "expected": "constructors accept valid options",
                                 "observed": r, "what": f"building the tree raised: {r}"})
            continue
        for w in T.widths_from_smin(rng, sm, cfg["extra"]):
            out["evals"] += 1
            out["clauses"][clause] = out["clauses"].get(clause, 0) + 1
            if nontrivial:
                out["pairs"].add((sig, T.width_class(w, sm)))
            res = _check_one(d, r, w)
            if res is not None:
                kind, expected, observed, what = res
                out["fails"].append({"check": clause if kind == "over" else "c01.render_raised", "pool": pool, "idx": idx, "w": w,
                                     "desc": d, "expected": expected, "observed": observed, "what": what})
            elif idx == a and w == sm + 3 and len(out["samples"]) < 1:
                out["samples"].append({"tree": T.short(d, 400), "smin": sm, "width": w, "widest_line_cells":
                                       T.max_line_cells(T.render_lines(r, w))[0]})
    return out


def _minimise(f: Dict[str, Any], cheap: bool = False) -> Dict[str, Any]:
    kind = "raised" if f["check"] == "c01.render_raised" else "over"

    def fails_at(desc: T.Desc, r, w: int) -> bool:
        res = _check_one(desc, r, w)
        return res is not None and res[0] == kind

    d, w = (f["desc"], f["w"]) if cheap else T.minimise(f["desc"], f["w"], fails_at, T.smin)
    res = _check_one(d, T.build(d), w)
    if res is None or res[0] != kind:  # should not happen; fall back to the original
        d, w = f["desc"], f["w"]
        res = _check_one(d, T.build(d), w)
    _, expected, observed, what = res
    prefix = KEY_PREFIX[f["pool"]]
    return {"check": f["check"], "what": what, "input_key": T.key_of(d, w, prefix),
            "input": {"tree": d, "width": w, "smin": T.smin(d), "replay": "vf.rtc.props._trees.build(tree); render_lines(renderable, width)",
                      "found_as": {"pool": f["pool"], "index": f["idx"], "width": f["w"], "nodes": T.node_count(f["desc"])}},
            "expected": expected, "observed": observed}


def run(tier: str = "quick", seed: int = 0) -> Dict[str, Any]:
    t0 = time.time()
    cfg = TIERS.get(tier, TIERS["quick"])
    tier = tier if tier in TIERS else "quick"
    T.specnative.width_table()  # built once, inherited by the forked workers
    jobs = [(tier, seed, "main", a, b) for a, b in T.chunk(cfg["main"], cfg["chunk"])]
    jobs += [(tier, seed, "leading", a, b) for a, b in T.chunk(cfg["leading"], cfg["chunk"])]
    jobs += [(tier, seed, "ratio0", a, b) for a, b in T.chunk(cfg["ratio0"], cfg["chunk"])]
    parts = T.run_pool(_work, jobs)

    evals = 0
    pairs = set()
    clauses: Dict[str, int] = {}
    raw: List[Dict[str, Any]] = []
    samples: List[Any] = []
    trees = nontrivial = maxdepth = 0
    for p in parts:
        evals += p["evals"]
        pairs |= p["pairs"]
        for k, v in p["clauses"].items():
            clauses[k] = clauses.get(k, 0) + v
        raw.extend(p["fails"])
        if len(samples) < 4:
            samples.extend(p["samples"][: 4 - len(samples)])
        trees += p["trees"]
        nontrivial += p["nontrivial_trees"]
        maxdepth = max(maxdepth, p["max_depth"])
    clauses.setdefault("c01.render_raised", 0)
    clauses["c01.render_raised"] = evals  # every evaluation also checks that rendering completes

    counts: Dict[str, int] = {}
    failing_trees: Dict[str, set] = {}
    for f in raw:
        counts[f["check"]] = counts.get(f["check"], 0) + 1
        failing_trees.setdefault(f["check"], set()).add((f["pool"], f["idx"]))
    failures: List[Dict[str, Any]] = []
    per: Dict[str, int] = {}
    seen_keys = set()
    seen_trees = set()
    tried: Dict[str, int] = {}
    t_min = time.time()
    budget = 12.0 if tier == "quick" else 90.0  # minimisation is a courtesy, not the check
    # smallest trees first: cheaper to minimise and more likely to be distinct root causes
    for f in sorted(raw, key=lambda f: (f["check"], T.node_count(f["desc"]), f["w"], f["idx"])):
        if per.get(f["check"], 0) >= 3 or tried.get(f["check"], 0) >= 4 or (f["check"], f["pool"], f["idx"]) in seen_trees:
            continue
        seen_trees.add((f["check"], f["pool"], f["idx"]))
        tried[f["check"]] = tried.get(f["check"], 0) + 1
        m = _minimise(f, time.time() - t_min > budget)
        if m["input_key"] in seen_keys:
            continue
        seen_keys.add(m["input_key"])
        per[f["check"]] = per.get(f["check"], 0) + 1
        failures.append(m)

    return {
        "evaluations": evals,
        "distinct_nontrivial": len(pairs),
        "rule": "a case is (renderable tree, width); trees are drawn deterministically from (seed, pool, index); widths are all of "
                "smin..smin+12 and then stratified samples up to 200 (200 always). Distinct = distinct (tree shape signature "
                "[node kinds and arity], width class [offset from smin up to +12, then bands]) pairs; non-trivial = the tree has "
                ">= 2 nodes.",
        "bound": f"tier {tier}: {cfg['main']} trees (leading in {{0,1}}) + {cfg['leading']} trees with a boxed table of leading>=2 + {cfg['ratio0']} trees with a ratio=0 column; "
                 f"nesting depth <= {cfg['depth']} (measured max {maxdepth}), <= 14 container nodes per tree; kinds Text/str/Rule/Bar/"
                 "ProgressBar/Table/Panel/Padding/Align/Constrain/Columns/Tree/RenderGroup; contents: ASCII words, CJK/emoji/"
                 "fullwidth, combining and zero-width code points, embedded newlines, no tabs; widths smin..200",
        "samples": samples,
        "clauses": clauses,
        "failures": failures,
        "failure_counts": counts,
        "failing_trees": {k: len(v) for k, v in failing_trees.items()},
        "trees": trees,
        "nontrivial_trees": nontrivial,
        "elapsed_s": round(time.time() - t0, 2),
    }
