"""C11 - console thread-safety: a *bounded stress check only*.

Schedule exploration (the quantifier of C11) is out of scope here: this module starts 2-4 real threads on
one Console, lets the OS / the interpreter pick the schedule (``sys.setswitchinterval(1e-6)`` to get many
preemptions) and checks the schedule-independent clauses of the statement on what actually happened:

  c11.print_contiguous_once   every print / log call outside a capture: its marker line(s) appear in the
                              concatenation of all ``file.write`` calls exactly once, the lines of one call
                              adjacent and in order (multi-line prints are one unbroken block)
  c11.capture_isolated        ``Capture.get()`` of a thread contains exactly that thread's markers printed
                              inside the capture, no print / log marker of any other thread, and none of the
                              captured markers reaches the file
  c11.record_order            with ``record=True`` the print / log markers in ``export_text()`` that also
                              reached the file are in the same order as in the file
  c11.no_deadlock             every worker joins within the timeout and stopping the live display returns
  c11.no_exception            no worker raised

Markers are unique per call ("<P.run.thread.op.line>"), the live frame uses a different alphabet ("<F...>")
and is never counted as another thread's output.  Redirection of sys.stdout / sys.stderr is switched off
(process-global state).  The file object records (thread id, text) with one ``list.append`` per write call.

Results depend on the schedule the machine happens to produce: the programs are deterministic per seed, the
interleavings are not.  A pass is therefore weak evidence; a failure is a real observed violation (the input
records the programs; it may need several runs to reproduce).
"""

import hashlib
import io
import json
import random
import re
import sys
import threading
import time
from typing import Any, Dict, List, Optional, Tuple

from rich.console import Console
from rich.live import Live
from rich.progress import Progress, TextColumn

JOIN_TIMEOUT = 20.0
MAX_FAIL_PER_CLAUSE = 3
_MARK = re.compile(r"<([PL])\.(\d+)\.(\d+)\.(\d+)\.(\d+)>")


class RecFile(io.TextIOBase):
    """Text sink: one atomic ``list.append((thread id, text))`` per write call."""

    encoding = "utf-8"

    def __init__(self) -> None:
        self.records: List[Tuple[int, str]] = []

    def write(self, text: str) -> int:
        self.records.append((threading.get_ident(), text))
        return len(text)

    def flush(self) -> None:
        pass

    def isatty(self) -> bool:
        return True

    def text(self) -> str:
        return "".join(t for _, t in list(self.records))


def _marker(kind: str, run: int, thread: int, op: int, line: int) -> str:
    return "<%s.%d.%d.%d.%d>" % (kind, run, thread, op, line)


def gen_programs(rng: random.Random, scenario: str) -> List[List[list]]:
    n_threads = rng.randint(2, 4)
    programs = []
    for _ in range(n_threads):
        prog = []
        for _ in range(rng.randint(3, 8)):
            r = rng.random()
            if r < 0.4:
                prog.append(["print", rng.randint(1, 3)])
            elif r < 0.52:
                prog.append(["log"])
            elif r < 0.72:
                prog.append(["capture", rng.randint(1, 2), rng.randint(1, 2)])  # prints inside, lines each
            elif scenario == "live":
                prog.append(["live_update", rng.randint(0, 3)])
            elif scenario == "progress":
                prog.append(["advance", rng.choice([1, 2, 0.5])])
            else:
                prog.append(["print", 1])
        programs.append(prog)
    return programs


def run_once(run_id: int, scenario: str, programs: List[List[list]], auto_refresh: bool) -> dict:
    file = RecFile()
    console = Console(file=file, force_terminal=True, width=100, height=40, color_system=None, legacy_windows=False,
                      record=True, log_path=False, log_time=False, _environ={})
    live: Optional[Live] = None
    progress: Optional[Progress] = None
    task_id = None
    if scenario == "live":
        live = Live("<F.init>", console=console, auto_refresh=auto_refresh, refresh_per_second=200,
                    redirect_stdout=False, redirect_stderr=False)
        live.start()
    elif scenario == "progress":
        progress = Progress(TextColumn("<F.{task.completed}>"), console=console, auto_refresh=auto_refresh,
                            refresh_per_second=200, redirect_stdout=False, redirect_stderr=False)
        task_id = progress.add_task("t", total=1000)
        progress.start()

    n = len(programs)
    barrier = threading.Barrier(n)
    results: List[dict] = [{"printed": [], "captures": [], "error": None, "done": False} for _ in range(n)]

    def worker(t: int) -> None:
        res = results[t]
        try:
            barrier.wait(JOIN_TIMEOUT)
            for i, op in enumerate(programs[t]):
                name = op[0]
                if name == "print":
                    marks = [_marker("P", run_id, t, i, k) for k in range(op[1])]
                    console.print("\n".join(marks))
                    res["printed"].append(marks)
                elif name == "log":
                    marks = [_marker("L", run_id, t, i, 0)]
                    console.log(marks[0])
                    res["printed"].append(marks)
                elif name == "capture":
                    inside = []
                    with console.capture() as cap:
                        for j in range(op[1]):
                            marks = [_marker("P", run_id, t, i, j * 10 + k) for k in range(op[2])]
                            console.print("\n".join(marks))
                            inside.append(marks)
                    res["captures"].append({"marks": inside, "text": cap.get(), "op": i})
                elif name == "live_update":
                    live.update("\n".join("<F.%d.%d.%d>" % (t, i, k) for k in range(op[1])), refresh=True)
                elif name == "advance":
                    progress.advance(task_id, op[1])
                    progress.refresh()
            res["done"] = True
        except BaseException as error:  # noqa: B902 - reported as a failure, never swallowed
            import traceback

            res["error"] = "%s: %s\n%s" % (type(error).__name__, error, traceback.format_exc(limit=-3))

    threads = [threading.Thread(target=worker, args=(t,), daemon=True, name="c11-%d-%d" % (run_id, t)) for t in range(n)]
    t0 = time.time()
    for th in threads:
        th.start()
    deadline = t0 + JOIN_TIMEOUT
    for th in threads:
        th.join(max(0.0, deadline - time.time()))
    stuck = [th.name for th in threads if th.is_alive()]
    stop_stuck = False
    if not stuck and (live is not None or progress is not None):
        stopper = threading.Thread(target=(live or progress).stop, daemon=True)
        stopper.start()
        stopper.join(JOIN_TIMEOUT)
        stop_stuck = stopper.is_alive()

    fails: List[dict] = []

    def fail(check, what, expected, observed):
        fails.append({"check": check, "what": what, "expected": expected, "observed": observed})

    if stuck or stop_stuck:
        fail("c11.no_deadlock", "threads still alive after %.0f s: %s%s" % (JOIN_TIMEOUT, stuck, " + stop()" if stop_stuck else ""),
             "all threads join", {"stuck": stuck, "stop_stuck": stop_stuck})
        return {"fails": fails, "interleaved": False, "writes": len(file.records)}
    for t, res in enumerate(results):
        if res["error"]:
            fail("c11.no_exception", "worker %d raised" % t, "no exception", res["error"][:600])
    if any(r["error"] for r in results):
        return {"fails": fails, "interleaved": False, "writes": len(file.records)}

    text = file.text()
    # ---- each print reaches the file contiguously and exactly once
    for t, res in enumerate(results):
        for marks in res["printed"]:
            for m in marks:
                c = text.count(m)
                if c != 1:
                    fail("c11.print_contiguous_once", "marker %s of thread %d appears %d times in the file" % (m, t, c), 1, c)
            if len(marks) > 1 and all(text.count(m) == 1 for m in marks):
                block = "\n".join(marks)
                if block not in text:
                    i0 = text.find(marks[0])
                    fail("c11.print_contiguous_once", "lines of one print call of thread %d are not adjacent in the file" % t,
                         block, text[i0: i0 + len(block) + 120])
    # ---- capture isolation
    for t, res in enumerate(results):
        for cap in res["captures"]:
            own = [m for marks in cap["marks"] for m in marks]
            found = [mm.group(0) for mm in _MARK.finditer(cap["text"])]
            if found != own:
                fail("c11.capture_isolated",
                     "capture of thread %d (op %d) does not hold exactly its own markers in order" % (t, cap["op"]), own, found)
            leaked = [m for m in own if m in text]
            if leaked:
                fail("c11.capture_isolated", "captured text of thread %d (op %d) was also written to the file" % (t, cap["op"]),
                     [], leaked)
    # ---- record order == file order (markers that reached the file)
    exported = console.export_text(clear=False)
    file_seq = [mm.group(0) for mm in _MARK.finditer(text)]
    in_file = set(file_seq)
    rec_seq = [mm.group(0) for mm in _MARK.finditer(exported) if mm.group(0) in in_file]
    if rec_seq != file_seq:
        d = 0
        while d < len(rec_seq) and d < len(file_seq) and rec_seq[d] == file_seq[d]:
            d += 1
        fail("c11.record_order", "markers in export_text() are not in file order (first difference at #%d)" % d,
             file_seq[max(0, d - 1): d + 3], rec_seq[max(0, d - 1): d + 3])
    # ---- did the schedule interleave at all?
    order = [tid for tid, _ in file.records]
    interleaved = False
    seen_after: Dict[int, bool] = {}
    last = None
    for tid in order:
        if tid != last:
            if tid in seen_after:
                interleaved = True
                break
            if last is not None:
                seen_after[last] = True
            last = tid
    return {"fails": fails, "interleaved": interleaved, "writes": len(file.records)}


def run(tier: str, seed: int) -> dict:
    """Watchdog wrapper (added by the maintainer of /verif): the stress run happens in a child process so that
    a deadlock in the code under check — including one that blocks the main thread inside stop() — is
    reported as a failure of c11.no_deadlock instead of hanging the check."""
    import multiprocessing as mp

    limit = 150.0 if tier != "thorough" else 900.0
    ctx = mp.get_context("fork")
    parent, child = ctx.Pipe(duplex=False)
    progress = ctx.Value("i", -1)

    def target():
        try:
            child.send(_run_inner(tier, seed, progress))
        except BaseException as e:  # noqa
            child.send({"__error__": repr(e)})

    proc = ctx.Process(target=target, daemon=True)
    t0 = time.time()
    proc.start()
    res = None
    if parent.poll(limit):
        try:
            res = parent.recv()
        except EOFError:
            res = None
    if res is None or "__error__" in (res or {}):
        where = progress.value
        proc.kill()
        proc.join(5)
        what = ("the stress run did not finish within %.0f s: a thread (or the main thread inside start()/stop()) is blocked — deadlock; "
                "last run started: #%d" % (limit, where)) if res is None else "stress harness crashed: %s" % res["__error__"]
        return {"evaluations": max(where, 1), "distinct_nontrivial": 2, "rule": "watchdog result: the child process running the stress runs was killed",
                "bound": "tier %s, seed %d" % (tier, seed), "samples": [{"last_run_started": where}], "clauses": {"c11.no_deadlock": max(where, 1)},
                "failures": [{"check": "c11.no_deadlock", "what": what, "input_key": "run#%d seed=%d" % (where, seed), "input": {"seed": seed, "run_index": where, "tier": tier},
                              "expected": "every run joins all its threads", "observed": "blocked for %.0f s" % (time.time() - t0)}]}
    proc.join(10)
    return res


def _run_inner(tier: str, seed: int, progress=None) -> dict:
    t_start = time.time()
    quick = tier != "thorough"
    n_runs = 600 if quick else 12000
    budget = 22.0 if quick else 540.0
    old_interval = sys.getswitchinterval()
    sys.setswitchinterval(1e-6)
    clauses: Dict[str, int] = {}
    pending: Dict[str, List[dict]] = {}
    totals: Dict[str, int] = {}
    samples: List[Any] = []
    distinct = set()
    evaluations = 0
    interleaved_runs = 0
    scen_count: Dict[str, int] = {}
    try:
        for i in range(n_runs):
            if time.time() - t_start > budget:
                break
            if progress is not None:
                progress.value = i
            rng = random.Random("c11:%d:%d" % (seed, i))
            scenario = rng.choice(["none", "live", "live", "progress"])
            auto = rng.random() < 0.5
            programs = gen_programs(rng, scenario)
            res = run_once(i, scenario, programs, auto)
            evaluations += 1
            scen_count[scenario] = scen_count.get(scenario, 0) + 1
            n_print = sum(1 for p in programs for op in p if op[0] in ("print", "log"))
            n_capt = sum(1 for p in programs for op in p if op[0] == "capture")
            clauses["c11.print_contiguous_once"] = clauses.get("c11.print_contiguous_once", 0) + n_print
            clauses["c11.capture_isolated"] = clauses.get("c11.capture_isolated", 0) + n_capt
            clauses["c11.record_order"] = clauses.get("c11.record_order", 0) + 1
            clauses["c11.no_deadlock"] = clauses.get("c11.no_deadlock", 0) + 1
            clauses["c11.no_exception"] = clauses.get("c11.no_exception", 0) + 1
            if res["interleaved"]:
                interleaved_runs += 1
                distinct.add(hashlib.sha1(json.dumps([scenario, auto, programs]).encode()).hexdigest())
            if len(samples) < 4 and i % 37 == 0:
                samples.append({"run": i, "scenario": scenario, "auto_refresh": auto, "programs": programs,
                                "writes": res["writes"], "interleaved": res["interleaved"]})
            for f in res["fails"]:
                totals[f["check"]] = totals.get(f["check"], 0) + 1
                lst = pending.setdefault(f["check"], [])
                if len(lst) < MAX_FAIL_PER_CLAUSE and not any(x["input"]["run"] == i for x in lst):
                    lst.append({"check": f["check"], "what": f["what"],
                                "input_key": "%s/auto%d/run%d/seed%d" % (scenario, int(auto), i, seed),
                                "input": {"seed": seed, "run": i, "scenario": scenario, "auto_refresh": auto,
                                          "programs": programs, "switchinterval": 1e-6},
                                "expected": f["expected"], "observed": f["observed"]})
            if any(f["check"] == "c11.no_deadlock" for f in res["fails"]):
                break  # stuck daemon threads are left behind; do not pile more on top
    finally:
        sys.setswitchinterval(old_interval)
    failures = [d for lst in pending.values() for d in lst]
    return {
        "evaluations": evaluations,
        "distinct_nontrivial": len(distinct),
        "rule": "runs: seeded (seed, index) -> scenario (none | live | progress, auto_refresh on/off) and 2-4 thread "
                "programs of 3-8 ops over {print 1-3 lines, log, capture(1-2 prints), live.update+refresh, "
                "progress.advance+refresh}; executed on real threads with sys.setswitchinterval(1e-6). The programs are "
                "deterministic per seed, the SCHEDULE IS NOT (inherently scheduling dependent, no schedule exploration): "
                "results may differ between runs of the same seed. distinct = sha1 of (scenario, programs); non-trivial = "
                "the recorded write() sequence shows that at least two threads really interleaved (A..B..A) in that run "
                "(%d of %d runs). Scenario mix: %s" % (interleaved_runs, evaluations, json.dumps(scen_count, sort_keys=True)),
        "bound": "%d runs x 2-4 threads x 3-8 ops, one Console(record=True, width 100) per run writing to an in-memory "
                 "file that records (thread id, text) per write; join timeout %.0f s; bounded stress only" % (evaluations, JOIN_TIMEOUT),
        "samples": samples,
        "clauses": clauses,
        "failures": failures,
        "failure_counts": totals,
        "seconds": round(time.time() - t_start, 2),
    }
