"""C11 - console thread-safety: a *bounded check only* (stress runs + two families of forced schedules).

Full schedule exploration (the quantifier of C11) is out of scope here: the stress part starts 2-4 real threads on
one Console, lets the OS / the interpreter pick the schedule (``sys.setswitchinterval(1e-6)`` to get many
preemptions) and checks the schedule-independent clauses of the statement on what actually happened:

  c11.print_contiguous_once   every print / log call outside a capture: its marker line(s) appear in the
                              concatenation of all ``file.write`` calls exactly once, the lines of one call
                              adjacent and in order (multi-line prints are one unbroken block)
  c11.capture_isolated        ``Capture.get()`` of a thread contains exactly that thread's markers printed
                              inside the capture, no print / log marker of any other thread, and none of the
                              captured markers reaches the file
  c11.record_order            with ``record=True`` the print / log markers in ``export_text()`` that also
                              reached the file are in the same order as in the file
  c11.record_complete         with ``record=True`` every print / log marker that reached the file is exactly once
                              in the recorded copy, where the recorded copy is what the export API hands out:
                              the ``export_text(clear=True)`` results of the (single) exporting thread in the
                              order of the calls, followed by a final ``export_text(clear=False)`` after all
                              threads have joined (c11.record_order is evaluated on the same recorded copy)
  c11.no_deadlock             every worker joins within the timeout and stopping the live display returns
  c11.no_exception            no worker raised

Markers are unique per call ("<P.run.thread.op.line>"), the live frame uses a different alphabet ("<F...>")
and is never counted as another thread's output.  Redirection of sys.stdout / sys.stderr is switched off
(process-global state).  The file object records (thread id, text) with one ``list.append`` per write call.

Results depend on the schedule the machine happens to produce: the programs are deterministic per seed, the
interleavings are not.  A pass is therefore weak evidence; a failure is a real observed violation (the input
records the programs; it may need several runs to reproduce).

In addition to the stress runs (family "stress"), two families of *forced* schedules are run first; they do not
depend on what the OS scheduler happens to do (the same clauses are evaluated on the outcome):

  family "ops"      two or three threads whose programs are split into atomic steps (``cap_enter`` / ``cap_exit``
                    and ``buf_enter`` / ``buf_exit`` open and close a ``console.capture()`` / ``with console:`` block
                    as separate steps, so that another thread can run whole calls while the block is open); a
                    token is handed from thread to thread and *every* interleaving of the steps is executed
                    (a seeded sample of them when there are more than the cap)
  family "preempt"  one preemption at source-line granularity: thread E runs ``print, X, print`` with ``sys.settrace``
                    counting the line events of X inside the modules that define the objects shared between the
                    threads (Console, Live, Progress); at the k-th line event E is suspended and a fresh thread P runs
                    the call Y to completion (or until it blocks on something E holds: its frame does not move any
                    more; E then goes on and P finishes later).  All k when X has at most ``cap`` line events,
                    otherwise ``cap`` evenly spread ones with a seeded offset.  X, Y range over print, log, a
                    capture block, a ``with console:`` block, ``export_text(clear=True)`` and (with a live display)
                    ``live.update(refresh=True)``.  Only one of the two threads exports.
"""

import hashlib
import io
import json
import math
import queue
import random
import re
import sys
import threading
import time
from typing import Any, Dict, Iterator, List, Optional, Tuple

from rich.console import Console
from rich.live import Live
from rich.progress import Progress, TextColumn

JOIN_TIMEOUT = 20.0
MAX_FAIL_PER_CLAUSE = 3
_MARK = re.compile(r"<([PL])\.(\d+)\.(\d+)\.(\d+)\.(\d+)>")
# family "preempt": the suspended thread polls the other one; it is taken to be blocked when its innermost frame
# has not moved for STALL_POLLS consecutive polls (a wrong guess only means that the two threads really run
# concurrently from there on - still a legal schedule, the clauses do not depend on the schedule)
POLL_S = 0.001
STALL_POLLS = 2      # ... and the kernel says that the thread sleeps (not: runnable but without a CPU)
STALL_POLLS_BLIND = 5  # where /proc is not there
FORCED_RUN_BASE = 1000000  # run ids of the forced schedules (markers stay unique and recognisable)


class RecFile(io.TextIOBase):
    """Text sink: one atomic ``list.append((thread id, text))`` per write call."""

    encoding = "utf-8"

    def __init__(self) -> None:
        self.records: List[Tuple[int, str]] = []

    def write(self, text: str) -> int:
        self.records.append((threading.get_ident(), text))
        return len(text)

    def flush(self) -> None:
        pass

    def isatty(self) -> bool:
        return True

    def text(self) -> str:
        return "".join(t for _, t in list(self.records))


def _marker(kind: str, run: int, thread: int, op: int, line: int) -> str:
    return "<%s.%d.%d.%d.%d>" % (kind, run, thread, op, line)


def gen_programs(rng: random.Random, scenario: str) -> List[List[list]]:
    n_threads = rng.randint(2, 4)
    programs = []
    for _ in range(n_threads):
        prog = []
        for _ in range(rng.randint(3, 8)):
            r = rng.random()
            if r < 0.4:
                prog.append(["print", rng.randint(1, 3)])
            elif r < 0.52:
                prog.append(["log"])
            elif r < 0.72:
                prog.append(["capture", rng.randint(1, 2), rng.randint(1, 2)])  # prints inside, lines each
            elif scenario == "live":
                prog.append(["live_update", rng.randint(0, 3)])
            elif scenario == "progress":
                prog.append(["advance", rng.choice([1, 2, 0.5])])
            else:
                prog.append(["print", 1])
        programs.append(prog)
    return programs


def add_exports(rng: random.Random, programs: List[List[list]]) -> None:
    """In about half of the stress runs thread 0 (and only thread 0: the order of the exports is then the order
    of its calls) also takes the recording out with ``export_text(clear=True)`` 1-2 times while the others print.
    A separate generator: the programs of ``gen_programs`` stay what they were."""
    if rng.random() < 0.5:
        for _ in range(rng.randint(1, 2)):
            programs[0].insert(rng.randint(1, len(programs[0])), ["export"])


class _Ctx:
    """One console on a recording file (+ optionally a running live display / progress) and the per-thread notes."""

    def __init__(self, run_id: int, scenario: str, auto_refresh: bool, n_threads: int) -> None:
        self.run_id = run_id
        self.file = RecFile()
        self.console = Console(file=self.file, force_terminal=True, width=100, height=40, color_system=None,
                               legacy_windows=False, record=True, log_path=False, log_time=False, _environ={})
        self.live: Optional[Live] = None
        self.progress: Optional[Progress] = None
        self.task_id = None
        if scenario == "live":
            self.live = Live("<F.init>", console=self.console, auto_refresh=auto_refresh, refresh_per_second=200,
                             redirect_stdout=False, redirect_stderr=False)
            self.live.start()
        elif scenario == "progress":
            self.progress = Progress(TextColumn("<F.{task.completed}>"), console=self.console, auto_refresh=auto_refresh,
                                     refresh_per_second=200, redirect_stdout=False, redirect_stderr=False)
            self.task_id = self.progress.add_task("t", total=1000)
            self.progress.start()
        self.results: List[dict] = [{"printed": [], "captures": [], "error": None, "done": False, "open": []}
                                    for _ in range(n_threads)]
        self.exports: List[str] = []  # export_text(clear=True) results; only ever appended by ONE thread per run


def _fmt_error(error: BaseException) -> str:
    import traceback

    return "%s: %s\n%s" % (type(error).__name__, error, traceback.format_exc(limit=-3))


def _exec_op(ctx: _Ctx, t: int, i: int, op: list) -> None:
    """Thread ``t`` executes step ``i`` of its program and notes what it did."""
    console = ctx.console
    run_id = ctx.run_id
    res = ctx.results[t]
    name = op[0]
    # print / log inside a capture block that this thread has opened with a separate step belongs to that capture
    dest = res["printed"]
    for entry in reversed(res["open"]):
        if entry[0] == "cap":
            dest = entry[3]
            break
    if name == "print":
        marks = [_marker("P", run_id, t, i, k) for k in range(op[1])]
        console.print("\n".join(marks))
        dest.append(marks)
    elif name == "log":
        marks = [_marker("L", run_id, t, i, 0)]
        console.log(marks[0])
        dest.append(marks)
    elif name == "capture":
        inside = []
        with console.capture() as cap:
            for j in range(op[1]):
                marks = [_marker("P", run_id, t, i, j * 10 + k) for k in range(op[2])]
                console.print("\n".join(marks))
                inside.append(marks)
        res["captures"].append({"marks": inside, "text": cap.get(), "op": i})
    elif name == "buffered":  # a ``with console:`` block: the prints are written when the block is left
        with console:
            for j in range(op[1]):
                marks = [_marker("P", run_id, t, i, j * 10)]
                console.print(marks[0])
                dest.append(marks)
    elif name == "live_update":
        ctx.live.update("\n".join("<F.%d.%d.%d>" % (t, i, k) for k in range(op[1])), refresh=True)
    elif name == "advance":
        ctx.progress.advance(ctx.task_id, op[1])
        ctx.progress.refresh()
    elif name == "export":
        ctx.exports.append(console.export_text(clear=True))
    elif name == "cap_enter":
        cap = console.capture()
        cap.__enter__()
        res["open"].append(["cap", cap, i, []])
    elif name == "cap_exit":
        _, cap, i0, inside = res["open"].pop()
        cap.__exit__(None, None, None)
        res["captures"].append({"marks": inside, "text": cap.get(), "op": i0})
    elif name == "buf_enter":
        console.__enter__()
        res["open"].append(["buf", None, i, None])
    elif name == "buf_exit":
        res["open"].pop()
        console.__exit__(None, None, None)
    else:  # pragma: no cover
        raise ValueError("unknown op %r" % (op,))


def _join_and_judge(ctx: _Ctx, threads: List[threading.Thread], t0: float, already_stuck: Optional[List[str]] = None) -> Tuple[List[dict], bool]:
    """Join the threads, stop the display, evaluate every clause.  Returns (failures, judged)."""
    console, file, results = ctx.console, ctx.file, ctx.results
    live, progress = ctx.live, ctx.progress
    deadline = t0 + JOIN_TIMEOUT
    stuck = list(already_stuck or [])
    if not stuck:
        for th in threads:
            th.join(max(0.0, deadline - time.time()))
        stuck = [th.name for th in threads if th.is_alive()]
    stop_stuck = False
    if not stuck and (live is not None or progress is not None):
        stopper = threading.Thread(target=(live or progress).stop, daemon=True)
        stopper.start()
        stopper.join(JOIN_TIMEOUT)
        stop_stuck = stopper.is_alive()

    fails: List[dict] = []

    def fail(check, what, expected, observed):
        fails.append({"check": check, "what": what, "expected": expected, "observed": observed})

    if stuck or stop_stuck:
        fail("c11.no_deadlock", "threads still alive after %.0f s: %s%s" % (JOIN_TIMEOUT, stuck, " + stop()" if stop_stuck else ""),
             "all threads join", {"stuck": stuck, "stop_stuck": stop_stuck})
        return fails, False
    for t, res in enumerate(results):
        if res["error"]:
            fail("c11.no_exception", "worker %d raised" % t, "no exception", res["error"][:600])
    if any(r["error"] for r in results):
        return fails, False

    text = file.text()
    # ---- each print reaches the file contiguously and exactly once
    for t, res in enumerate(results):
        for marks in res["printed"]:
            for m in marks:
                c = text.count(m)
                if c != 1:
                    fail("c11.print_contiguous_once", "marker %s of thread %d appears %d times in the file" % (m, t, c), 1, c)
            if len(marks) > 1 and all(text.count(m) == 1 for m in marks):
                block = "\n".join(marks)
                if block not in text:
                    i0 = text.find(marks[0])
                    fail("c11.print_contiguous_once", "lines of one print call of thread %d are not adjacent in the file" % t,
                         block, text[i0: i0 + len(block) + 120])
    # ---- capture isolation
    for t, res in enumerate(results):
        for cap in res["captures"]:
            own = [m for marks in cap["marks"] for m in marks]
            found = [mm.group(0) for mm in _MARK.finditer(cap["text"])]
            if found != own:
                fail("c11.capture_isolated",
                     "capture of thread %d (op %d) does not hold exactly its own markers in order" % (t, cap["op"]), own, found)
            leaked = [m for m in own if m in text]
            if leaked:
                fail("c11.capture_isolated", "captured text of thread %d (op %d) was also written to the file" % (t, cap["op"]),
                     [], leaked)
    # ---- record order == file order (markers that reached the file); the recorded copy is what the export API
    #      handed out: the export_text(clear=True) results of the exporting thread in call order, then the rest
    exports = list(ctx.exports)
    exported = "".join(exports) + console.export_text(clear=False)
    file_seq = [mm.group(0) for mm in _MARK.finditer(text)]
    in_file = set(file_seq)
    rec_all = [mm.group(0) for mm in _MARK.finditer(exported)]
    rec_seq = [m for m in rec_all if m in in_file]
    if rec_seq != file_seq:
        d = 0
        while d < len(rec_seq) and d < len(file_seq) and rec_seq[d] == file_seq[d]:
            d += 1
        fail("c11.record_order", "markers in export_text() are not in file order (first difference at #%d)" % d,
             file_seq[max(0, d - 1): d + 3], rec_seq[max(0, d - 1): d + 3])
    # ---- every marker that reached the file is exactly once in the recorded copy
    rec_count: Dict[str, int] = {}
    for m in rec_all:
        rec_count[m] = rec_count.get(m, 0) + 1
    wrong = [(m, rec_count.get(m, 0)) for m in dict.fromkeys(file_seq) if rec_count.get(m, 0) != 1]
    if wrong:
        fail("c11.record_complete",
             "%d marker(s) that reached the file are not exactly once in the recorded copy (%d export_text(clear=True) "
             "calls + the final export): %s" % (len(wrong), len(exports), ", ".join("%s x%d" % w for w in wrong[:4])),
             {"file": file_seq[:12]}, {"exports": [[mm.group(0) for mm in _MARK.finditer(e)] for e in exports][:6],
                                       "final": [mm.group(0) for mm in _MARK.finditer(exported[len("".join(exports)):])][:12]})
    return fails, True


def _interleaved(file: RecFile) -> bool:
    """Did the schedule interleave at all (some thread wrote, another wrote, the first wrote again)?"""
    order = [tid for tid, _ in file.records]
    seen_after: Dict[int, bool] = {}
    last = None
    for tid in order:
        if tid != last:
            if tid in seen_after:
                return True
            if last is not None:
                seen_after[last] = True
            last = tid
    return False


def run_once(run_id: int, scenario: str, programs: List[List[list]], auto_refresh: bool) -> dict:
    n = len(programs)
    ctx = _Ctx(run_id, scenario, auto_refresh, n)
    barrier = threading.Barrier(n)

    def worker(t: int) -> None:
        res = ctx.results[t]
        try:
            barrier.wait(JOIN_TIMEOUT)
            for i, op in enumerate(programs[t]):
                _exec_op(ctx, t, i, op)
            res["done"] = True
        except BaseException as error:  # noqa: B902 - reported as a failure, never swallowed
            res["error"] = _fmt_error(error)

    threads = [threading.Thread(target=worker, args=(t,), daemon=True, name="c11-%d-%d" % (run_id, t)) for t in range(n)]
    t0 = time.time()
    for th in threads:
        th.start()
    fails, judged = _join_and_judge(ctx, threads, t0)
    return {"fails": fails, "interleaved": judged and _interleaved(ctx.file), "writes": len(ctx.file.records)}


# ----------------------------------------------------------------------------------------------------------------
# forced schedules: a few long-lived threads that execute one job at a time (a new Console per run: its
# thread-local state is fresh for every run although the threads are reused)

class _Pool:
    def __init__(self, n: int) -> None:
        self.inbox = [queue.SimpleQueue() for _ in range(n)]
        self.done = [threading.Semaphore(0) for _ in range(n)]
        self.broken = False
        self.threads = [threading.Thread(target=self._loop, args=(t,), daemon=True, name="c11-forced-%d" % t) for t in range(n)]
        for th in self.threads:
            th.start()

    def _loop(self, t: int) -> None:
        while True:
            job = self.inbox[t].get()
            if job is None:
                return
            try:
                job()
            except BaseException:  # noqa: B902 - the jobs note their own errors
                pass
            finally:
                self.done[t].release()

    def post(self, t: int, job) -> None:
        self.inbox[t].put(job)

    def wait(self, t: int, timeout: float) -> bool:
        ok = self.done[t].acquire(timeout=max(0.0, timeout))
        if not ok:
            self.broken = True
        return ok

    def close(self) -> None:
        for q in self.inbox:
            q.put(None)


def _kernel_state(native_id: Optional[int]) -> Optional[str]:
    """'R' running / runnable, 'S' sleeping (e.g. waiting for a lock), ... of a thread of this process; None if unknown."""
    try:
        with open("/proc/self/task/%d/stat" % native_id) as f:
            data = f.read()
        return data[data.rindex(")") + 2]
    except Exception:
        return None


# ----------------------------------------------------------------------------------------------------------------
# family "ops": every interleaving of the steps of small programs (token passing, one step at a time)

OPS_PROGRAMS: List[Tuple[str, List[List[list]]]] = [
    # another thread prints / logs / exports while a capture block is open
    ("none", [[["cap_enter"], ["print", 2], ["print", 1], ["cap_exit"], ["print", 1]],
              [["print", 1], ["log"], ["export"]]]),
    # ... while a ``with console:`` block is open
    ("none", [[["buf_enter"], ["print", 1], ["print", 2], ["buf_exit"], ["print", 1]],
              [["print", 2], ["capture", 1, 1], ["export"]]]),
    # two capture blocks open at the same time
    ("none", [[["cap_enter"], ["log"], ["cap_exit"], ["export"]],
              [["cap_enter"], ["print", 1], ["cap_exit"], ["print", 1]]]),
    # three threads
    ("none", [[["cap_enter"], ["print", 1], ["cap_exit"]], [["print", 1]], [["log"], ["export"]]]),
    # with a live display / a progress display that is refreshed by hand
    ("live", [[["cap_enter"], ["print", 1], ["cap_exit"], ["print", 1]],
              [["live_update", 1], ["print", 1], ["export"]]]),
    ("progress", [[["cap_enter"], ["print", 1], ["cap_exit"]], [["advance", 1], ["print", 2]]]),
]


def gen_ops_programs(rng: random.Random) -> Tuple[str, List[List[list]]]:
    """A seeded program pair of the same kind: thread 0 opens a block and prints in it, thread 1 runs whole calls."""
    scenario = rng.choice(["none", "none", "live", "progress"])
    kind = rng.choice(["cap", "cap", "buf"])
    a: List[list] = []
    if rng.random() < 0.5:
        a.append(rng.choice([["print", 1], ["log"]]))
    a.append([kind + "_enter"])
    for _ in range(rng.randint(1, 2)):
        a.append(rng.choice([["print", 1], ["print", 2], ["log"]]))
    a.append([kind + "_exit"])
    if rng.random() < 0.6:
        a.append(["print", rng.randint(1, 2)])
    menu = [["print", 1], ["print", 2], ["log"], ["capture", 1, 1], ["export"], ["buffered", 1]]
    if scenario == "live":
        menu.append(["live_update", 1])
    if scenario == "progress":
        menu.append(["advance", 1])
    b = [list(rng.choice(menu)) for _ in range(rng.randint(2, 3))]
    return scenario, [a, b]


def _n_interleavings(counts: List[int]) -> int:
    total = math.factorial(sum(counts))
    for c in counts:
        total //= math.factorial(c)
    return total


def _all_interleavings(counts: List[int]) -> Iterator[List[int]]:
    def rec(left: List[int], acc: List[int]) -> Iterator[List[int]]:
        if not any(left):
            yield list(acc)
            return
        for t, c in enumerate(left):
            if c:
                left[t] -= 1
                acc.append(t)
                yield from rec(left, acc)
                acc.pop()
                left[t] += 1

    yield from rec(list(counts), [])


def schedules_for(counts: List[int], cap: int, rng: random.Random) -> List[List[int]]:
    if _n_interleavings(counts) <= cap:
        return list(_all_interleavings(counts))
    base = [t for t, c in enumerate(counts) for _ in range(c)]
    seen = set()
    out = []
    tries = 0
    while len(out) < cap and tries < cap * 20:
        tries += 1
        s = list(base)
        rng.shuffle(s)
        if tuple(s) not in seen:
            seen.add(tuple(s))
            out.append(s)
    return out


def run_schedule(pool: _Pool, run_id: int, scenario: str, programs: List[List[list]], schedule: List[int]) -> dict:
    """Execute the steps of the programs in exactly the order ``schedule`` (a list of thread indexes)."""
    n = len(programs)
    ctx = _Ctx(run_id, scenario, False, n)
    t0 = time.time()
    nxt = [0] * n
    stuck: List[str] = []

    def step_job(t: int, i: int, op: list):
        def job() -> None:
            res = ctx.results[t]
            try:
                if res["error"] is None:
                    _exec_op(ctx, t, i, op)
            except BaseException as error:  # noqa: B902
                res["error"] = _fmt_error(error)
        return job

    for step, t in enumerate(schedule):
        i = nxt[t]
        nxt[t] += 1
        pool.post(t, step_job(t, i, programs[t][i]))
        if not pool.wait(t, JOIN_TIMEOUT):
            stuck = ["%s (step %d of the schedule, %r, does not return although no other thread is inside a call)"
                     % (pool.threads[t].name, step, programs[t][i])]
            break
    fails, judged = _join_and_judge(ctx, [], t0, already_stuck=stuck)
    switches = sum(1 for a, b in zip(schedule, schedule[1:]) if a != b)
    return {"fails": fails, "interleaved": judged and switches >= 2, "writes": len(ctx.file.records),
            "n_print": sum(len(r["printed"]) for r in ctx.results), "n_capt": sum(len(r["captures"]) for r in ctx.results)}


# ----------------------------------------------------------------------------------------------------------------
# family "preempt": one preemption at a source line of the call X, the call Y runs there

def shared_object_files() -> frozenset:
    """Source files of the modules that define the objects the threads share (Console, Live, Progress)."""
    files = set()
    for cls in (Console, Live, Progress):
        f = getattr(sys.modules.get(cls.__module__), "__file__", None)
        if f:
            files.add(f)
    return frozenset(files)


class _Preempter:
    """``sys.settrace`` hook of thread E: counts the line events in ``files``; at the k-th one calls ``hand_over``."""

    def __init__(self, files: frozenset, k: int, hand_over) -> None:
        self.files = files
        self.k = k
        self.hand_over = hand_over
        self.count = 0
        self.fired = False
        self.where: Optional[str] = None

    def global_trace(self, frame, event, arg):
        if frame.f_code.co_filename in self.files:
            return self.local_trace
        return None

    def local_trace(self, frame, event, arg):
        if event == "line":
            self.count += 1
            if self.count == self.k and not self.fired:
                self.fired = True
                self.where = "%s:%d (%s)" % (frame.f_code.co_filename.rsplit("/", 1)[-1], frame.f_lineno, frame.f_code.co_name)
                self.hand_over()
        return self.local_trace


def run_preempt(pool: _Pool, run_id: int, scenario: str, x: list, y: list, k: int, files: frozenset) -> dict:
    """Thread E (index 0): print, X, print.  At the k-th line event of X thread P (index 1) runs Y.
    k == 0: no preemption (Y runs after E has finished); used to count the line events of X."""
    ctx = _Ctx(run_id, scenario, False, 2)
    state = {"handed": False, "posted": False, "collected": False}
    p_thread = pool.threads[1]

    def p_main() -> None:
        res = ctx.results[1]
        try:
            _exec_op(ctx, 1, 0, y)
            res["done"] = True
        except BaseException as error:  # noqa: B902
            res["error"] = _fmt_error(error)

    def hand_over() -> None:
        # E is suspended here (inside its trace hook) until P is through, or until P does not move any more
        state["posted"] = True
        pool.post(1, p_main)
        last = None
        same = 0
        t_end = time.time() + JOIN_TIMEOUT
        while time.time() < t_end:
            if pool.done[1].acquire(timeout=POLL_S):
                state["handed"] = state["collected"] = True
                return
            frame = sys._current_frames().get(p_thread.ident)
            kstate = _kernel_state(p_thread.native_id)
            key = (id(frame), frame.f_lasti, kstate) if frame is not None else None
            if key == last:
                same += 1
                if (kstate == "S" and same >= STALL_POLLS) or (kstate is None and same >= STALL_POLLS_BLIND):
                    return
            else:
                last, same = key, 0

    pre = _Preempter(files, k, hand_over)

    def e_main() -> None:
        res = ctx.results[0]
        try:
            _exec_op(ctx, 0, 0, ["print", 1])
            sys.settrace(pre.global_trace)
            try:
                _exec_op(ctx, 0, 1, x)
            finally:
                sys.settrace(None)
            _exec_op(ctx, 0, 2, ["print", 1])
            res["done"] = True
        except BaseException as error:  # noqa: B902
            res["error"] = _fmt_error(error)

    t0 = time.time()
    stuck: List[str] = []
    pool.post(0, e_main)
    if not pool.wait(0, JOIN_TIMEOUT):
        stuck.append(pool.threads[0].name + " (E: print, X, print)")
    else:
        if not state["posted"]:
            state["posted"] = True
            pool.post(1, p_main)
        if not state["collected"] and not pool.wait(1, t0 + JOIN_TIMEOUT - time.time()):
            stuck.append(pool.threads[1].name + " (P: Y)")
    fails, judged = _join_and_judge(ctx, [], t0, already_stuck=stuck)
    return {"fails": fails, "interleaved": judged and pre.fired and state["handed"], "writes": len(ctx.file.records),
            "count": pre.count, "fired": pre.fired, "handed": state["handed"], "where": pre.where,
            "n_print": sum(len(r["printed"]) for r in ctx.results), "n_capt": sum(len(r["captures"]) for r in ctx.results)}


def preempt_points(n: int, full: int, cap: int, rng: random.Random) -> List[int]:
    """Every line-event position of a call that has at most ``full`` of them, else ``cap`` evenly spread ones."""
    if n <= max(full, cap):
        return list(range(1, n + 1))
    step = n / float(cap)
    u = rng.random()
    return sorted({min(n, 1 + int((j + u) * step)) for j in range(cap)})


def preempt_pairs(quick: bool) -> List[Tuple[str, list, list]]:
    xs = [["export"], ["print", 2], ["log"], ["capture", 1, 1], ["buffered", 1]]
    ys = [["print", 1], ["log"], ["capture", 1, 1], ["export"]]
    pairs = [("none", x, y) for x in xs for y in ys if not (x[0] == "export" and y[0] == "export")]
    if quick:
        live_xs = [["live_update", 1], ["print", 1], ["export"]]
        live_ys = [["print", 1], ["live_update", 1]]
    else:
        live_xs = [["live_update", 1], ["print", 1], ["export"], ["capture", 1, 1], ["log"]]
        live_ys = [["print", 1], ["live_update", 1], ["capture", 1, 1], ["export"]]
        pairs += [("progress", x, y) for x in (["advance", 1], ["print", 1], ["export"]) for y in (["print", 1], ["advance", 1])]
    pairs += [("live", x, y) for x in live_xs for y in live_ys if not (x[0] == "export" and y[0] == "export")]
    return pairs


def run(tier: str, seed: int) -> dict:
    """Watchdog wrapper (added by the maintainer of /verif): the stress run happens in a child process so that
    a deadlock in the code under check — including one that blocks the main thread inside stop() — is
    reported as a failure of c11.no_deadlock instead of hanging the check."""
    import multiprocessing as mp

    limit = 150.0 if tier != "thorough" else 900.0
    ctx = mp.get_context("fork")
    parent, child = ctx.Pipe(duplex=False)
    progress = ctx.Value("i", -1)

    def target():
        try:
            child.send(_run_inner(tier, seed, progress))
        except BaseException as e:  # noqa
            child.send({"__error__": repr(e)})

    proc = ctx.Process(target=target, daemon=True)
    t0 = time.time()
    proc.start()
    res = None
    if parent.poll(limit):
        try:
            res = parent.recv()
        except EOFError:
            res = None
    if res is None or "__error__" in (res or {}):
        where = progress.value
        proc.kill()
        proc.join(5)
        what = ("the stress run did not finish within %.0f s: a thread (or the main thread inside start()/stop()) is blocked — deadlock; "
                "last run started: #%d" % (limit, where)) if res is None else "stress harness crashed: %s" % res["__error__"]
        return {"evaluations": max(where, 1), "distinct_nontrivial": 2, "rule": "watchdog result: the child process running the stress runs was killed",
                "bound": "tier %s, seed %d" % (tier, seed), "samples": [{"last_run_started": where}], "clauses": {"c11.no_deadlock": max(where, 1)},
                "failures": [{"check": "c11.no_deadlock", "what": what, "input_key": "run#%d seed=%d" % (where, seed), "input": {"seed": seed, "run_index": where, "tier": tier},
                              "expected": "every run joins all its threads", "observed": "blocked for %.0f s" % (time.time() - t0)}]}
    proc.join(10)
    return res


def _run_inner(tier: str, seed: int, progress=None) -> dict:
    t_start = time.time()
    quick = tier != "thorough"
    n_runs = 600 if quick else 12000
    budget = 22.0 if quick else 540.0
    clauses: Dict[str, int] = {}
    pending: Dict[str, List[dict]] = {}
    totals: Dict[str, int] = {}
    samples: List[Any] = []
    distinct = set()
    evaluations = 0
    interleaved_runs = 0
    scen_count: Dict[str, int] = {}
    deadlocked = False

    def account(res: dict, n_print: int, n_capt: int, run: int, input_key: str, inp: dict, ident: Any) -> None:
        nonlocal evaluations, interleaved_runs, deadlocked
        evaluations += 1
        clauses["c11.print_contiguous_once"] = clauses.get("c11.print_contiguous_once", 0) + n_print
        clauses["c11.capture_isolated"] = clauses.get("c11.capture_isolated", 0) + n_capt
        for name in ("c11.record_order", "c11.record_complete", "c11.no_deadlock", "c11.no_exception"):
            clauses[name] = clauses.get(name, 0) + 1
        if res["interleaved"]:
            interleaved_runs += 1
            distinct.add(hashlib.sha1(json.dumps(ident).encode()).hexdigest())
        for f in res["fails"]:
            totals[f["check"]] = totals.get(f["check"], 0) + 1
            lst = pending.setdefault(f["check"], [])
            if len(lst) < MAX_FAIL_PER_CLAUSE and not any(x["input"]["run"] == run for x in lst):
                lst.append({"check": f["check"], "what": f["what"], "input_key": input_key, "input": dict(inp, seed=seed, run=run),
                            "expected": f["expected"], "observed": f["observed"]})
        if any(f["check"] == "c11.no_deadlock" for f in res["fails"]):
            deadlocked = True  # stuck daemon threads are left behind; do not pile more on top

    # ------------------------------------------------------------------ forced schedules, family "ops"
    forced_stats = {"ops_programs": 0, "ops_schedules": 0, "preempt_pairs": 0, "preempt_runs": 0, "preempt_handed": 0}
    run_id = FORCED_RUN_BASE
    pool = _Pool(max(len(p) for _, p in OPS_PROGRAMS))
    ops_cap = 40 if quick else 200
    ops_list = [(s, p, "fixed%d" % j) for j, (s, p) in enumerate(OPS_PROGRAMS)]
    for j in range(4 if quick else 40):
        rng = random.Random("c11:ops:%d:%d" % (seed, j))
        s, p = gen_ops_programs(rng)
        ops_list.append((s, p, "gen%d" % j))
    for scenario, programs, label in ops_list:
        if deadlocked:
            break
        rng = random.Random("c11:ops-sched:%d:%s" % (seed, label))
        scheds = schedules_for([len(p) for p in programs], ops_cap if label.startswith("fixed") else ops_cap // 2, rng)
        forced_stats["ops_programs"] += 1
        for sched in scheds:
            if deadlocked:
                break
            run_id += 1
            if progress is not None:
                progress.value = run_id
            res = run_schedule(pool, run_id, scenario, programs, sched)
            forced_stats["ops_schedules"] += 1
            scen_count["ops/" + scenario] = scen_count.get("ops/" + scenario, 0) + 1
            account(res, res["n_print"], res["n_capt"], run_id,
                    "ops/%s/%s/%s/seed%d" % (scenario, label, "".join(map(str, sched)), seed),
                    {"family": "ops", "scenario": scenario, "programs": programs, "schedule": sched},
                    ["ops", scenario, programs, sched])
            if len(samples) < 1:
                samples.append({"family": "ops", "run": run_id, "scenario": scenario, "programs": programs, "schedule": sched,
                                "writes": res["writes"]})

    # ------------------------------------------------------------------ forced schedules, family "preempt"
    files = shared_object_files()
    for scenario, x, y in preempt_pairs(quick):
        if deadlocked:
            break
        if quick:
            full, cap = (64, 24) if scenario == "none" else (0, 12)
        else:
            full, cap = (100000, 100000) if scenario == "none" else (0, 150)
        run_id += 1
        if progress is not None:
            progress.value = run_id
        dry = run_preempt(pool, run_id, scenario, x, y, 0, files)
        account(dry, dry["n_print"], dry["n_capt"], run_id, "preempt/%s/%s/%s/k0/seed%d" % (scenario, x[0], y[0], seed),
                {"family": "preempt", "scenario": scenario, "x": x, "y": y, "k": 0}, ["preempt", scenario, x, y, 0])
        forced_stats["preempt_pairs"] += 1
        rng = random.Random("c11:preempt:%d:%s:%s:%s" % (seed, scenario, json.dumps(x), json.dumps(y)))
        for k in preempt_points(dry["count"], full, cap, rng):
            if deadlocked:
                break
            run_id += 1
            if progress is not None:
                progress.value = run_id
            res = run_preempt(pool, run_id, scenario, x, y, k, files)
            forced_stats["preempt_runs"] += 1
            forced_stats["preempt_handed"] += 1 if res["handed"] else 0
            scen_count["preempt/" + scenario] = scen_count.get("preempt/" + scenario, 0) + 1
            account(res, res["n_print"], res["n_capt"], run_id,
                    "preempt/%s/%s/%s/k%d/seed%d" % (scenario, x[0], y[0], k, seed),
                    {"family": "preempt", "scenario": scenario, "x": x, "y": y, "k": k, "of": dry["count"], "at": res["where"],
                     "y_completed_at_the_preemption_point": res["handed"]},
                    ["preempt", scenario, x, y, k])
            if len(samples) < 2 and res["handed"]:
                samples.append({"family": "preempt", "run": run_id, "scenario": scenario, "x": x, "y": y, "k": k,
                                "of": dry["count"], "at": res["where"], "writes": res["writes"]})
    if not pool.broken:
        pool.close()
    t_forced = time.time() - t_start

    # ------------------------------------------------------------------ stress runs
    t_stress = time.time()
    old_interval = sys.getswitchinterval()
    sys.setswitchinterval(1e-6)
    stress_runs = 0
    try:
        for i in range(n_runs):
            if deadlocked or time.time() - t_stress > budget:
                break
            if progress is not None:
                progress.value = i
            rng = random.Random("c11:%d:%d" % (seed, i))
            scenario = rng.choice(["none", "live", "live", "progress"])
            auto = rng.random() < 0.5
            programs = gen_programs(rng, scenario)
            add_exports(random.Random("c11:export:%d:%d" % (seed, i)), programs)
            res = run_once(i, scenario, programs, auto)
            stress_runs += 1
            scen_count[scenario] = scen_count.get(scenario, 0) + 1
            n_print = sum(1 for p in programs for op in p if op[0] in ("print", "log"))
            n_capt = sum(1 for p in programs for op in p if op[0] == "capture")
            if len(samples) < 6 and i % 37 == 0:
                samples.append({"family": "stress", "run": i, "scenario": scenario, "auto_refresh": auto, "programs": programs,
                                "writes": res["writes"], "interleaved": res["interleaved"]})
            account(res, n_print, n_capt, i, "%s/auto%d/run%d/seed%d" % (scenario, int(auto), i, seed),
                    {"family": "stress", "scenario": scenario, "auto_refresh": auto, "programs": programs, "switchinterval": 1e-6},
                    [scenario, auto, programs])
    finally:
        sys.setswitchinterval(old_interval)
    failures = [d for lst in pending.values() for d in lst]
    return {
        "evaluations": evaluations,
        "distinct_nontrivial": len(distinct),
        "rule": "stress runs: seeded (seed, index) -> scenario (none | live | progress, auto_refresh on/off) and 2-4 thread "
                "programs of 3-8 ops over {print 1-3 lines, log, capture(1-2 prints), live.update+refresh, "
                "progress.advance+refresh}, thread 0 in half of the runs also export_text(clear=True) 1-2 times; executed on "
                "real threads with sys.setswitchinterval(1e-6). The programs are "
                "deterministic per seed, the SCHEDULE IS NOT (inherently scheduling dependent, no schedule exploration): "
                "results may differ between runs of the same seed. Forced schedules (schedule fixed by the input): family "
                "ops = every interleaving (at most the cap, then a seeded sample) of the steps of %d small programs in which "
                "opening and closing a capture / `with console:` block are steps of their own (token passing, %d schedules); "
                "family preempt = thread E runs print, X, print and is suspended at the k-th line event of X inside the "
                "modules of Console / Live / Progress while a new thread runs the call Y (%d (X, Y) pairs, %d runs, in %d of "
                "them Y ran to completion at the preemption point, in the others it blocked on something E holds). "
                "distinct = sha1 of (family, scenario, programs, schedule | X, Y, k); non-trivial = stress: "
                "the recorded write() sequence shows that at least two threads really interleaved (A..B..A) in that run; "
                "ops: the schedule switches threads at least twice; preempt: Y completed while X was suspended "
                "(%d of %d runs non-trivial). Scenario mix: %s"
                % (forced_stats["ops_programs"], forced_stats["ops_schedules"], forced_stats["preempt_pairs"],
                   forced_stats["preempt_runs"], forced_stats["preempt_handed"], interleaved_runs, evaluations,
                   json.dumps(scen_count, sort_keys=True)),
        "bound": "%d stress runs x 2-4 threads x 3-8 ops; %d forced op-level schedules of 2-3 threads x 1-6 steps (cap %d per "
                 "program); %d single-preemption runs (%s line-event positions of X per (X, Y) pair); one "
                 "Console(record=True, width 100) per run writing to an in-memory "
                 "file that records (thread id, text) per write; join timeout %.0f s; bounded check only"
                 % (stress_runs, forced_stats["ops_schedules"], ops_cap, forced_stats["preempt_runs"],
                    ("all if X has at most 64 of them, else 24 evenly spread; 12 evenly spread with a live display:" if quick
                     else "all; 150 evenly spread with a live / progress display:"), JOIN_TIMEOUT),
        "samples": samples,
        "clauses": clauses,
        "failures": failures,
        "failure_counts": totals,
        "seconds": round(time.time() - t_start, 2),
        "phase_seconds": {"forced": round(t_forced, 2), "stress": round(time.time() - t_stress, 2)},
    }
