"""C07 - Tables are rectangles that show every cell in its own column (bounded run-time check).

The oracle is written from the property text:

  (a) every line of the rendered table *body* (title / caption lines excluded) has the same cell width, and
      that width is "borders plus the column widths";
  (b) when the table is asked to expand (``expand=True`` or an explicit ``width``) and no column carries an
      explicit ``width`` / ``max_width`` cap, the body width is exactly the available width (the console
      width, or the table's own ``width`` when given);
  (c) rows appear in insertion order between header and footer, each on lines of its own;
  (d) for columns with overflow ``fold`` every non-whitespace character of every cell appears, in order,
      inside that column's span of cells and nowhere else.

Every cell is filled with characters that occur nowhere else in the table ("markers"), so (c) and (d) are
decided by looking the characters of the output up in a map  character -> (row, column).  Column spans
are computed by the oracle from the width vector the table solved for (observed once, while it renders) plus
the border/divider cells the property text implies; that the borders drawn really sit at those offsets is
checked on every line (clause ``c07.border_positions``), so the spans are tied to what is on the screen.

Cell widths are measured with ``vf.rtc.specnative.cells`` (linear expansion of the width table), never with
``rich.cells``.
"""
from __future__ import annotations

import copy
import hashlib
import io
import json
import os
import random
import time
import unicodedata
from multiprocessing import get_context
from typing import Any, Dict, List, Optional, Tuple

from vf.rtc.specnative import width_table

MAX_FAIL = 3

BOX_NAMES = [
    None, "ASCII", "ASCII2", "ASCII_DOUBLE_HEAD", "SQUARE", "SQUARE_DOUBLE_HEAD", "MINIMAL",
    "MINIMAL_HEAVY_HEAD", "MINIMAL_DOUBLE_HEAD", "SIMPLE", "SIMPLE_HEAD", "SIMPLE_HEAVY", "HORIZONTALS",
    "ROUNDED", "HEAVY", "HEAVY_EDGE", "HEAVY_HEAD", "DOUBLE", "DOUBLE_EDGE",
]
QUICK_BOXES = [None, "ASCII", "HEAVY_HEAD", "SIMPLE", "MINIMAL_DOUBLE_HEAD", "ROUNDED", "HORIZONTALS", "DOUBLE_EDGE", None, "SQUARE"]
JUSTIFY = ["left", "center", "right", "full"]
OVERFLOW = ["fold", "fold", "crop", "ellipsis"]
PADDINGS = [0, 1, (0, 1), (0, 1), (0, 1), (1, 0), (0, 2), (1, 2), (0, 2, 0, 1), (1, 0, 1, 3), (0, 1, 1, 2), (2, 3, 0, 0)]
ROW_STYLES = [None, None, ["dim", ""], ["on red", "none", "bold"], ["italic"]]
TITLE = "%% %%%"
CAPTION = "@@ @@@"
TITLE_CH = "%"
CAPTION_CH = "@"

# --------------------------------------------------------------------------------------------------------
# width oracle and marker pools


def _cw(ch: str) -> int:
    return width_table()[ord(ch)]


def _cells(s: str) -> int:
    t = width_table()
    return sum(t[ord(c)] for c in s)


_POOLS: Optional[Tuple[List[str], List[str]]] = None


def _pools() -> Tuple[List[str], List[str]]:
    """(single-width alphanumerics, double-width characters); none of them is a box glyph, markup or space"""
    global _POOLS
    if _POOLS is None:
        t = width_table()
        narrow: List[str] = []
        for a, b in ((0x30, 0x3A), (0x41, 0x5B), (0x61, 0x7B), (0xC0, 0x250), (0x391, 0x3CA), (0x400, 0x482),
                     (0x48A, 0x530), (0x531, 0x557), (0x561, 0x588), (0x10D0, 0x10FB)):
            for c in range(a, b):
                ch = chr(c)
                if t[c] == 1 and ch.isalnum() and unicodedata.combining(ch) == 0:
                    narrow.append(ch)
        wide = [chr(c) for c in range(0x1F600, 0x1F650) if t[c] == 2]          # emoji
        wide += [chr(c) for c in range(0x4E00, 0x4E00 + 1500) if t[c] == 2]    # CJK
        wide += [chr(c) for c in range(0xAC00, 0xAC00 + 300) if t[c] == 2]     # Hangul
        wide += [chr(c) for c in range(0x3041, 0x3097) if t[c] == 2]           # Hiragana
        _POOLS = (narrow, wide)
    return _POOLS


class _Alloc:
    """hands out characters, each at most once per table"""

    def __init__(self, rng: random.Random):
        narrow, wide = _pools()
        self.narrow = list(narrow)
        self.wide = list(wide)
        rng.shuffle(self.narrow)
        rng.shuffle(self.wide)

    def n(self, k: int) -> str:
        out = "".join(self.narrow[-k:]) if k else ""
        del self.narrow[len(self.narrow) - k:]
        if len(out) != k:
            raise RuntimeError("narrow marker pool exhausted")
        return out

    def w(self, k: int) -> str:
        out = "".join(self.wide[-k:]) if k else ""
        del self.wide[len(self.wide) - k:]
        return out


# --------------------------------------------------------------------------------------------------------
# case description  ->  analysis (oracle side)  /  Table (code under check)


def _unpack(pad) -> Tuple[int, int, int, int]:
    """CSS order: top, right, bottom, left (documented for `padding`)"""
    if isinstance(pad, int):
        return (pad, pad, pad, pad)
    pad = tuple(pad)
    if len(pad) == 1:
        return (pad[0],) * 4
    if len(pad) == 2:
        return (pad[0], pad[1], pad[0], pad[1])
    return pad  # type: ignore


def _text_min(s: str) -> int:
    return 2 if any(_cw(c) == 2 for c in s) else (1 if s.strip() else 0)


def _cell_min(cell: Dict[str, Any]) -> int:
    """structural minimum of a cell's content: 1 cell (2 with a double-width character), plus frames"""
    k = cell["k"]
    if k == "text":
        return _text_min(cell["s"])
    if k == "panel":
        return 2 + 2 + max(1, _text_min(cell["s"]))       # border + default padding (0, 1)
    if k == "table":
        ncols = len(cell["rows"][0]) if cell["rows"] else len(cell["head"])
        total = 2 + (ncols - 1)                             # default box with edge
        for j in range(ncols):
            col = [r[j] for r in cell["rows"]] + ([cell["head"][j]] if cell.get("head") else [])
            total += 2 + max([1] + [_text_min(s) for s in col])
        return total
    raise ValueError(k)


def _no_width_pressure(an: Dict[str, Any], cols, W: int) -> bool:
    """True when all cells are plain text, no column has a ratio, and the table at its natural width
    (widest line of every column, capped by an explicit max_width / width on the *content*) fits W
    (W = what the table may use: the console width, or the table's own explicit `width` when that is smaller)."""
    from vf.rtc.specnative import cells as _cc

    total = an["extra"]
    for j, col in enumerate(cols):
        if col["ratio"]:
            return False
        widest = 1
        for (i, jj), cell in an["grid"].items():
            if jj != j:
                continue
            if cell["k"] != "text":
                return False
            widest = max([widest] + [_cc(line) for line in cell["s"].split("\n")])
        if col["width"] is not None:
            widest = col["width"]
        elif col["max_width"] is not None:
            widest = min(widest, col["max_width"])
        total += an["pads"][j][0] + an["pads"][j][1] + max(widest, an["cmin"][j])
    return total <= W


def _cell_markers(cell: Dict[str, Any]) -> List[str]:
    k = cell["k"]
    if k in ("text", "panel"):
        return [c for c in cell["s"] if not c.isspace()]
    out: List[str] = []
    for row in ([cell["head"]] if cell.get("head") else []) + cell["rows"]:
        for s in row:
            out += [c for c in s if not c.isspace()]
    return out


def analyse(desc: Dict[str, Any]) -> Dict[str, Any]:
    """everything the oracle derives from the description alone"""
    t = desc["table"]
    cols = desc["cols"]
    rows = desc["rows"]
    n = len(cols)
    has_box = t["box"] is not None
    edge = 1 if (has_box and t["show_edge"]) else 0
    extra = 2 * edge + ((n - 1) if has_box else 0)
    _, pr, _, pl = _unpack(t["padding"])
    pads = []
    for j in range(n):
        left, right = pl, pr
        if t["collapse_padding"] and j > 0:
            left = max(0, left - right)
        if not t["pad_edge"]:
            if j == 0:
                left = 0
            if j == n - 1:
                right = 0
        pads.append((left, right))
    grid: Dict[Tuple[int, int], Dict[str, Any]] = {}
    for j, c in enumerate(cols):
        if t["show_header"]:
            grid[(-1, j)] = c["header"]
        if t["show_footer"]:
            grid[(len(rows), j)] = c["footer"]
        for i, r in enumerate(rows):
            grid[(i, j)] = r["cells"][j]
    cmin = [max([1] + [_cell_min(cell) for (i, jj), cell in grid.items() if jj == j]) for j in range(n)]
    # a column with an explicit `width` structurally needs that many cells
    need = [max(cmin[j], cols[j]["width"] or 0) for j in range(n)]
    smin = extra + sum(pads[j][0] + pads[j][1] + need[j] for j in range(n))
    markers: Dict[str, Tuple[int, int]] = {}
    for (i, j), cell in grid.items():
        for ch in _cell_markers(cell):
            if ch in markers:
                raise AssertionError("marker reused: %r" % ch)
            markers[ch] = (i, j)
    return {"n": n, "edge": edge, "extra": extra, "pads": pads, "cmin": cmin, "smin": smin, "grid": grid,
            "markers": markers, "has_box": has_box}


def _resolve(value, W: int, floor: int) -> Optional[int]:
    if value is None:
        return None
    if isinstance(value, dict):
        return max(floor, W - value["rel"])
    return int(value)


def _mk_cell(cell: Dict[str, Any]):
    from rich.panel import Panel
    from rich.table import Table
    from rich.text import Text

    k = cell["k"]
    if k == "text":
        return cell["s"]
    if k == "panel":
        return Panel(Text(cell["s"]))
    if k == "table":
        head = cell.get("head")
        inner = Table(*head) if head else Table(show_header=False)
        if not head:
            for _ in cell["rows"][0]:
                inner.add_column()
        for r in cell["rows"]:
            inner.add_row(*r)
        return inner
    raise ValueError(k)


def build(desc: Dict[str, Any], W: int, an: Dict[str, Any]):
    from rich import box as rbox
    from rich.table import Table

    t = desc["table"]
    width = _resolve(t["width"], W, an["smin"])
    min_width = _resolve(t["min_width"], W, 1)
    pad = t["padding"]
    table = Table(
        title=TITLE if t["title"] else None,
        caption=CAPTION if t["caption"] else None,
        width=width,
        min_width=min_width,
        box=getattr(rbox, t["box"]) if t["box"] else None,
        padding=pad if isinstance(pad, int) else tuple(pad),
        collapse_padding=t["collapse_padding"],
        pad_edge=t["pad_edge"],
        expand=t["expand"],
        show_header=t["show_header"],
        show_footer=t["show_footer"],
        show_edge=t["show_edge"],
        show_lines=t["show_lines"],
        leading=t["leading"],
        row_styles=t["row_styles"],
    )
    for c in desc["cols"]:
        table.add_column(
            _mk_cell(c["header"]), _mk_cell(c["footer"]), justify=c["justify"], overflow=c["overflow"],
            ratio=c["ratio"], max_width=c["max_width"], width=c["width"],
        )
    for r in desc["rows"]:
        table.add_row(*[_mk_cell(c) for c in r["cells"]], style=r["style"], end_section=r["end_section"])
    return table, width, min_width


def _console(W: int):
    from rich.console import Console

    return Console(width=W, height=25, file=io.StringIO(), color_system="truecolor", force_terminal=True,
                   legacy_windows=False, _environ={})


def render_lines(table, W: int) -> Tuple[List[str], Optional[List[int]]]:
    """(text of every output line, the width vector the table solved for while rendering)"""
    console = _console(W)
    seen: List[List[int]] = []
    orig = table._calculate_column_widths

    def recorder(*a, **k):
        r = orig(*a, **k)
        seen.append(list(r))
        return r

    table._calculate_column_widths = recorder  # instance attribute: observes, does not alter
    text = "".join(seg.text for seg in console.render(table, console.options) if not seg.is_control)
    lines = text.split("\n")
    if lines and lines[-1] == "":
        lines.pop()
    return lines, (seen[-1] if seen else None)


# --------------------------------------------------------------------------------------------------------
# the check


def _layout(line: str) -> List[Tuple[str, int, int]]:
    out = []
    off = 0
    for ch in line:
        w = _cw(ch)
        out.append((ch, off, w))
        off += w
    return out


def _structural(bx, widths: List[int], edge: int) -> Dict[str, str]:
    """the separator lines a box draws for these column widths, from the Box's published glyph names"""
    def row(left, horiz, cross, right):
        body = cross.join(horiz * w for w in widths)
        return (left + body + right) if edge else body

    return {
        "top": row(bx.top_left, bx.top, bx.top_divider, bx.top_right),
        "head": row(bx.head_row_left, bx.head_row_horizontal, bx.head_row_cross, bx.head_row_right),
        "row": row(bx.row_left, bx.row_horizontal, bx.row_cross, bx.row_right),
        "mid": row(bx.mid_left, " ", bx.mid_vertical, bx.mid_right),
        "foot": row(bx.foot_row_left, bx.foot_row_horizontal, bx.foot_row_cross, bx.foot_row_right),
        "bottom": row(bx.bottom_left, bx.bottom, bx.bottom_divider, bx.bottom_right),
    }


def check_case(desc: Dict[str, Any], W: int) -> Tuple[Dict[str, int], List[Dict[str, Any]], Dict[str, Any]]:
    """returns (clause -> evaluations, violations, info)"""
    an = analyse(desc)
    t = desc["table"]
    cols = desc["cols"]
    rows = desc["rows"]
    n = an["n"]
    clauses: Dict[str, int] = {}
    bad: List[Dict[str, Any]] = []

    def hit(name):
        clauses[name] = clauses.get(name, 0) + 1

    def fail(name, what, expected, observed, sub=""):
        bad.append({"check": name, "sub": sub, "what": what, "expected": expected, "observed": observed})

    table, width, min_width = build(desc, W, an)
    try:
        lines, widths = render_lines(table, W)
    except Exception as e:  # an exception is not one of C07's clauses, but it must not pass silently
        hit("c07.renders")
        fail("c07.renders", "rendering raised %s" % type(e).__name__, "a rendered table", repr(e)[:200])
        return clauses, bad, {"smin": an["smin"], "body": 0}
    hit("c07.renders")

    # ---- strip title / caption lines (their characters occur nowhere else)
    lo, hi = 0, len(lines)
    if t["title"]:
        while lo < hi and TITLE_CH in lines[lo]:
            lo += 1
    if t["caption"]:
        while hi > lo and CAPTION_CH in lines[hi - 1]:
            hi -= 1
    body = lines[lo:hi]
    info = {"smin": an["smin"], "body": len(body), "width": width, "min_width": min_width, "widths": widths}
    leading_pool = t["leading"] >= 2
    suffix = ".leading_ge2" if leading_pool else ""

    # ---- (a) equal line width, = borders + column widths
    lw = [_cells(l) for l in body]
    name = "c07.equal_line_width" + suffix
    if body:
        hit(name)
        if len(set(lw)) > 1:
            idx = next(i for i, x in enumerate(lw) if x != lw[0])
            fail(name, "body lines of different cell widths (line 0 is %d cells, line %d is %d)" % (lw[0], idx, lw[idx]),
                 "all %d body lines the same width" % len(body), {"line_widths": lw[:40], "lines": body[:12]}, "unequal")
        elif widths is not None and lw[0] != sum(widths) + an["extra"]:
            fail(name, "body width is not borders + column widths", sum(widths) + an["extra"],
                 {"line_width": lw[0], "column_widths": widths, "borders": an["extra"]}, "sum")
    if widths is None or len(widths) != n:
        hit("c07.border_positions")
        fail("c07.border_positions", "no width vector of length %d observed" % n, n, widths)
        return clauses, bad, info
    total = sum(widths) + an["extra"]

    # ---- (b) expand fills the available width
    capped = any(c["width"] is not None or c["max_width"] is not None for c in cols)
    asked = t["expand"] or width is not None
    if asked and not capped and body and len(set(lw)) == 1 and not leading_pool:   # unequal lines are clause (a)'s
        target = width if width is not None else W
        name = "c07.expand_fills_width"
        hit(name)
        if lw[0] != target:
            # the tag only groups failures by which options are present (so that one cause cannot crowd out another)
            tag = "+".join(k for k, on in (("min_width", min_width is not None), ("ratio", any(c["ratio"] for c in cols)),
                                           ("width", width is not None)) if on) or "plain"
            fail(name, "expanding table (no column cap) is %d cells wide, available %d" % (lw[0], target),
                 target, {"line_width": lw[0], "column_widths": widths, "lines": body[:8]}, tag)

    # ---- spans and borders
    offs = []
    off = an["edge"]
    for j in range(n):
        offs.append(off)
        off += widths[j] + (1 if an["has_box"] else 0)
    spans = [(offs[j], offs[j] + widths[j]) for j in range(n)]
    laid = [_layout(l) for l in body]
    svals: set = set()
    seps: set = set()
    if an["has_box"] and body:
        from rich import box as rbox

        bx = getattr(rbox, t["box"])
        struct = _structural(bx, widths, an["edge"])
        svals = set(struct.values())
        blank = lambda l, v, r: (l if an["edge"] else "") + v.join(" " * w for w in widths) + (r if an["edge"] else "")
        blanks = {blank(bx.head_left, bx.head_vertical, bx.head_right), blank(bx.mid_left, bx.mid_vertical, bx.mid_right),
                  blank(bx.foot_left, bx.foot_vertical, bx.foot_right)}
        seps = svals - blanks      # lines that can only be separators, never a row of empty cells
        kinds = [
            (bx.head_left, bx.head_vertical, bx.head_right),
            (bx.mid_left, bx.mid_vertical, bx.mid_right),
            (bx.foot_left, bx.foot_vertical, bx.foot_right),
        ]
        hit("c07.border_positions")
        for li, line in enumerate(body):
            if lw[li] != total or line in svals:
                continue  # a wrong width is clause (a)'s business
            at = {o: ch for ch, o, _w in laid[li]}
            ok = False
            for left, vert, right in kinds:
                good = all(at.get(spans[j][1]) == vert for j in range(n - 1))
                if an["edge"]:
                    good = good and at.get(0) == left and at.get(total - 1) == right
                if good:
                    ok = True
                    break
            if not ok:
                fail("c07.border_positions", "body line %d has no divider/edge glyphs at the column boundaries" % li,
                     {"dividers_at": [spans[j][1] for j in range(n - 1)], "edge": bool(an["edge"])},
                     {"line": line, "column_widths": widths}, "glyphs")
                break
        if an["edge"] and not leading_pool:
            if body[0] != struct["top"] or body[-1] != struct["bottom"]:
                fail("c07.border_positions", "first/last body line is not the box top/bottom for the column widths",
                     [struct["top"], struct["bottom"]], [body[0], body[-1]], "topbottom")

    # ---- (c) rows in insertion order, each on lines of its own
    markers = an["markers"]
    hit("c07.row_order")
    order: List[int] = []
    found: List[Tuple[str, int, int, int]] = []  # (char, line, offset, width)
    shared = None
    for li, lay in enumerate(laid):
        ids = set()
        for ch, o, w in lay:
            m = markers.get(ch)
            if m is not None:
                ids.add(m[0])
                found.append((ch, li, o, w))
        if len(ids) > 1 and shared is None:
            shared = (li, sorted(ids))
        for i in sorted(ids):
            if not order or order[-1] != i:
                order.append(i)
    if shared is not None:
        fail("c07.row_order", "body line %d carries cells of rows %s (-1 = header, %d = footer)" % (shared[0], shared[1], len(rows)),
             "one row per line", {"line": body[shared[0]]}, "shared")
    elif any(order[k] >= order[k + 1] for k in range(len(order) - 1)):
        fail("c07.row_order", "rows not in insertion order / not contiguous", "strictly increasing row ids",
             {"row_ids_down_the_page": order, "lines": body[:30]}, "order")
    else:
        need = len(rows) + (1 if t["show_header"] else 0) + (1 if t["show_footer"] else 0)
        struct_n = 0
        if an["has_box"]:
            struct_n = sum(1 for line in body if line in seps)
        if len(body) - struct_n < need:
            fail("c07.row_order", "fewer cell lines than rows", ">= %d lines for header+rows+footer" % need,
                 {"body_lines": len(body), "separator_lines": struct_n, "lines": body[:30]}, "count")

    # ---- (d) fold columns: every character, in order, inside the span, nowhere else
    fold_cols = [j for j, c in enumerate(cols) if c["overflow"] == "fold"]
    # Two names for clause (d), so that one cause cannot hide the other behind the per-clause cap:
    #   .starved_column  the table solved a fold column to fewer cells than its padding plus one cell (two with a
    #                    double-width character, more for a nested frame) although W >= the structural minimum, and
    #                    characters of that column are lost;
    #   (plain)          the column got the cells it structurally needs and characters are still lost / misplaced.
    need_w = [an["pads"][j][0] + an["pads"][j][1] + an["cmin"][j] for j in range(n)]
    if fold_cols and an["grid"]:
        hit("c07.fold_cell_in_column")
        per_cell: Dict[Tuple[int, int], List[str]] = {}
        outside = None
        for ch, li, o, w in found:
            i, j = markers[ch]
            if j not in fold_cols:
                continue
            if spans[j][0] <= o and o + w <= spans[j][1]:
                per_cell.setdefault((i, j), []).append(ch)
            elif outside is None:
                outside = (ch, i, j, li, o)
        if outside is not None:
            ch, i, j, li, o = outside
            fail("c07.fold_cell_in_column", "character %r of cell (row %d, column %d) is at offset %d, outside its column span %s"
                 % (ch, i, j, o, list(spans[j])), {"span": list(spans[j])}, {"line": body[li], "column_widths": widths}, "outside")
        else:
            for (i, j), cell in sorted(an["grid"].items()):
                if j not in fold_cols:
                    continue
                exp = _cell_markers(cell)
                got = per_cell.get((i, j), [])
                if exp != got:
                    if widths[j] < need_w[j] and _no_width_pressure(an, cols, W if width is None else min(W, width)):
                        # every column's natural width fits: nothing forces the solver to shrink anything, so a
                        # starved column here is NOT the recorded solver limitation (known finding) but something
                        # else (e.g. a cap applied to padding + content instead of content)
                        fail("c07.fold_cell_in_column.starved_without_pressure",
                             "fold column %d solved to %d cells < padding %d + content minimum %d although the table's "
                             "natural width fits W=%d; row %d shows %d of %d characters"
                             % (j, widths[j], sum(an["pads"][j]), an["cmin"][j], W, i, len(got), len(exp)),
                             "".join(exp), {"shown": "".join(got), "column_widths": widths, "needed": need_w,
                                            "lines": body[:30]}, "capped" if cols[j]["max_width"] is not None else "auto")
                    elif widths[j] < need_w[j]:
                        fail("c07.fold_cell_in_column.starved_column",
                             "fold column %d solved to %d cells < padding %d + content minimum %d although W=%d >= structural "
                             "minimum %d; row %d shows %d of %d characters"
                             % (j, widths[j], sum(an["pads"][j]), an["cmin"][j], W, an["smin"], i, len(got), len(exp)),
                             "".join(exp), {"shown": "".join(got), "column_widths": widths, "needed": need_w,
                                            "lines": body[:30]},
                             "ratio" if any(c["ratio"] for c in cols) else "auto")
                    else:
                        fail("c07.fold_cell_in_column",
                             "fold column %d, row %d: characters shown differ from the cell's (%d of %d present)" % (j, i, len(got), len(exp)),
                             "".join(exp), {"shown": "".join(got), "column_width": widths[j], "pads": list(an["pads"][j]),
                                            "lines": body[:30]}, "sequence")
                    break
    return clauses, bad, info


# --------------------------------------------------------------------------------------------------------
# generator


def _gen_text(rng: random.Random, al: _Alloc, kinds: str) -> Dict[str, Any]:
    k = rng.choice(kinds)
    if k == "e":
        return {"k": "text", "s": ""}
    if k == "w":      # single word
        return {"k": "text", "s": al.n(rng.randint(1, 6))}
    if k == "s":      # several words
        return {"k": "text", "s": " ".join(al.n(rng.randint(1, 4)) for _ in range(rng.randint(2, 3)))}
    if k == "m":      # multi-line
        return {"k": "text", "s": "\n".join(" ".join(al.n(rng.randint(1, 3)) for _ in range(rng.randint(1, 2)))
                                            for _ in range(rng.randint(2, 3)))}
    if k == "l":      # one long word, must be folded
        return {"k": "text", "s": al.n(rng.randint(8, 12))}
    if k == "c":      # CJK / emoji mixed with narrow
        parts = [al.w(1) if rng.random() < 0.6 else al.n(1) for _ in range(rng.randint(1, 5))]
        if not any(_cw(p) == 2 for p in parts):
            parts[rng.randrange(len(parts))] = al.w(1)
        s = "".join(parts)
        if rng.random() < 0.3:
            s += " " + al.w(rng.randint(1, 2))
        return {"k": "text", "s": s}
    if k == "p":      # nested panel
        return {"k": "panel", "s": al.n(rng.randint(1, 5)) if rng.random() < 0.7 else al.w(1) + al.n(2)}
    if k == "t":      # nested table, one character per cell
        nc, nr = rng.randint(1, 2), rng.randint(1, 2)
        one = lambda: al.w(1) if rng.random() < 0.2 else al.n(1)
        head = [one() for _ in range(nc)] if rng.random() < 0.5 else None
        return {"k": "table", "head": head, "rows": [[one() for _ in range(nc)] for _ in range(nr)]}
    raise ValueError(k)


def gen_table(seed: int, idx: int, tier: str, leading_pool: bool = False) -> Dict[str, Any]:
    rng = random.Random(seed * 1_000_003 + idx * 2 + (1 if leading_pool else 0))
    al = _Alloc(rng)
    ncols = 1 + idx % 6
    nrows = (idx // 6) % 9
    boxes = QUICK_BOXES if tier == "quick" else BOX_NAMES
    bx = boxes[(idx // 54) % len(boxes)]
    if leading_pool and bx is None:
        bx = "ASCII"
    flavour = rng.random()
    plain = flavour < 0.35     # plain cells only
    t = {
        "box": bx,
        "show_header": rng.random() < 0.7,
        "show_footer": rng.random() < 0.3,
        "show_edge": rng.random() < 0.75,
        "show_lines": rng.random() < 0.25,
        "leading": rng.choice([2, 2, 3]) if leading_pool else rng.choice([0, 0, 0, 1]),
        "padding": rng.choice(PADDINGS),
        "pad_edge": rng.random() < 0.7,
        "collapse_padding": rng.random() < 0.3,
        "expand": rng.random() < 0.45,
        "width": {"rel": rng.choice([0, 1, 2, 5, 9])} if rng.random() < 0.2 else None,
        "min_width": {"rel": rng.choice([0, 1, 3, 10, 30])} if rng.random() < 0.2 else None,
        "title": rng.random() < 0.2,
        "caption": rng.random() < 0.15,
        "row_styles": rng.choice(ROW_STYLES),
    }
    if isinstance(t["padding"], tuple):
        t["padding"] = list(t["padding"])
    kinds = "wwwsmle" if plain else "wwsmlecccppt"
    hkinds = "wwse" if plain else "wwsec"
    cols = []
    any_ratio = rng.random() < 0.3
    for j in range(ncols):
        c = {
            "header": _gen_text(rng, al, hkinds),
            "footer": _gen_text(rng, al, hkinds),
            "justify": rng.choice(JUSTIFY),
            "overflow": rng.choice(OVERFLOW),
            "ratio": rng.choice([1, 1, 2, 3, None]) if any_ratio else None,
            "max_width": None,
            "width": None,
        }
        cols.append(c)
    rows = []
    for i in range(nrows):
        rows.append({"cells": [_gen_text(rng, al, kinds) for _ in range(ncols)],
                     "style": rng.choice([None, None, None, "on blue", "bold"]),
                     "end_section": rng.random() < 0.15})
    desc = {"table": t, "cols": cols, "rows": rows}
    # explicit column caps (never below what the column's cells structurally need)
    if rng.random() < 0.3:
        an = analyse({"table": dict(t, show_header=True, show_footer=True), "cols": cols, "rows": rows})
        for j, c in enumerate(cols):
            r = rng.random()
            if r < 0.35:
                c["max_width"] = an["cmin"][j] + rng.choice([0, 1, 2, 4, 7])
            elif r < 0.45:
                c["width"] = an["cmin"][j] + rng.choice([0, 1, 3, 6])
    return desc


def widths_for(desc: Dict[str, Any], smin: int, rng: random.Random, tier: str) -> List[int]:
    if tier == "quick":
        ws = [smin + d for d in (0, 1, 2, 3, 5, 8, 13)] + [smin + rng.randint(14, 80)]
    else:
        ws = [smin + d for d in range(13)] + sorted(set(rng.randint(smin + 13, max(smin + 14, 200)) for _ in range(4)))
    return ws


def _wclass(d: int) -> str:
    return str(d) if d <= 3 else ("4-6" if d <= 6 else ("7-13" if d <= 13 else ("14-40" if d <= 40 else ">40")))


def _signature(desc: Dict[str, Any]) -> str:
    t = desc["table"]
    cols = [(c["justify"], c["overflow"], c["ratio"], c["max_width"] is not None, c["width"] is not None,
             c["header"]["k"]) for c in desc["cols"]]
    kinds = sorted(set(cell["k"] + ("w" if _cell_min(cell) >= 2 and cell["k"] == "text" else "")
                       for r in desc["rows"] for cell in r["cells"]))
    return json.dumps([t, cols, len(desc["rows"]), kinds], sort_keys=True, default=str)


def _key(desc: Dict[str, Any], W: int) -> str:
    return hashlib.sha1((json.dumps(desc, sort_keys=True, ensure_ascii=True) + "|%d" % W).encode()).hexdigest()[:12]


def _size(desc: Dict[str, Any], W: int) -> Tuple[int, int, int]:
    return (len(desc["cols"]) * (len(desc["rows"]) + 1), len(json.dumps(desc)), W)


def _pick(lst: list) -> list:
    """at most MAX_FAIL entries, smallest first, one per `sub` tag before a second of any"""
    lst = sorted(lst, key=lambda x: x[0])
    out, rest, seen = [], [], set()
    for e in lst:
        if e[3]["sub"] not in seen:
            seen.add(e[3]["sub"])
            out.append(e)
        else:
            rest.append(e)
    return (out + rest)[:MAX_FAIL] if len(out) < MAX_FAIL else out[:MAX_FAIL]


def _work(args) -> Dict[str, Any]:
    tier, seed, lo, hi, leading_pool = args
    clauses: Dict[str, int] = {}
    fails: Dict[str, List[Tuple[Tuple[int, int, int], Dict[str, Any], int, Dict[str, Any]]]] = {}
    fail_counts: Dict[str, int] = {}
    sigs = set()
    evals = 0
    nontrivial_evals = 0
    samples = []
    for idx in range(lo, hi):
        desc = gen_table(seed, idx, tier, leading_pool)
        smin = analyse(desc)["smin"]
        rng = random.Random(seed * 7919 + idx)
        sig = hashlib.sha1(_signature(desc).encode()).digest()[:8]
        for W in widths_for(desc, smin, rng, tier):
            cl, bad, info = check_case(desc, W)
            evals += 1
            for k, v in cl.items():
                clauses[k] = clauses.get(k, 0) + v
            if info.get("body", 0) > 0:
                nontrivial_evals += 1
                avail = info["width"] if info.get("width") is not None else W
                sigs.add(sig + _wclass(avail - smin).encode())
            for b in bad:
                fail_counts[b["check"]] = fail_counts.get(b["check"], 0) + 1
                lst = fails.setdefault(b["check"], [])
                lst.append((_size(desc, W), desc, W, b))
                fails[b["check"]] = _pick(lst)
        if idx < lo + 1 and lo == 0:
            samples.append({"desc": desc, "W": smin + 3})
    return {"clauses": clauses, "fails": fails, "fail_counts": fail_counts, "sigs": sigs, "evals": evals,
            "nontrivial": nontrivial_evals, "samples": samples}


# --------------------------------------------------------------------------------------------------------
# minimiser (greedy; keeps the same clause failing, keeps W >= structural minimum)


def _still_fails(desc: Dict[str, Any], W: int, clause: str, sub: Optional[str] = None) -> Optional[Dict[str, Any]]:
    try:
        an = analyse(desc)
        if W < an["smin"] or not desc["cols"]:
            return None
        for c, col in zip(an["cmin"], desc["cols"]):
            if col["max_width"] is not None and col["max_width"] < c:
                return None
            if col["width"] is not None and col["width"] < c:
                return None
        _cl, bad, _info = check_case(desc, W)
    except Exception:
        return None
    for b in bad:
        if b["check"] == clause and (sub is None or b["sub"] == sub):
            return b
    return None


def _variants(desc: Dict[str, Any]):
    t = desc["table"]
    for i in range(len(desc["rows"]) - 1, -1, -1):
        d = copy.deepcopy(desc)
        del d["rows"][i]
        yield d
    if len(desc["cols"]) > 1:
        for j in range(len(desc["cols"]) - 1, -1, -1):
            d = copy.deepcopy(desc)
            del d["cols"][j]
            for r in d["rows"]:
                del r["cells"][j]
            yield d
    defaults = {"title": False, "caption": False, "row_styles": None, "min_width": None, "width": None,
                "show_lines": False, "show_footer": False, "collapse_padding": False, "pad_edge": True,
                "expand": False, "show_edge": True, "show_header": False}
    for k, v in defaults.items():
        if t[k] != v:
            d = copy.deepcopy(desc)
            d["table"][k] = v
            yield d
    if t["leading"] not in (0, 2):
        d = copy.deepcopy(desc)
        d["table"]["leading"] = 2 if t["leading"] > 2 else 0
        yield d
    for p in ([0, 1], 0):
        if t["padding"] != p and t["padding"] != 0:
            d = copy.deepcopy(desc)
            d["table"]["padding"] = p
            yield d
    if t["box"] not in (None, "ASCII"):
        d = copy.deepcopy(desc)
        d["table"]["box"] = "ASCII"
        yield d
    for j, c in enumerate(desc["cols"]):
        for k, v in (("ratio", None), ("max_width", None), ("width", None), ("justify", "left")):
            if c[k] != v:
                d = copy.deepcopy(desc)
                d["cols"][j][k] = v
                yield d
        for k in ("header", "footer"):
            yield from _cell_variants(desc, ("cols", j, k))
    for i, r in enumerate(desc["rows"]):
        if r["style"] is not None or r["end_section"]:
            d = copy.deepcopy(desc)
            d["rows"][i]["style"] = None
            d["rows"][i]["end_section"] = False
            yield d
        for j in range(len(r["cells"])):
            yield from _cell_variants(desc, ("rows", i, j))


def _cell_variants(desc, path):
    def get(d):
        return d["cols"][path[1]][path[2]] if path[0] == "cols" else d["rows"][path[1]]["cells"][path[2]]

    def put(d, v):
        if path[0] == "cols":
            d["cols"][path[1]][path[2]] = v
        else:
            d["rows"][path[1]]["cells"][path[2]] = v

    cell = get(desc)
    cands = []
    if cell["k"] != "text":
        ms = _cell_markers(cell)
        cands.append({"k": "text", "s": "".join(ms[:3])})
    else:
        s = cell["s"]
        if s:
            cands.append({"k": "text", "s": ""})
        if len(s) > 1:
            cands.append({"k": "text", "s": s[: len(s) // 2].strip()})
            cands.append({"k": "text", "s": s[len(s) // 2:].strip()})
            if "\n" in s:
                cands.append({"k": "text", "s": s.replace("\n", " ")})
    for c in cands:
        if c != cell:
            d = copy.deepcopy(desc)
            put(d, c)
            yield d


def minimise(desc: Dict[str, Any], W: int, clause: str, budget: int = 600, deadline: Optional[float] = None):
    cur = copy.deepcopy(desc)
    best = _still_fails(cur, W, clause)
    if best is None:
        return desc, W, None
    sub = best["sub"]
    spent = 0
    progress = True
    while progress and spent < budget:
        if deadline is not None and time.time() > deadline:
            break
        progress = False
        delta = W - analyse(cur)["smin"]
        for d in _variants(cur):
            if spent >= budget:
                break
            s2 = analyse(d)["smin"]
            for W2 in sorted({s2 + delta, W}):
                if W2 > W:
                    continue
                spent += 1
                b = _still_fails(d, W2, clause, sub)
                if b is not None:
                    cur, W, best = d, W2, b
                    progress = True
                    break
            if progress:
                break
        if not progress:
            # finally try smaller widths for the same table
            s = analyse(cur)["smin"]
            for W2 in range(s, W):
                spent += 1
                b = _still_fails(cur, W2, clause, sub)
                if b is not None:
                    W, best, progress = W2, b, True
                    break
    return cur, W, best


# --------------------------------------------------------------------------------------------------------
# entry point

def _min_job(args):
    clause, desc, W, b = args
    d2, W2, b2 = minimise(desc, W, clause, budget=400)
    if b2 is None:
        d2, W2, b2 = desc, W, b
    return clause, d2, W2, b2


TIERS = {
    # tables in the main pool, tables in the leading>=2 pool
    "quick": (1620, 54),
    "thorough": (54 * 19 * 30, 54 * 6),
}


def run(tier: str, seed: int) -> dict:
    t0 = time.time()
    if tier not in TIERS:
        tier = "quick"
    n_main, n_lead = TIERS[tier]
    procs = min(16, os.cpu_count() or 1)
    chunk = max(6, (n_main // (procs * 6)) // 6 * 6)
    jobs = [(tier, seed, lo, min(n_main, lo + chunk), False) for lo in range(0, n_main, chunk)]
    jobs += [(tier, seed, lo, min(n_lead, lo + 54), True) for lo in range(0, n_lead, 54)]
    _pools()
    width_table()
    import rich.table  # noqa: F401  (import before forking)

    ctx = get_context("fork")
    with ctx.Pool(procs) as pool:
        parts = pool.map(_work, jobs, chunksize=1)
    clauses: Dict[str, int] = {}
    fail_counts: Dict[str, int] = {}
    sigs = set()
    evals = nontrivial = 0
    cands: Dict[str, list] = {}
    samples = []
    for p in parts:
        evals += p["evals"]
        nontrivial += p["nontrivial"]
        sigs |= p["sigs"]
        samples += p["samples"]
        for k, v in p["clauses"].items():
            clauses[k] = clauses.get(k, 0) + v
        for k, v in p["fail_counts"].items():
            fail_counts[k] = fail_counts.get(k, 0) + v
        for k, v in p["fails"].items():
            cands.setdefault(k, []).extend(v)
    failures = []
    todo = [(clause, desc, W, b) for clause in sorted(cands) for _size_, desc, W, b in _pick(cands[clause])]
    with ctx.Pool(min(procs, max(1, len(todo)))) as pool:      # minimisation is bounded by evaluations, not by time
        done = pool.map(_min_job, todo, chunksize=1)
    seen_keys = set()
    for clause, d2, W2, b2 in done:
        if True:
            an = analyse(d2)
            key = clause + _key(d2, W2)
            if key in seen_keys:
                continue
            seen_keys.add(key)
            key = _key(d2, W2)
            failures.append({
                "check": clause,
                "what": b2["what"],
                "input_key": key,
                "input": {"desc": d2, "W": W2, "structural_minimum": an["smin"],
                          "resolved": {"width": _resolve(d2["table"]["width"], W2, an["smin"]),
                                       "min_width": _resolve(d2["table"]["min_width"], W2, 1)},
                          "replay": "vf.rtc.props.c07.check_case(desc, W)"},
                "expected": b2["expected"],
                "observed": b2["observed"],
            })
    return {
        "evaluations": evals,
        "distinct_nontrivial": len(sigs),
        "rule": "tables are drawn per index (columns = 1 + i%6, rows = (i//6)%9, box cycles with i//54; every other "
                "table/column option and every cell content is drawn from a PRNG seeded with (seed, i)); each table is "
                "rendered at the widths listed in `bound`; a case is non-trivial when the rendered body has at least one "
                "line; distinct = distinct (table+column option signature incl. row count and cell kinds, width class "
                "(table width if given, else W) - structural minimum in {0,1,2,3,4-6,7-13,14-40,>40}) pairs",
        "bound": "%d tables (+%d in the separate leading>=2 pool); 1..6 columns x 0..8 rows; box in %s; padding in %s; "
                 "leading 0/1 (pool: 2/3); cells: words, several words, multi-line, 8-12 character words, CJK/Hangul/"
                 "kana/emoji mixes, empty, nested Panel, nested Table (<=2x2); column justify x overflow x ratio "
                 "{None,1,2,3} x max_width/width caps >= the column's structural need; table width/min_width relative "
                 "to W; widths W = smin + %s; %d processes; tier %s; seed %d"
                 % (n_main, n_lead, (QUICK_BOXES if tier == "quick" else BOX_NAMES), PADDINGS,
                    ("{0,1,2,3,5,8,13} and one in [14,80]" if tier == "quick" else "{0..12} and 4 sampled up to 200"),
                    procs, tier, seed),
        "samples": samples[:3],
        "clauses": clauses,
        "failures": failures,
        "failure_counts": fail_counts,
        "seconds": round(time.time() - t0, 1),
    }
