"""C05 - Text editing operations keep characters and styles attached (bounded check, never a proof).

Reference model (written from the documented meaning of each operation on an ordinary string, independent of
rich/text.py): a styled text is a list of (character, layers) plus a base style.  `layers` is the tuple of style
strings applied to that character, in application order; the effective style of a character is
"base style, then every layer, later attributes winning".  A layer `None` marks a character that the operation
*created* (padding, ellipsis, the spaces a tab expands to): the property only speaks about surviving characters, so
for a created character only the layers applied *after* its creation are compared.

The real `rich.text.Text` is driven through histories of up to 12 operations; after every operation every produced
Text is compared with the model: plain string, len(), text of the rendered segments, and the effective style of every
character as seen in the Segment stream of `Text.render` (attributes read off the Style objects; the combination
rule in the model is a 10-line dict merge, not Style.combine).
"""
from __future__ import annotations

import io
import os
import random
import re
import sys
import time
import zlib
from typing import Any, Dict, List, Optional, Tuple

REPO = os.environ.get("VF_REPO", "/repo")
if REPO not in sys.path:
    sys.path.insert(0, REPO)

from vf.rtc.specnative import cells  # independent cell-width oracle

# ------------------------------------------------------------------------------------------------ style algebra
STYLES = ["red", "green", "blue", "on red", "on blue", "bold", "italic", "underline", "not bold",
          "bold red", "italic on green", "not italic blue", "", "@bold green", "@on blue"]
_FLAGS = ("bold", "italic", "underline")
NULL_ATTRS = (None, None, None, None, None, ())


def sname(style: Optional[str]) -> Optional[str]:
    """model name of a style token ('@x' means: hand rich a Style object instead of a string)"""
    if style is not None and style.startswith("@"):
        return style[1:]
    return style


def parse_attrs(style: str) -> Tuple:
    """(color, bgcolor, bold, italic, underline, other) of a style definition from the vocabulary above"""
    color = bg = None
    flags = {f: None for f in _FLAGS}
    words = style.split()
    i = 0
    while i < len(words):
        w = words[i]
        if w == "not":
            flags[words[i + 1]] = False
            i += 2
        elif w == "on":
            bg = words[i + 1]
            i += 2
        elif w in flags:
            flags[w] = True
            i += 1
        else:
            color = w
            i += 1
    return (color, bg, flags["bold"], flags["italic"], flags["underline"], ())


def combine_attrs(layers) -> Tuple:
    out = [None, None, None, None, None]
    for a in layers:
        for k in range(5):
            if a[k] is not None:
                out[k] = a[k]
    return tuple(out) + ((),)


_EXPECT_CACHE: Dict[Tuple, Tuple] = {}


def expected_attrs(base: str, layers: Tuple) -> Tuple[bool, Tuple]:
    """(partial?, attrs).  partial: only the attributes that are not None are constrained"""
    key = (base, layers)
    r = _EXPECT_CACHE.get(key)
    if r is None:
        if None in layers:
            last = len(layers) - 1 - layers[::-1].index(None)
            r = (True, combine_attrs([parse_attrs(s) for s in layers[last + 1:]]))
        else:
            r = (False, combine_attrs([parse_attrs(base)] + [parse_attrs(s) for s in layers]))
        if len(_EXPECT_CACHE) > 200000:
            _EXPECT_CACHE.clear()
        _EXPECT_CACHE[key] = r
    return r


_OBS_CACHE: Dict[int, Tuple] = {}


def style_attrs(st) -> Tuple:
    """attributes of a rich Style object (observation only)"""
    if st is None:
        return NULL_ATTRS
    other = tuple(n for n in ("dim", "blink", "reverse", "conceal", "strike", "link", "frame", "encircle", "overline")
                  if getattr(st, n, None))
    return (st.color.name if st.color is not None else None,
            st.bgcolor.name if st.bgcolor is not None else None,
            st.bold, st.italic, st.underline, other)


# ------------------------------------------------------------------------------------------------ model
WILD = None


class M:
    __slots__ = ("chars", "base")

    def __init__(self, chars, base):
        self.chars = chars  # list of (ch, layers)
        self.base = base

    def s(self) -> str:
        return "".join(c for c, _ in self.chars)

    def copy(self) -> "M":
        return M(list(self.chars), self.base)


def strip_set() -> set:
    """code points that Text strips.  The four documented ones, plus whatever the table of this tree adds."""
    from rich import control

    return {8, 11, 12, 13} | set(getattr(control, "STRIP_CONTROL_CODES", ()))


_STRIP = None


def strip(s: str) -> str:
    global _STRIP
    if _STRIP is None:
        _STRIP = strip_set()
    return "".join(c for c in s if ord(c) not in _STRIP)


def plainc(s: str, layers=()) -> list:
    return [(c, layers) for c in s]


def fresh(s: str) -> list:
    return [(c, (WILD,)) for c in s]


def layer(chars, base: str) -> list:
    """characters of a text with base style `base`, seen from inside a container"""
    return [(c, (base,) + l) for c, l in chars]


def m_stylize(chars, a: int, b: int, st: str) -> None:
    for i in range(max(a, 0), min(b, len(chars))):
        c, l = chars[i]
        chars[i] = (c, l + (st,))


def m_build(spec) -> M:
    chars = plainc(strip(spec["s"]))
    for a, b, st in spec["spans"]:
        m_stylize(chars, a, b, sname(st))
    return M(chars, sname(spec["base"]))


def m_split(chars, sep: str, incl: bool, blank: bool) -> list:
    s = "".join(c for c, _ in chars)
    if sep not in s:
        return [list(chars)]
    pieces = []
    pos = 0
    while True:
        i = s.find(sep, pos)
        if i < 0:
            break
        pieces.append(chars[pos:(i + len(sep)) if incl else i])
        pos = i + len(sep)
    pieces.append(chars[pos:])
    if not blank and pos == len(s):  # the text ends with a separator: the last piece is the blank line
        pieces.pop()
    return pieces


def m_crop_cells(chars, total: int) -> list:
    """longest prefix that fits `total` cells, filled with created spaces to exactly `total` cells"""
    out = []
    used = 0
    for c, l in chars:
        w = cells(c)
        if used + w > total:
            break
        out.append((c, l))
        used += w
    return out + fresh(" " * (total - used))


def m_cells(chars) -> int:
    return cells("".join(c for c, _ in chars))


def m_truncate(chars, width: int, overflow: Optional[str], pad: bool) -> list:
    ov = overflow or "fold"
    if ov == "ignore":
        return list(chars)
    length = m_cells(chars)
    out = list(chars)
    if length > width:
        if ov == "ellipsis":
            out = m_crop_cells(chars, width - 1) + fresh("…")
        else:
            out = m_crop_cells(chars, width)
    if pad and length < width:
        out = out + fresh(" " * (width - length))
    return out


def m_set_length(chars, n: int) -> list:
    if len(chars) < n:
        return list(chars) + fresh(" " * (n - len(chars)))
    return list(chars[:n])


def m_words(s: str, words: List[str], cs: bool) -> List[Tuple[int, int]]:
    out = []
    hay = s if cs else s.lower()
    ws = words if cs else [w.lower() for w in words]
    i = 0
    while i < len(s):
        for w in ws:
            if hay.startswith(w, i):
                out.append((i, i + len(w)))
                i += len(w)
                break
        else:
            i += 1
    return out


# ------------------------------------------------------------------------------------------------ real side helpers
def _sty(style: Optional[str]):
    from rich.style import Style

    if style is not None and style.startswith("@"):
        return Style.parse(style[1:])
    return style


def r_build(spec):
    from rich.text import Span, Text

    return Text(spec["s"], style=_sty(spec["base"]), spans=[Span(a, b, _sty(st)) for a, b, st in spec["spans"]])


def make_console():
    from rich.console import Console

    return Console(width=80, file=io.StringIO(), color_system="truecolor", legacy_windows=False, _environ={})


class Skip(Exception):
    """precondition of the operation not met in the current state: the operation is left out"""


STYLING_OPS = {"stylize", "highlight_regex", "highlight_words", "copy_styles"}


def step(t, m: M, op: list):
    """apply `op` to the real text and to the model.
    -> (new_t, new_m, [(label, text, model)] to compare, [(label, text, model)] that must be unchanged)"""
    from rich.text import Span, Text

    k = op[0]
    n = len(m.chars)
    base = m.base
    same: list = []

    def ret(t2, m2, extra=(), keep=()):
        return t2, m2, [("result", t2, m2), *extra], list(keep)

    if k == "append":
        _, s, st = op
        t.append(s, _sty(st))
        m.chars += plainc(strip(s), () if st is None else (sname(st),))
        return ret(t, m)
    if k in ("append_text", "append_text2", "add_text"):
        aux_m = m_build(op[1])
        aux_t = r_build(op[1])
        pre = [("construct", aux_t, aux_m)]
        if k == "append_text":
            t.append(aux_t)
        elif k == "append_text2":
            t.append_text(aux_t)
        else:
            t = t + aux_t
            m = m.copy()
        m.chars += layer(aux_m.chars, aux_m.base)
        return t, m, pre + [("result", t, m)], [("argument", aux_t, aux_m)]
    if k == "add_str":
        t2 = t + op[1]
        m2 = M(m.chars + plainc(strip(op[1])), base)
        return ret(t2, m2, keep=[("source", t, m)])
    if k == "append_tokens":
        if any(strip(s) != s for s, _ in op[1]):
            raise Skip()
        t.append_tokens([(s, _sty(st)) for s, st in op[1]])
        for s, st in op[1]:
            m.chars += plainc(s, () if st is None else (sname(st),))
        return ret(t, m)
    if k == "assemble":
        _, parts, nbase = op
        rparts = []
        chars: list = []
        pre = []
        for p in parts:
            if p == "CUR":
                rparts.append(t)
                chars += layer(m.chars, base)
            elif isinstance(p, str):
                rparts.append(p)
                chars += plainc(strip(p))
            elif isinstance(p, dict):
                am, at = m_build(p), r_build(p)
                pre.append(("construct", at, am))
                rparts.append(at)
                chars += layer(am.chars, am.base)
            else:
                rparts.append((p[0], _sty(p[1])))
                chars += plainc(strip(p[0]), (sname(p[1]),))
        t2 = Text.assemble(*rparts, style=_sty(nbase))
        m2 = M(chars, sname(nbase))
        return t2, m2, pre + [("result", t2, m2)], [("source", t, m)]
    if k == "join_as_sep":
        auxm = [m_build(a) for a in op[1]]
        auxt = [r_build(a) for a in op[1]]
        pre = [("construct", at, am) for at, am in zip(auxt, auxm)]
        t2 = t.join(auxt)
        chars = []
        for i, am in enumerate(auxm):
            chars += layer(am.chars, am.base)
            if i < len(auxm) - 1 and n:
                chars += layer(m.chars, base)
        m2 = M(chars, base)
        return t2, m2, pre + [("result", t2, m2)], [("source", t, m)]
    if k == "join_into":
        _, sep, before, after = op
        sm, st_ = m_build(sep), r_build(sep)
        bm, bt = [m_build(a) for a in before], [r_build(a) for a in before]
        am_, at_ = [m_build(a) for a in after], [r_build(a) for a in after]
        pre = [("construct", x, y) for x, y in zip([st_] + bt + at_, [sm] + bm + am_)]
        items_m = bm + [m] + am_
        t2 = st_.join(bt + [t] + at_)
        chars = []
        for i, im in enumerate(items_m):
            chars += layer(im.chars, im.base)
            if i < len(items_m) - 1 and sm.chars:
                chars += layer(sm.chars, sm.base)
        m2 = M(chars, sm.base)
        return t2, m2, pre + [("result", t2, m2)], [("source", t, m)]
    if k in ("split", "divide", "fit"):
        if k == "split":
            _, sep, incl, blank, then = op
            lines = list(t.split(sep, include_separator=incl, allow_blank=blank))
            pieces = m_split(m.chars, sep, incl, blank)
        elif k == "divide":
            _, offsets, then = op
            if any(o < 0 for o in offsets) or any(a > b for a, b in zip(offsets, offsets[1:])):
                raise Skip()
            lines = list(t.divide(list(offsets)))
            bounds = [0, *offsets, n] if offsets else [0, n]
            pieces = [m.chars[a:b] for a, b in zip(bounds, bounds[1:])]
        else:
            _, width, then = op
            if width < 0:
                raise Skip()
            lines = list(t.fit(width))
            pieces = [m_set_length(p, width) for p in m_split(m.chars, "\n", False, False)]
        keep = [("source", t, m)]
        if len(lines) != len(pieces):
            # compare the concatenation so that the report shows the strings
            mm = [M(p, base) for p in pieces]
            return t, m, [("pieces", [l for l in lines], mm)], keep
        mods = [M(list(p), base) for p in pieces]
        checks = [("piece%d" % i, l, mm) for i, (l, mm) in enumerate(zip(lines, mods))]
        if not lines:
            return t, m, checks, keep
        if then[0] == "pick":
            i = then[1] % len(lines)
            return lines[i], mods[i], checks, keep
        sm, st_ = m_build(then[1]), r_build(then[1])
        t2 = st_.join(lines)
        chars = []
        for i, mm in enumerate(mods):
            chars += layer(mm.chars, mm.base)
            if i < len(mods) - 1 and sm.chars:
                chars += layer(sm.chars, sm.base)
        m2 = M(chars, sm.base)
        return t2, m2, checks + [("construct", st_, sm), ("result", t2, m2)], keep
    if k == "getitem_slice":
        _, a, b = op
        t2 = t[a:b]
        m2 = M(m.chars[a:b], base)
        return ret(t2, m2, keep=[("source", t, m)])
    if k == "getitem_int":
        i = op[1]
        if not (-n <= i < n):
            raise Skip()
        t2 = t[i]
        m2 = M([m.chars[i]], base)
        return ret(t2, m2, keep=[("source", t, m)])
    if k in ("pad", "pad_left", "pad_right"):
        _, cnt, ch = op
        if cnt < 0 or len(ch) != 1 or cells(ch) != 1:
            raise Skip()
        getattr(t, k)(cnt, ch)
        f = fresh(ch * cnt)
        m.chars = (f if k != "pad_right" else []) + m.chars + (f if k != "pad_left" else [])
        return ret(t, m)
    if k == "align":
        _, how, width, ch = op
        if width < 0 or len(ch) != 1 or cells(ch) != 1:
            raise Skip()
        t.align(how, width, ch)
        chars = m_truncate(m.chars, width, None, False)
        excess = width - m_cells(chars)
        if excess > 0:
            if how == "left":
                chars = chars + fresh(ch * excess)
            elif how == "center":
                left = excess // 2
                chars = fresh(ch * left) + chars + fresh(ch * (excess - left))
            else:
                chars = fresh(ch * excess) + chars
        m.chars = chars
        return ret(t, m)
    if k == "truncate":
        _, width, ov, pad = op
        if width < 0 or (ov == "ellipsis" and width < 1):
            raise Skip()
        t.truncate(width, overflow=ov, pad=pad)
        m.chars = m_truncate(m.chars, width, ov, pad)
        return ret(t, m)
    if k == "right_crop":
        amount = op[1]
        if amount < 0:
            raise Skip()
        t.right_crop(amount)
        m.chars = m.chars[:max(0, n - amount)]
        return ret(t, m)
    if k == "set_length":
        if op[1] < 0:
            raise Skip()
        t.set_length(op[1])
        m.chars = m_set_length(m.chars, op[1])
        return ret(t, m)
    if k == "expand_tabs":
        size = op[1]
        if size is not None and size < 1:
            raise Skip()
        t.expand_tabs(size)
        size = 8 if size is None else size
        out = []
        col = 0
        for c, l in m.chars:
            if c == "\t":
                w = size - col % size
                out += fresh(" " * w)
                col += w
            elif c == "\n":
                out.append((c, l))
                col = 0
            else:
                out.append((c, l))
                col += 1
        m.chars = out
        return ret(t, m)
    if k == "copy":
        t2 = t.copy()
        return ret(t2, m.copy(), keep=[("source", t, m)])
    if k == "blank_copy":
        t2 = t.blank_copy()
        return ret(t2, M([], base), keep=[("source", t, m)])
    if k == "rstrip":
        t.rstrip()
        j = n
        while j > 0 and m.chars[j - 1][0].isspace():
            j -= 1
        m.chars = m.chars[:j]
        return ret(t, m)
    if k == "rstrip_end":
        size = op[1]
        if size < 0:
            raise Skip()
        t.rstrip_end(size)
        if n > size:
            j = n
            while j > 0 and m.chars[j - 1][0].isspace():
                j -= 1
            m.chars = m.chars[:n - min(n - j, n - size)]
        return ret(t, m)
    if k == "remove_suffix":
        suf = op[1]
        t.remove_suffix(suf)
        if m.s().endswith(suf):
            m.chars = m.chars[:n - len(suf)]
        return ret(t, m)
    if k == "stylize":
        _, st, a, b = op
        if b is None:
            t.stylize(_sty(st), a)
        else:
            t.stylize(_sty(st), a, b)
        a2 = a + n if a < 0 else a
        b2 = n if b is None else (b + n if b < 0 else b)
        m_stylize(m.chars, a2, b2, sname(st))
        return ret(t, m)
    if k == "highlight_regex":
        _, pat, st = op
        t.highlight_regex(pat, _sty(st))
        s = m.s()
        for mt in re.finditer(pat, s):
            if st:
                a, b = mt.span()
                if b > a:
                    m_stylize(m.chars, a, b, sname(st))
            for name in mt.groupdict():
                a, b = mt.span(name)
                if a != -1 and b > a:
                    m_stylize(m.chars, a, b, name)
        return ret(t, m)
    if k == "highlight_words":
        _, words, st, cs = op
        if not words or any(not w for w in words):
            raise Skip()
        t.highlight_words(words, _sty(st), case_sensitive=cs)
        for a, b in m_words(m.s(), words, cs):
            m_stylize(m.chars, a, b, sname(st))
        return ret(t, m)
    if k == "copy_styles":
        spans = op[1]
        if any(not (0 <= a <= b <= n) for a, b, _ in spans):
            raise Skip()
        other = Text(m.s(), spans=[Span(a, b, _sty(st)) for a, b, st in spans])
        t.copy_styles(other)
        for a, b, st in spans:
            m_stylize(m.chars, a, b, sname(st))
        return ret(t, m)
    raise Skip()


# ------------------------------------------------------------------------------------------------ comparison
def observe(console, text):
    segs = list(text.render(console, end=""))
    per = []
    for seg in segs:
        a = style_attrs(seg.style)
        per.extend([a] * len(seg.text))
    return "".join(seg.text for seg in segs), per


def spans_attrs(console, text, plain):
    """effective style per character computed from text.spans (base first, then covering spans in list order)"""
    get = console.get_style
    base = style_attrs(get(text.style))
    sp = [(s.start, s.end, style_attrs(get(s.style))) for s in text.spans]
    out = []
    for i in range(len(plain)):
        out.append(combine_attrs([base] + [a for st, en, a in sp if st <= i < en]))
    return out


def _fmt_attrs(a) -> str:
    color, bg, bold, italic, ul, other = a
    bits = []
    for name, v in (("bold", bold), ("italic", italic), ("underline", ul)):
        if v is True:
            bits.append(name)
        elif v is False:
            bits.append("not " + name)
    if color:
        bits.append(color)
    if bg:
        bits.append("on " + bg)
    bits.extend(other)
    return " ".join(bits) or "none"


def compare(console, label, text, model: M, counts) -> Optional[Tuple[str, str, Any, Any]]:
    """-> None or (clause, what, expected, observed)"""
    if isinstance(text, list):  # number of pieces differs
        counts["plain_equation"] = counts.get("plain_equation", 0) + 1
        return ("plain_equation", f"{label}: number/contents of pieces differ",
                [mm.s() for mm in model], [x.plain for x in text])
    want = model.s()
    counts["plain_equation"] = counts.get("plain_equation", 0) + 1
    plain = text.plain
    if plain != want:
        return ("plain_equation", f"{label}: plain differs from the same operations on an ordinary string", want, plain)
    counts["length_equation"] = counts.get("length_equation", 0) + 1
    try:
        length = len(text)
    except Exception as e:  # noqa  (a negative cached length makes len() itself raise)
        length = f"{type(e).__name__}: {e}"
    if length != len(want):
        return ("length_equation", f"{label}: len(text) != len(plain) (plain {plain!r})", len(want), length)
    counts["render_raises"] = counts.get("render_raises", 0) + 1
    try:
        rtext, per = observe(console, text)
    except Exception as e:  # noqa
        return ("render_raises", f"{label}: Text.render raised {type(e).__name__}: {e} (plain {plain!r}, spans "
                f"{[(s.start, s.end, str(s.style)) for s in text.spans]})", "segments", repr(e))
    counts["render_text"] = counts.get("render_text", 0) + 1
    if rtext != plain:
        return ("render_text", f"{label}: text of rendered segments differs from plain", plain, rtext)
    counts["style_transport"] = counts.get("style_transport", 0) + 1
    for i, (c, layers) in enumerate(model.chars):
        partial, exp = expected_attrs(model.base, layers)
        got = per[i]
        if partial:
            ok = all(exp[k] is None or exp[k] == got[k] for k in range(5))
        else:
            ok = exp == got
        if not ok:
            return ("style_transport",
                    f"{label}: character {i} ({c!r}) of {plain!r} has effective style '{_fmt_attrs(got)}', expected "
                    f"'{_fmt_attrs(exp)}'" + (" (attributes applied after the character was created)" if partial else ""),
                    [_fmt_attrs(expected_attrs(model.base, l)[1]) for _, l in model.chars],
                    [_fmt_attrs(a) for a in per])
    try:
        got_base = style_attrs(console.get_style(text.style))
    except Exception as e:  # noqa
        got_base = repr(e)
    if got_base != parse_attrs(model.base):
        return ("style_transport", f"{label}: the base style of the text ({plain!r}) is '{text.style}', expected "
                f"'{model.base}' (characters that are there keep it only through the base style)",
                model.base, str(text.style))
    counts["render_vs_spans"] = counts.get("render_vs_spans", 0) + 1
    try:
        sa = spans_attrs(console, text, plain)
    except Exception:  # noqa
        sa = None
    if sa is not None and sa != per:
        return ("render_vs_spans", f"{label}: render() disagrees with base style + covering spans in span order",
                [_fmt_attrs(a) for a in sa], [_fmt_attrs(a) for a in per])
    return None


def opname(op) -> str:
    k = op[0]
    if k in ("split", "divide", "fit"):
        return k
    return {"append_text2": "append_text", "add_text": "add", "add_str": "add", "getitem_slice": "getitem",
            "getitem_int": "getitem_int", "join_as_sep": "join", "join_into": "join"}.get(k, k)


def opsig(op) -> str:
    k = op[0]
    if k in ("split", "divide", "fit"):
        return k + "/" + op[-1][0]
    if k == "truncate":
        return f"truncate/{op[2]}"
    return k


def replay(console, init, ops, counts=None):
    """run a history.  -> (failure or None, executed signatures, final model length)"""
    counts = counts if counts is not None else {}
    sigs = []
    try:
        t = r_build(init)
    except Exception as e:  # noqa
        return ({"clause": "raises", "op": "construct", "at": -1, "what": f"Text(...) raised {e!r}",
                 "expected": "a Text", "observed": repr(e)}, sigs, 0)
    m = m_build(init)
    bad = compare(console, "construct", t, m, counts)
    if bad:
        return ({"clause": bad[0], "op": "construct", "at": -1, "what": bad[1], "expected": bad[2], "observed": bad[3]},
                sigs, len(m.chars))
    for at, op in enumerate(ops):
        fail, t, m, sig = _exec_one(console, t, m, op, at, counts)
        if sig:
            sigs.append(sig)
        if fail:
            return fail, sigs, len(m.chars)
    return None, sigs, len(m.chars)


# ------------------------------------------------------------------------------------------------ generation
ALPHA = "aaabbb   \n\tA你"
CONTROL = "\x08\x0b\x0c\r"
PADCH = " -*"
PATTERNS = ["a+", "b", "a|b", "[ab]+", r"\s+", "(?P<bold>a)(?P<red>b)?", "a*", "(?P<italic>b+)", "$", "你",
            "(?P<underline>a)|(?P<green>b)", r"\S+"]
SEPS = ["\n", " ", "a", "ab", "aa", "\t", "  "]


def g_str(rng, lo, hi, control=0.0, extra=0.05) -> str:
    n = rng.randint(lo, hi)
    out = [rng.choice(ALPHA) for _ in range(n)]
    if rng.random() < extra and out:
        out[rng.randrange(len(out))] = rng.choice("\x07̀")
    if rng.random() < control:
        for _ in range(rng.randint(1, 2)):
            out.insert(rng.randint(0, len(out)), rng.choice(CONTROL))
    return "".join(out)


def g_style(rng) -> str:
    return rng.choice(STYLES)


def g_spans(rng, n: int, most: int = 4) -> list:
    out = []
    for _ in range(rng.choice([c for c in (0, 1, 2, 2, 3, 3, 4) if c <= most])):
        if out and rng.random() < 0.25:
            a, b, st = rng.choice(out)  # duplicated / same range, maybe another style
            out.append([a, b, st if rng.random() < 0.5 else g_style(rng)])
            continue
        a = rng.randint(0, n)
        b = rng.randint(a, n) if rng.random() < 0.8 else a
        if rng.random() < 0.3:
            b = n
        out.append([a, b, g_style(rng)])
    return out


def g_aux(rng, lo=0, hi=4, control=0.05) -> dict:
    s = g_str(rng, lo, hi, control)
    return {"s": s, "base": g_style(rng) if rng.random() < 0.5 else "", "spans": g_spans(rng, len(strip(s)), 2)}


def g_off(rng, n: int) -> int:
    c = [-n - 2, -n - 1, -n, -n + 1, -1, 0, 1, n // 2, n - 1, n, n + 1, n + 3, rng.randint(-n - 2, n + 3)]
    return rng.choice(c)


def g_pos(rng, n: int) -> int:
    return max(0, rng.choice([0, 0, 1, n // 2, n - 1, n, n + 1, n + 2, rng.randint(0, n + 2)]))


OPS = [("append", 8), ("append_text", 4), ("append_text2", 3), ("add_text", 1), ("add_str", 1), ("append_tokens", 2),
       ("assemble", 3), ("join_as_sep", 2), ("join_into", 3), ("split", 7), ("divide", 7), ("fit", 1),
       ("getitem_slice", 6), ("getitem_int", 2), ("pad", 2), ("pad_left", 3), ("pad_right", 2), ("align", 4),
       ("truncate", 6), ("right_crop", 4), ("set_length", 3), ("expand_tabs", 4), ("copy", 2), ("blank_copy", 1),
       ("rstrip", 2), ("rstrip_end", 2), ("remove_suffix", 3), ("stylize", 9), ("highlight_regex", 3),
       ("highlight_words", 2), ("copy_styles", 3)]
_OPN = [o for o, _ in OPS]
_OPW = [w for _, w in OPS]


def g_then(rng):
    if rng.random() < 0.6:
        return ["pick", rng.randint(0, 5)]
    return ["join", g_aux(rng, 0, 2, 0.0)]


def _tame_ok(op, m: M) -> bool:
    """False for arguments that hit a defect this check has already reported on the pinned tree (see _batch)"""
    k = op[0]
    n = len(m.chars)
    if k == "getitem_int":
        return False
    if k == "right_crop":
        return 0 < op[1] <= n
    if k == "remove_suffix":
        return op[1] != ""
    if k == "stylize":
        return op[2] >= -n
    if k == "split":
        sep = op[1]
        return not any(sep.startswith(sep[i:]) for i in range(1, len(sep)))
    if k == "set_length":
        return True
    return True


def g_op(rng, m: M, tame: bool = False) -> list:
    for _ in range(50):
        op = _g_op(rng, m)
        if not tame or _tame_ok(op, m):
            return op
    return ["copy"]


def _g_op(rng, m: M) -> list:
    n = len(m.chars)
    s = m.s()
    k = rng.choices(_OPN, _OPW)[0]
    if n > 40 and rng.random() < 0.6:
        k = rng.choice(["getitem_slice", "right_crop", "truncate", "set_length"])
    if k == "append":
        return [k, g_str(rng, 0, 4, 0.15), g_style(rng) if rng.random() < 0.6 else None]
    if k in ("append_text", "append_text2", "add_text"):
        return [k, g_aux(rng)]
    if k == "add_str":
        return [k, g_str(rng, 0, 3, 0.1)]
    if k == "append_tokens":
        return [k, [[g_str(rng, 0, 3), g_style(rng) if rng.random() < 0.6 else None] for _ in range(rng.randint(0, 3))]]
    if k == "assemble":
        parts: list = []
        for _ in range(rng.randint(0, 3)):
            r = rng.random()
            parts.append(g_str(rng, 0, 3, 0.1) if r < 0.3 else [g_str(rng, 0, 3, 0.1), g_style(rng)] if r < 0.7 else g_aux(rng))
        parts.insert(rng.randint(0, len(parts)), "CUR")
        return [k, parts, g_style(rng) if rng.random() < 0.5 else ""]
    if k == "join_as_sep":
        return [k, [g_aux(rng) for _ in range(rng.randint(0, 3))]]
    if k == "join_into":
        return [k, g_aux(rng, 0, 2), [g_aux(rng) for _ in range(rng.randint(0, 2))], [g_aux(rng) for _ in range(rng.randint(0, 2))]]
    if k == "split":
        seps = [x for x in SEPS if x in s] or SEPS
        sep = rng.choice(seps) if rng.random() < 0.8 else rng.choice(SEPS)
        return [k, sep, rng.random() < 0.5, rng.random() < 0.5, g_then(rng)]
    if k == "divide":
        offs = sorted(g_pos(rng, n) for _ in range(rng.choice([0, 1, 1, 2, 2, 3, 4])))
        return [k, offs, g_then(rng)]
    if k == "fit":
        return [k, rng.randint(0, 6), ["pick", rng.randint(0, 5)]]
    if k == "getitem_slice":
        a = None if rng.random() < 0.15 else g_off(rng, n)
        b = None if rng.random() < 0.15 else g_off(rng, n)
        return [k, a, b]
    if k == "getitem_int":
        return [k, rng.randint(-n, n - 1) if n else 0]
    if k in ("pad", "pad_left", "pad_right"):
        return [k, rng.choice([0, 1, 1, 2, 3]), rng.choice(PADCH)]
    if k == "align":
        return [k, rng.choice(["left", "center", "right"]), g_pos(rng, m_cells(m.chars)), rng.choice(PADCH)]
    if k == "truncate":
        return [k, g_pos(rng, m_cells(m.chars)), rng.choice([None, "fold", "crop", "ellipsis", "ellipsis", "ignore"]),
                rng.random() < 0.4]
    if k == "right_crop":
        return [k, g_pos(rng, n) if rng.random() < 0.5 else rng.choice([0, 1, 1, 2])]
    if k == "set_length":
        return [k, g_pos(rng, n)]
    if k == "expand_tabs":
        return [k, rng.choice([None, 1, 2, 3, 4, 8])]
    if k in ("copy", "blank_copy", "rstrip"):
        return [k]
    if k == "rstrip_end":
        return [k, g_pos(rng, n)]
    if k == "remove_suffix":
        r = rng.random()
        if r < 0.5 and n:
            return [k, s[n - rng.randint(0, min(3, n)):]]
        return [k, g_str(rng, 0, 2)]
    if k == "stylize":
        return [k, g_style(rng), g_off(rng, n) if rng.random() < 0.8 else 0, None if rng.random() < 0.25 else g_off(rng, n)]
    if k == "highlight_regex":
        return [k, rng.choice(PATTERNS), g_style(rng) if rng.random() < 0.6 else None]
    if k == "highlight_words":
        pool = ["a", "b", "ab", "ba", "aa", "A", " ", "你", "a b"]
        return [k, [rng.choice(pool) for _ in range(rng.randint(1, 3))], g_style(rng), rng.random() < 0.5]
    if k == "copy_styles":
        return [k, g_spans(rng, n, 3)]
    raise AssertionError(k)


def g_init(rng, tame: bool = False) -> dict:
    s = g_str(rng, 0, 8, 0.0 if tame else 0.3, 0.08)
    return {"s": s, "base": g_style(rng) if rng.random() < 0.4 else "", "spans": g_spans(rng, len(strip(s)))}


def gen_history(console, rng, max_ops: int, counts, tame: bool = False):
    """generate and execute one history (generation looks at the model state so that most arguments are valid)"""
    init = g_init(rng, tame)
    ops: list = []
    fail, sigs, _ = replay(console, init, [], counts)
    if fail:
        return init, ops, fail, []
    # incremental execution: keep (t, m) across steps instead of replaying from scratch
    t = r_build(init)
    m = m_build(init)
    nops = rng.randint(1, max_ops)
    allsigs: list = []
    for at in range(nops):
        op = g_op(rng, m, tame)
        ops.append(op)
        fail, t, m, sig = _exec_one(console, t, m, op, at, counts)
        if sig:
            allsigs.append(sig)
        if fail:
            return init, ops, fail, allsigs
        if len(m.chars) > 80:
            break
    return init, ops, None, allsigs


def _exec_one(console, t, m, op, at, counts):
    name = opname(op)
    before = m.s()
    try:
        t2, m2, checks, keep = step(t, m, op)
    except Skip:
        return None, t, m, None
    except Exception as e:  # noqa
        counts["raises"] = counts.get("raises", 0) + 1
        return ({"clause": "raises", "op": name, "at": at,
                 "what": f"{name} raised {type(e).__name__}: {e} on {before!r}", "expected": "no exception",
                 "observed": f"{type(e).__name__}: {e}"}, t, m, opsig(op))
    counts["raises"] = counts.get("raises", 0) + 1
    sig = opsig(op)
    if op[0] in STYLING_OPS:
        counts["styling_keeps_characters"] = counts.get("styling_keeps_characters", 0) + 1
        try:
            now, ln = t2.plain, len(t2)
        except Exception as e:  # noqa
            now, ln = repr(e), -1
        if now != before or ln != len(before):
            return ({"clause": "styling_keeps_characters", "op": name, "at": at,
                     "what": f"{name} changed the characters or the length", "expected": [before, len(before)],
                     "observed": [now, ln]}, t2, m2, sig)
    for label, tx, mx in checks:
        bad = compare(console, label, tx, mx, counts)
        if bad:
            nm = "construct" if label == "construct" else name
            return ({"clause": bad[0], "op": nm, "at": at, "what": f"after {name}: " + bad[1], "expected": bad[2],
                     "observed": bad[3]}, t2, m2, sig)
    for label, tx, mx in keep:
        counts["source_unchanged"] = counts.get("source_unchanged", 0) + 1
        bad = compare(console, label, tx, mx, {})
        if bad:
            return ({"clause": "source_unchanged", "op": name, "at": at,
                     "what": f"{name} returns a new value but changed its {label}: " + bad[1], "expected": bad[2],
                     "observed": bad[3]}, t2, m2, sig)
    return None, t2, m2, sig


# ------------------------------------------------------------------------------------------------ minimisation
def check_name(f) -> str:
    return f"c05.{f['clause']}:{f['op']}"


def minimise(console, init, ops, fail):
    target = check_name(fail)

    def still(i2, o2):
        f2, _, _ = replay(console, i2, o2)
        return f2 if (f2 is not None and check_name(f2) == target) else None

    ops = list(ops[: fail["at"] + 1])
    f0 = still(init, ops)
    if f0 is None:  # should not happen (replay is deterministic); keep the original
        return init, ops, fail
    fail = f0
    ops = ops[: fail["at"] + 1]
    budget = 400
    changed = True
    while changed and budget > 0:
        changed = False
        for i in range(len(ops) - 2, -1, -1):
            budget -= 1
            cand = ops[:i] + ops[i + 1:]
            f2 = still(init, cand)
            if f2:
                ops, fail, changed = cand[: f2["at"] + 1], f2, True
                break
        if changed:
            continue
        for i in range(len(init["spans"])):
            budget -= 1
            cand_i = dict(init, spans=init["spans"][:i] + init["spans"][i + 1:])
            f2 = still(cand_i, ops)
            if f2:
                init, fail, changed = cand_i, f2, True
                break
        if changed:
            continue
        if init["base"]:
            cand_i = dict(init, base="")
            f2 = still(cand_i, ops)
            if f2:
                init, fail, changed = cand_i, f2, True
                continue
        s = init["s"]
        for i in range(len(s) - 1, -1, -1):
            budget -= 1
            s2 = s[:i] + s[i + 1:]
            n2 = len(strip(s2))
            cand_i = dict(init, s=s2, spans=[[min(a, n2), min(b, n2), st] for a, b, st in init["spans"]])
            f2 = still(cand_i, ops)
            if f2:
                init, fail, changed = cand_i, f2, True
                break
        if changed:
            continue
        for i in range(len(s)):  # canonical characters: 'a' wherever the failure does not depend on the character
            if s[i] != "a" and s[i] not in CONTROL:
                budget -= 1
                cand_i = dict(init, s=s[:i] + "a" + s[i + 1:])
                f2 = still(cand_i, ops)
                if f2:
                    init, fail, changed = cand_i, f2, True
                    break
        if changed:
            continue
        # simplify auxiliary texts / string arguments of the last operations
        for i in range(len(ops) - 1, -1, -1):
            for cand_op in _simpler(ops[i]):
                budget -= 1
                cand = ops[:i] + [cand_op] + ops[i + 1:]
                f2 = still(init, cand)
                if f2:
                    ops, fail, changed = cand, f2, True
                    break
            if changed or budget <= 0:
                break
    return init, ops[: fail["at"] + 1], fail


def _simpler(op):
    """a few cheaper variants of one operation"""
    k = op[0]

    def aux_variants(a):
        if a["spans"]:
            yield dict(a, spans=a["spans"][:-1])
        if a["base"]:
            yield dict(a, base="")
        if len(a["s"]) > 1:
            n2 = len(strip(a["s"][:-1]))
            yield dict(a, s=a["s"][:-1], spans=[[min(x, n2), min(y, n2), st] for x, y, st in a["spans"]])

    if k in ("append_text", "append_text2", "add_text"):
        for v in aux_variants(op[1]):
            yield [k, v]
    elif k == "append":
        if op[2] is not None:
            yield [k, op[1], None]
        if len(op[1]) > 1:
            yield [k, op[1][:-1], op[2]]
            yield [k, op[1][1:], op[2]]
    elif k == "assemble":
        for i, p in enumerate(op[1]):
            if p != "CUR":
                yield [k, op[1][:i] + op[1][i + 1:], op[2]]
        if op[2]:
            yield [k, op[1], ""]
    elif k == "join_as_sep":
        for i in range(len(op[1])):
            yield [k, op[1][:i] + op[1][i + 1:]]
        for i, a in enumerate(op[1]):
            for v in aux_variants(a):
                yield [k, op[1][:i] + [v] + op[1][i + 1:]]
    elif k == "join_into":
        for i in range(len(op[2])):
            yield [k, op[1], op[2][:i] + op[2][i + 1:], op[3]]
        for i in range(len(op[3])):
            yield [k, op[1], op[2], op[3][:i] + op[3][i + 1:]]
        for v in aux_variants(op[1]):
            yield [k, v, op[2], op[3]]
    elif k in ("split", "divide", "fit") and op[-1][0] == "join":
        yield op[:-1] + [["pick", 0]]
        yield op[:-1] + [["pick", 1]]
    elif k == "copy_styles" and len(op[1]) > 1:
        for i in range(len(op[1])):
            yield [k, op[1][:i] + op[1][i + 1:]]


# ------------------------------------------------------------------------------------------------ driver
def _seed_for(seed: int, idx: int) -> int:
    return (seed * 1_000_003 + idx) * 2_654_435_761 % (2 ** 61 - 1)


def _batch(args):
    seed, start, count, max_ops, fixed = args
    console = make_console()
    counts: Dict[str, int] = {}
    opcount: Dict[str, int] = {}
    sigset = set()
    fails: Dict[str, list] = {}
    samples = []
    nops = 0
    for idx in range(start, start + count):
        rng = random.Random(_seed_for(seed if idx >= fixed else 0, idx))
        init, ops, fail, sigs = gen_history(console, rng, max_ops, counts, tame=idx % 4 != 0)
        nops += len(sigs) + 1
        for sg in sigs:
            nm = sg.split("/")[0]
            opcount[nm] = opcount.get(nm, 0) + 1
        if len(sigs) >= 2:
            sigset.add(zlib.crc32(">".join(sigs).encode()) ^ (len(sigs) << 32))
        if fail:
            lst = fails.setdefault(check_name(fail), [])
            if len(lst) < 3:
                lst.append((idx, init, ops, fail))
        elif len(samples) < 1 and len(ops) >= 3:
            samples.append({"text": init["s"], "base": init["base"], "spans": init["spans"], "ops": ops})
    return {"counts": counts, "ops": opcount, "sigs": sigset, "fails": fails, "samples": samples, "nops": nops,
            "histories": count}


def _directed() -> list:
    """a small fixed list of histories (depth 1-2) around the ends of the text: always run, both tiers"""
    out = []
    inits = [{"s": "ab", "base": "", "spans": [[0, 2, "red"]]},
             {"s": "a b\tc", "base": "bold", "spans": [[0, 3, "red"], [2, 5, "on blue"]]},
             {"s": "abcd", "base": "", "spans": [[0, 4, "red"], [2, 4, "blue"], [2, 4, "red"]]},
             {"s": "", "base": "", "spans": []},
             {"s": "a\x08b", "base": "", "spans": [[0, 2, "bold"]]},
             {"s": "你a你", "base": "italic", "spans": [[1, 3, "green"]]}]
    for init in inits:
        n = len(strip(init["s"]))
        singles: list = [["copy"], ["blank_copy"], ["rstrip"], ["expand_tabs", None], ["expand_tabs", 4]]
        for v in range(0, n + 3):
            singles += [["right_crop", v], ["set_length", v], ["rstrip_end", v], ["pad_left", v, " "], ["pad", v, "-"],
                        ["pad_right", v, "*"], ["divide", [v], ["pick", 1]], ["divide", [v], ["pick", 0]]]
            for ov in (None, "crop", "ellipsis", "ignore"):
                for pad in (False, True):
                    singles.append(["truncate", v, ov, pad])
            for how in ("left", "center", "right"):
                singles.append(["align", how, v, " "])
        for a in range(-n - 2, n + 3):
            singles.append(["getitem_int", a])
            for b in list(range(-n - 2, n + 3)) + [None]:
                singles.append(["getitem_slice", a, b])
                singles.append(["stylize", "on blue", a, b])
        for suf in ("", "b", "ab", "x"):
            singles.append(["remove_suffix", suf])
        for sep in SEPS:
            for incl in (False, True):
                for blank in (False, True):
                    singles.append(["split", sep, incl, blank, ["join", {"s": "-", "base": "", "spans": []}]])
        for op in singles:
            out.append((init, [op]))
            out.append((init, [op, ["append", "a\rb", "underline"]]))
            out.append((init, [op, ["stylize", "italic", -1, None]]))
    return out


def _directed_batch(args):
    start, count = args
    console = make_console()
    counts: Dict[str, int] = {}
    fails: Dict[str, list] = {}
    sigset = set()
    opcount: Dict[str, int] = {}
    nops = 0
    hist = _directed()[start:start + count]
    for j, (init, ops) in enumerate(hist):
        fail, sigs, _ = replay(console, init, ops, counts)
        nops += len(sigs) + 1
        for sg in sigs:
            nm = sg.split("/")[0]
            opcount[nm] = opcount.get(nm, 0) + 1
        if len(sigs) >= 2:
            sigset.add(zlib.crc32(">".join(sigs).encode()) ^ (len(sigs) << 32))
        if fail:
            lst = fails.setdefault(check_name(fail), [])
            if len(lst) < 3:
                lst.append((-(10 ** 6) + start + j, init, ops, fail))
    return {"counts": counts, "ops": opcount, "sigs": sigset, "fails": fails, "samples": [], "nops": nops,
            "histories": len(hist)}


def _key(init, ops) -> str:
    body = repr((init["s"], init["base"], init["spans"], ops))
    return f"{init['s']!r}/{len(init['spans'])}sp/" + ">".join(opsig(o) for o in ops) + "#%08x" % zlib.crc32(body.encode())


def run(tier: str = "quick", seed: int = 0) -> dict:
    import multiprocessing as mp

    t0 = time.time()
    n_hist = 64000 if tier == "quick" else 600000
    max_ops = 12
    procs = min(16, os.cpu_count() or 2)
    per = 250 if tier == "quick" else 2000
    fixed = n_hist // 2  # the first half is the same for every seed (stable failure reports), the rest follows `seed`
    jobs = [(seed, s, min(per, n_hist - s), max_ops, fixed) for s in range(0, n_hist, per)]
    nd = len(_directed())
    djobs = [(s, 400) for s in range(0, nd, 400)]
    cells("a")  # build the width table and import rich once, before the workers are forked
    make_console()
    ctx = mp.get_context("fork")
    with ctx.Pool(procs) as pool:
        dres = pool.map(_directed_batch, djobs, chunksize=1)
        res = pool.map(_batch, jobs, chunksize=1)
    counts: Dict[str, int] = {}
    opcount: Dict[str, int] = {}
    sigs = set()
    cand: Dict[str, list] = {}
    samples = []
    nops = 0
    nh = 0
    for r in dres + res:
        for k, v in r["counts"].items():
            counts[k] = counts.get(k, 0) + v
        for k, v in r["ops"].items():
            opcount[k] = opcount.get(k, 0) + v
        sigs |= r["sigs"]
        nops += r["nops"]
        nh += r["histories"]
        for k, v in r["fails"].items():
            cand.setdefault(k, []).extend(v)
        if len(samples) < 4:
            samples.extend(r["samples"][:1])
    console = make_console()
    failures = []
    for name in sorted(cand):
        # directed first (negative index), then by history index; minimise, then keep 3 distinct
        seen = {}
        for idx, init, ops, fail in sorted(cand[name], key=lambda x: x[0])[:10]:
            init2, ops2, fail2 = minimise(console, init, ops, fail)
            key = _key(init2, ops2)
            if key not in seen:
                seen[key] = (">".join(opsig(o) for o in ops2), len(ops2) + len(init2["s"]), init2, ops2, fail2)
        # one per distinct operation sequence first (shortest first), then fill up to 3
        order = sorted(seen.items(), key=lambda kv: (kv[1][1], kv[0]))
        chosen, shapes = [], set()
        for key, v in order:
            if v[0] not in shapes:
                shapes.add(v[0])
                chosen.append((key, v))
        for key, v in order:
            if len(chosen) >= 3:
                break
            if (key, v) not in chosen:
                chosen.append((key, v))
        for key, (_, _, init2, ops2, fail2) in chosen[:3]:
            failures.append({"check": name, "what": fail2["what"], "input_key": key,
                             "input": {"text": init2["s"], "base": init2["base"], "spans": init2["spans"], "ops": ops2},
                             "expected": fail2["expected"], "observed": fail2["observed"]})
    return {
        "evaluations": nops,
        "distinct_nontrivial": len(sigs),
        "rule": "a case is one operation applied to the real Text and to the reference model inside a history "
                "(construction counts as one), followed by the comparisons; histories are generated from "
                "random.Random(f(seed, index)) (the first half of the indices ignores the seed so that reports are stable; "
                "3 of 4 histories avoid arguments that hit defects already reported on the pinned tree, so that long "
                "histories are not cut short by them), plus a fixed directed list of 1-2 step histories at the ends of the text; "
                "distinct_nontrivial = number of distinct operation-sequence signatures (operation names, continuation "
                "pick/join, truncate overflow) among histories with at least two executed operations",
        "bound": f"{nh} histories ({nd} directed), <= {max_ops} operations each; initial strings <= 10 characters over "
                 "{a,b,A,space,\\n,\\t,U+4F60,U+0300,\\x07} plus stripped control characters \\x08 \\x0b \\x0c \\r; <= 4 "
                 "initial spans (overlapping, nested, duplicated, empty) over 15 styles (strings and Style objects); "
                 "offsets from -(len+2) to len+3; widths 0..cells+2; text length capped at 80",
        "samples": samples[:4],
        "clauses": {f"c05.{k}": v for k, v in sorted(counts.items())},
        "operations": dict(sorted(opcount.items())),
        "failures": failures,
        "seconds": round(time.time() - t0, 2),
    }


def replay_input(inp: dict):
    """replay the `input` of a failure record; -> failure dict or None"""
    return replay(make_console(), {"s": inp["text"], "base": inp["base"], "spans": inp["spans"]}, inp["ops"])[0]
