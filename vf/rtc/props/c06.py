"""C06 - styles form a consistent algebra, round-trip through text, and hash consistently (bounded check).

The oracle is a model style written from the statement: a record of 13 tri-state attributes (True / False / None),
a colour spelling or None, a background spelling or None and a link or None.  ``model_add(a, b)`` is the statement's
"the right-hand operand wins exactly where it specifies a value".  A rich Style is *observed* through its public
surface only (the 13 attribute properties, .color/.bgcolor as (type, number, triplet), .link, ==, hash, str).

Clauses
  c06.roundtrip:str          Style.parse(str(s)) == s and observes like the model
  c06.roundtrip:normalize    Style.parse(Style.normalize(str(s))) == s
  c06.spelling:attribute     every documented attribute word / alias (docs/source/style.rst and the table in
                             Style.parse) parses to the style with exactly that attribute on; "not <word>" to off
  c06.spelling:color         every ANSI_COLOR_NAMES entry, color(n), #rrggbb, rgb(r,g,b), default: the colour it names,
                             as foreground and after "on" as background
  c06.spelling:hex_case      "#RRGGBB" is "three pairs of hex characters": the upper-case and mixed-case spellings of the
                             hex digits name the same colour, so as a foreground word, after "on", and as the color= /
                             bgcolor= keyword (string or Color.parse object) they give a style equal to (and hashing
                             like) the one the lower-case spelling gives
  c06.spelling:link          "link <url>"
  c06.spelling:out_of_range  color(n) with n > 255 and rgb() components > 255 are not colours (documented range
                             0..255): StyleSyntaxError / ColorParseError
  c06.add:right_bias         a + b observes like model_add(a, b) (per attribute, colour, bgcolor, link)
  c06.add:identity           null + a == a == a + null (Style.null(), Style(), None on the right)
  c06.add:associative        (a + b) + c == a + (b + c)
  c06.combine:fold           Style.combine(seq) (list / tuple / iterator) and Style.chain(*seq) are the fold of + over the
                             sequence: they observe like the model's fold (the right-most style that specifies a field
                             wins), equal the keyword-built style of that model and (a + b) + c, and hash like them -
                             over sequences of length 1..4 that repeat a style ([a, b, a], [a, a, b], [a, b, b, a],
                             [b, a, b, a], ...) and over triples of the pool
  c06.route_eq:<route>       a style built by <route> equals the keyword-built style of the same model
  c06.hash_eq:<route>        ... and then has the same hash (and finds it as a dict key)
routes: parse, normalize, add (a + b over a split of the model), combine, chain, combine_repeat / chain_repeat
(the sequence [right, left, right], in which the repeated operand re-asserts what the middle one overrode), copy,
update_link, without_color, from_color, null.
"""
from __future__ import annotations

import itertools
import multiprocessing
import os
import random
import time
from typing import Dict, List, Optional, Tuple

MAX_PER_CLAUSE = 3

ATTRS = ["bold", "dim", "italic", "underline", "blink", "blink2", "reverse", "conceal", "strike", "underline2", "frame", "encircle", "overline"]

# documented words (docs/source/style.rst "Defining Styles" + the alias table of Style.parse, written out here)
ATTRIBUTE_WORDS = {
    "dim": "dim", "d": "dim", "bold": "bold", "b": "bold", "italic": "italic", "i": "italic",
    "underline": "underline", "u": "underline", "blink": "blink", "blink2": "blink2",
    "reverse": "reverse", "r": "reverse", "conceal": "conceal", "c": "conceal", "strike": "strike", "s": "strike",
    "underline2": "underline2", "uu": "underline2", "frame": "frame", "encircle": "encircle",
    "overline": "overline", "o": "overline",
}  # fmt: skip

STANDARD_NAMES = [
    "black", "red", "green", "yellow", "blue", "magenta", "cyan", "white",
    "bright_black", "bright_red", "bright_green", "bright_yellow", "bright_blue", "bright_magenta", "bright_cyan", "bright_white",
]  # fmt: skip

LINKS = [None, "https://example.org/a", "http://x/y%20z?q=1&r=%41", "foo", "https://Example.org/Docs/README.md"]


# ---------------------------------------------------------------------------------------------------------------
# model


class M:
    """model style"""

    __slots__ = ("attrs", "color", "bgcolor", "link")

    def __init__(self, attrs=None, color=None, bgcolor=None, link=None):
        self.attrs = tuple(attrs) if attrs is not None else (None,) * 13
        self.color = color
        self.bgcolor = bgcolor
        self.link = link

    def kwargs(self) -> dict:
        kw = {a: v for a, v in zip(ATTRS, self.attrs) if v is not None}
        if self.color is not None:
            kw["color"] = self.color
        if self.bgcolor is not None:
            kw["bgcolor"] = self.bgcolor
        if self.link is not None:
            kw["link"] = self.link
        return kw

    def key(self):
        return (self.attrs, self.color, self.bgcolor, self.link)

    def describe(self) -> dict:
        return self.kwargs()


def model_add(a: M, b: M) -> M:
    return M(
        [y if y is not None else x for x, y in zip(a.attrs, b.attrs)],
        b.color if b.color is not None else a.color,
        b.bgcolor if b.bgcolor is not None else a.bgcolor,
        b.link if b.link is not None else a.link,
    )


def color_meaning(spelling: Optional[str]):
    """what a colour spelling names, from the documentation: (kind, number, (r, g, b))"""
    if spelling is None:
        return None
    s = spelling
    if s == "default":
        return ("default", None, None)
    if s.startswith("#"):
        return ("truecolor", None, (int(s[1:3], 16), int(s[3:5], 16), int(s[5:7], 16)))
    if s.startswith("rgb("):
        r, g, b = s[4:-1].split(",")
        return ("truecolor", None, (int(r), int(g), int(b)))
    if s.startswith("color("):
        n = int(s[6:-1])
        return ("standard" if n < 16 else "eight_bit", n, None)
    from rich.color import ANSI_COLOR_NAMES

    n = ANSI_COLOR_NAMES[s]
    return ("standard" if n < 16 else "eight_bit", n, None)


def _color_object(spelling: Optional[str]):
    """the colour a spelling names, made by the factory functions (Color.default / from_ansi / from_rgb / from_triplet)"""
    from rich.color import ANSI_COLOR_NAMES, Color
    from rich.color_triplet import ColorTriplet

    if spelling is None:
        return None
    # Colour equality includes the display name, so only the factories that give the same name as the spelling are
    # interchangeable with it: "default", "color(n)" and lower-case "#rrggbb"; other spellings go through Color.parse
    kind, number, triplet = color_meaning(spelling)
    if kind == "default":
        return Color.default()
    if spelling.startswith("color("):
        return Color.from_ansi(number)
    if spelling.startswith("#") and spelling == spelling.lower():
        return Color.from_triplet(ColorTriplet(*triplet))
    return Color.parse(spelling)


def observe_color(c):
    if c is None:
        return None
    t = c.triplet
    return (c.type.name.lower(), c.number, None if t is None else (t.red, t.green, t.blue))


def observe(style):
    return (tuple(getattr(style, a) for a in ATTRS), observe_color(style.color), observe_color(style.bgcolor), style.link)


def model_observation(m: M):
    return (m.attrs, color_meaning(m.color), color_meaning(m.bgcolor), m.link)


def build(m: M):
    from rich.style import Style

    return Style(**m.kwargs())


# ---------------------------------------------------------------------------------------------------------------
# the style space


def attribute_rows() -> List[tuple]:
    """orthogonal array OA(27, 13, 3, 2): rows x in GF(3)^3, columns the 13 projective points p, entry <x,p> mod 3.
    Every pair of attributes takes all 9 value pairs.  0 -> None, 1 -> True, 2 -> False."""
    points = []
    for p in itertools.product(range(3), repeat=3):
        if p == (0, 0, 0):
            continue
        first = next(v for v in p if v)
        if first == 1:
            points.append(p)
    assert len(points) == 13
    val = {0: None, 1: True, 2: False}
    rows = []
    for x in itertools.product(range(3), repeat=3):
        rows.append(tuple(val[sum(a * b for a, b in zip(x, p)) % 3] for p in points))
    return rows


def lattice(n: int) -> List[int]:
    return sorted(set(round(i * 255 / (n - 1)) for i in range(n)))


def hex_case_variants(h: str) -> List[str]:
    """the other spellings of the hex digits of a lower-case "#rrggbb": upper case and the two alternating mixed cases
    (only those that differ from h, i.e. none if h has no digit a-f)"""
    digits = h[1:]
    cands = [
        digits.upper(),
        "".join(ch.upper() if k % 2 == 0 else ch for k, ch in enumerate(digits)),
        "".join(ch.upper() if k % 2 == 1 else ch for k, ch in enumerate(digits)),
    ]
    out: List[str] = []
    for cand in cands:
        v = "#" + cand
        if v != h and v not in out:
            out.append(v)
    return out


def colour_spellings(tier: str) -> List[Optional[str]]:
    quick = tier == "quick"
    out: List[Optional[str]] = [None, "default"] + STANDARD_NAMES
    out += ["color(%d)" % n for n in range(256)]
    lat = lattice(6 if quick else 17)
    for r in lat:
        for g in lat:
            for b in lat:
                out.append("#%02x%02x%02x" % (r, g, b))
                out.append("rgb(%d,%d,%d)" % (r, g, b))
    # hex digits in upper / mixed case ("three pairs of hex characters"): every variant on a coarser lattice
    lat = lattice(6 if quick else 9)
    for r in lat:
        for g in lat:
            for b in lat:
                out.extend(hex_case_variants("#%02x%02x%02x" % (r, g, b)))
    return out


SMALL_COLOURS = [None, "default", "red", "bright_blue", "white", "color(0)", "color(9)", "color(200)", "#000000", "#ff8000", "rgb(0,0,0)", "rgb(255,128,1)", "#FF8000", "#c0FfEe"]


def style_space(tier: str, seed: int) -> List[M]:
    rows = attribute_rows()
    cols = colour_spellings(tier)
    rng = random.Random(seed)
    out: List[M] = []
    n = len(cols)
    # every colour spelling as foreground and as background, attribute rows and links cycling
    for i, c in enumerate(cols):
        out.append(M(rows[i % 27], c, cols[(i * 7 + 3) % n], LINKS[i % len(LINKS)]))
        out.append(M(rows[(i + 13) % 27], cols[(i * 11 + 5) % n], c, LINKS[(i + 1) % len(LINKS)]))
    # all pairs of a small colour set x every attribute row x links
    for ri, row in enumerate(rows):
        for ci, c in enumerate(SMALL_COLOURS):
            for bi, b in enumerate(SMALL_COLOURS):
                out.append(M(row, c, b, LINKS[(ri + ci + bi) % len(LINKS)]))
    # single attributes, all three values, and all-None
    for i in range(13):
        for v in (True, False):
            row = [None] * 13
            row[i] = v
            out.append(M(row))
    out.append(M())
    # colour-only styles (the domain of Style.from_color) and colour-free styles (the range of without_color)
    for i, c in enumerate(cols):
        out.append(M(None, c, None, None))
        out.append(M(None, None, c, None))
    for c in SMALL_COLOURS:
        for b in SMALL_COLOURS:
            out.append(M(None, c, b, None))
    for row in rows:
        for link in LINKS:
            out.append(M(row, None, None, link))
    # random
    for _ in range(2000 if tier == "quick" else 40000):
        row = [rng.choice((None, None, True, False)) for _ in range(13)]
        out.append(M(row, rng.choice(cols), rng.choice(cols), rng.choice(LINKS)))
    return out


def algebra_pool(tier: str, seed: int) -> List[M]:
    rows = attribute_rows()
    rng = random.Random(seed + 17)
    pool = [M(), M(color="default"), M(bgcolor="default"), M(link="foo"), M(link="bar"), M(color="red"), M(color="color(1)"), M(bgcolor="#010203"),
            M(color="#FF8000"), M(bgcolor="#c0FfEe")]
    for i in (0, 1, 2, 5, 9, 13, 14, 22, 26):
        pool.append(M(rows[i]))
    for i in (3, 4, 7, 11, 17, 20, 25):
        pool.append(M(rows[i], SMALL_COLOURS[i % 12], SMALL_COLOURS[(i * 5 + 1) % 12], LINKS[i % len(LINKS)]))
    for i in range(13):
        row = [None] * 13
        row[i] = (i % 2 == 0)
        pool.append(M(row))
    target = 44 if tier == "quick" else 150
    while len(pool) < target:
        row = [rng.choice((None, None, True, False)) for _ in range(13)]
        pool.append(M(row, rng.choice(SMALL_COLOURS), rng.choice(SMALL_COLOURS), rng.choice(LINKS)))
    return pool


# ---------------------------------------------------------------------------------------------------------------
# result plumbing


def _new():
    return {"evaluations": 0, "nontrivial": set(), "clauses": {}, "failures": {}, "samples": []}


def _count(res, clause, n=1):
    res["clauses"][clause] = res["clauses"].get(clause, 0) + n


def _fail(res, clause, what, input_key, inp, expected, observed, size=0):
    lst = res["failures"].setdefault(clause, [])
    lst.append({"check": clause, "what": what, "input_key": input_key, "input": inp, "expected": expected, "observed": observed, "_size": size})
    lst.sort(key=lambda f: (f["_size"], f["input_key"]))
    del lst[MAX_PER_CLAUSE:]


def _size(m: M) -> int:
    return len(m.kwargs())


def _safe(fn):
    try:
        return ("ok", fn())
    except Exception as e:  # noqa
        return ("raised", "%s: %s" % (type(e).__name__, e))


# ---------------------------------------------------------------------------------------------------------------
# (i) round trip and routes / hashes for one model style


def split_model(m: M, mask: int) -> Tuple[M, M]:
    """two models whose model_add is m: fields selected by mask go right, the others left; an attribute
    that goes right is also given the opposite value on the left so that right-bias matters"""
    la, ra = [], []
    for i, v in enumerate(m.attrs):
        if v is None:
            la.append(None)
            ra.append(None)
        elif mask >> i & 1:
            la.append((not v) if (mask >> (i + 3)) & 1 else None)
            ra.append(v)
        else:
            la.append(v)
            ra.append(None)
    lc, rc = (None, m.color) if mask >> 13 & 1 else (m.color, None)
    if rc is not None and mask >> 16 & 1:
        lc = "color(77)"
    lb, rb = (None, m.bgcolor) if mask >> 14 & 1 else (m.bgcolor, None)
    ll, rl = (None, m.link) if mask >> 15 & 1 else (m.link, None)
    if rl is not None and mask >> 17 & 1:
        ll = "other"
    return M(la, lc, lb, ll), M(ra, rc, rb, rl)


def check_style(m: M, res, rng: random.Random):
    from rich.style import Style

    res["evaluations"] += 1
    kw = m.kwargs()
    key = repr(sorted(kw.items()))
    if kw:
        res["nontrivial"].add(m.key())
    size = _size(m)
    s = build(m)
    want = model_observation(m)
    _count(res, "c06.construct")
    if observe(s) != want:
        _fail(res, "c06.construct", "keyword-built style does not observe like its arguments", key, kw, repr(want), repr(observe(s)), size)
        return
    text = str(s)
    for clause, make in (("c06.roundtrip:str", lambda: Style.parse(text)), ("c06.roundtrip:normalize", lambda: Style.parse(Style.normalize(text)))):
        _count(res, clause)
        r = _safe(make)
        if r[0] != "ok" or not (r[1] == s) or observe(r[1]) != want:
            _fail(res, clause, "parsing the string form does not give back an equal style", key, {"style": kw, "str": text}, repr(want), repr(observe(r[1])) if r[0] == "ok" else r[1], size)

    # construction routes -----------------------------------------------------------------------------------
    mask = rng.getrandbits(18)
    left, right = split_model(m, mask)
    routes = {
        "parse": lambda: Style.parse(text),
        "normalize": lambda: Style.parse(Style.normalize(text)),
        "copy": lambda: s.copy(),
        "add": lambda: build(left) + build(right),
        "combine": lambda: Style.combine([build(left), build(right)]),
        "chain": lambda: Style.chain(Style.null(), build(left), build(right), Style()),
        "add_null": lambda: (Style.null() + build(m)) + Style(),
        # a sequence that repeats a style: the second occurrence of `right` re-asserts whatever `left` overrode
        "combine_repeat": lambda: Style.combine([build(right), build(left), build(right)]),
        "chain_repeat": lambda: Style.chain(build(right), build(left), build(right)),
    }
    nolink = M(m.attrs, m.color, m.bgcolor, None if mask & 1 else "http://old")
    def _update_link():
        base = build(nolink)
        str(base)  # the string form of the original is computed (and cached) first, as any logging / theme code does
        return base.update_link(m.link)

    routes["update_link"] = _update_link
    if m.color is None and m.bgcolor is None:
        coloured = M(m.attrs, "red" if mask & 2 else None, "rgb(1,2,3)" if mask & 4 or not mask & 2 else None, m.link)
        routes["without_color"] = lambda: build(coloured).without_color
    if all(v is None for v in m.attrs) and m.link is None:
        from rich.color import Color

        routes["from_color"] = lambda: Style.from_color(None if m.color is None else Color.parse(m.color), None if m.bgcolor is None else Color.parse(m.bgcolor))
    if m.color is not None or m.bgcolor is not None:
        # the same colours as Color objects made by the documented factories instead of spellings
        routes["color_objects"] = lambda: Style(color=_color_object(m.color), bgcolor=_color_object(m.bgcolor), link=m.link,
                                                **{a: v for a, v in zip(ATTRS, m.attrs) if v is not None})
    if not kw:
        routes["null"] = lambda: Style.null()
        routes["parse_none"] = lambda: Style.parse("none")
        routes["parse_empty"] = lambda: Style.parse("")
    for name, make in routes.items():
        eq_clause = "c06.route_eq:" + name
        _count(res, eq_clause)
        r = _safe(make)
        detail = {"style": kw, "route": name}
        if name in ("add", "combine", "chain", "combine_repeat", "chain_repeat"):
            detail["left"] = left.describe()
            detail["right"] = right.describe()
        if name == "update_link":
            detail["from"] = nolink.describe()
        if name == "without_color":
            detail["from"] = coloured.describe()
        if r[0] != "ok":
            _fail(res, eq_clause, "construction route raised", key, detail, text, r[1], size)
            continue
        x = r[1]
        if not (x == s) or not (s == x) or observe(x) != want:
            _fail(res, eq_clause, "style built by route %s differs from the keyword-built style" % name, key, detail, repr(want), repr(observe(x)), size)
            continue
        # every construction route must also round-trip through its own string form
        rt_clause = "c06.route_roundtrip:" + name
        _count(res, rt_clause)
        rr = _safe(lambda: Style.parse(str(x)))
        if rr[0] != "ok" or not (rr[1] == x):
            _fail(res, rt_clause, "Style.parse(str(x)) != x for a style built by route %s" % name, key, detail, repr(observe(x)), repr(rr[1] if rr[0] != "ok" else observe(rr[1])), size)
            continue
        h_clause = "c06.hash_eq:" + name
        _count(res, h_clause)
        found = {s: 1}.get(x)
        if hash(x) != hash(s) or found != 1:
            _fail(res, h_clause, "equal styles with different hashes (route %s vs keywords)" % name, key, detail, {"equal": True, "same_hash": True, "found_as_dict_key": True}, {"equal": True, "same_hash": hash(x) == hash(s), "found_as_dict_key": found == 1}, size)


# ---------------------------------------------------------------------------------------------------------------
# spellings


def check_spellings(res):
    from rich.color import ANSI_COLOR_NAMES, Color, ColorParseError
    from rich.errors import StyleSyntaxError
    from rich.style import Style

    def expect(clause, definition, m: M):
        res["evaluations"] += 1
        res["nontrivial"].add(("spelling", definition))
        _count(res, clause)
        r = _safe(lambda: Style.parse(definition))
        want = model_observation(m)
        if r[0] != "ok" or observe(r[1]) != want:
            _fail(res, clause, "documented spelling does not parse to the style it names", repr(definition), definition, repr(want), repr(observe(r[1])) if r[0] == "ok" else r[1], len(definition))

    for word, attr in ATTRIBUTE_WORDS.items():
        i = ATTRS.index(attr)
        for value, definition in ((True, word), (False, "not " + word), (True, "  " + word + " "), (False, " not   " + word)):
            row = [None] * 13
            row[i] = value
            expect("c06.spelling:attribute", definition, M(row))
    # attribute words in combination: every ordered pair of canonical words
    for a, b in itertools.permutations(ATTRS, 2):
        row = [None] * 13
        row[ATTRS.index(a)] = True
        row[ATTRS.index(b)] = False
        expect("c06.spelling:attribute", "%s not %s" % (a, b), M(row))
    names = list(ANSI_COLOR_NAMES) + ["default"]
    for name in names:
        expect("c06.spelling:color", name, M(color=name))
        expect("c06.spelling:color", "on " + name, M(bgcolor=name))
    for n in range(256):
        expect("c06.spelling:color", "color(%d)" % n, M(color="color(%d)" % n))
        expect("c06.spelling:color", "on color(%d)" % n, M(bgcolor="color(%d)" % n))
    lat = lattice(6)
    for r in lat:
        for g in lat:
            for b in lat:
                h = "#%02x%02x%02x" % (r, g, b)
                t = "rgb(%d,%d,%d)" % (r, g, b)
                expect("c06.spelling:color", h, M(color=h))
                expect("c06.spelling:color", "on " + t, M(bgcolor=t))
                expect("c06.spelling:color", t + " on " + h, M(color=t, bgcolor=h))
    # the hex digits of "#rrggbb" in upper / mixed case name the same colour, hence the same style, wherever the
    # spelling is given: as a word of a definition, after "on", or as the color= / bgcolor= keyword
    def same_style(tag, definition, canonical, make, make_canonical, m: M):
        res["evaluations"] += 1
        res["nontrivial"].add(("hex_case", tag, definition))
        _count(res, "c06.spelling:hex_case")
        r = _safe(lambda: (make(), make_canonical()))
        want = model_observation(m)
        inp = {"form": tag, "spelling": definition, "lower_case_spelling": canonical}
        ikey = "%s %r" % (tag, definition)
        if r[0] != "ok":
            _fail(res, "c06.spelling:hex_case", "a documented hex spelling is rejected", ikey, inp, repr(want), r[1], len(definition))
            return
        x, y = r[1]
        ok_obs = observe(x) == want and observe(y) == want
        ok_eq = x == y and y == x
        if not ok_obs or not ok_eq:
            _fail(res, "c06.spelling:hex_case", "upper/mixed-case hex spelling does not give the style the lower-case spelling gives", ikey, inp,
                  {"observes": repr(want), "equal_to_lower_case": True}, {"observes": repr(observe(x)), "equal_to_lower_case": ok_eq, "str": str(x), "str_lower_case": str(y)}, len(definition))
            return
        found = {y: 1}.get(x)
        if hash(x) != hash(y) or found != 1:
            _fail(res, "c06.spelling:hex_case", "equal styles (hex spellings of one colour) with different hashes", ikey, inp,
                  {"same_hash": True, "found_as_dict_key": True}, {"same_hash": hash(x) == hash(y), "found_as_dict_key": found == 1}, len(definition))
            return
        rr = _safe(lambda: Style.parse(str(x)))
        if rr[0] != "ok" or not (rr[1] == x):
            _fail(res, "c06.spelling:hex_case", "Style.parse(str(x)) != x for a style given by an upper/mixed-case hex spelling", ikey, inp,
                  str(x), rr[1] if rr[0] != "ok" else str(rr[1]), len(definition))

    for r in lat:
        for g in lat:
            for b in lat:
                h = "#%02x%02x%02x" % (r, g, b)
                other = "#%02x%02x%02x" % (b, r, g)
                for v in hex_case_variants(h):
                    same_style("word", v, h, lambda: Style.parse(v), lambda: Style.parse(h), M(color=h))
                    same_style("word", "on " + v, "on " + h, lambda: Style.parse("on " + v), lambda: Style.parse("on " + h), M(bgcolor=h))
                    d, dl = "bold %s on %s" % (other, v), "bold %s on %s" % (other, h)
                    same_style("word", d, dl, lambda: Style.parse(d), lambda: Style.parse(dl), M([True] + [None] * 12, color=other, bgcolor=h))
                    d2, dl2 = "%s on %s" % (v, v), "%s on %s" % (h, h)
                    same_style("word", d2, dl2, lambda: Style.parse(d2), lambda: Style.parse(dl2), M(color=h, bgcolor=h))
                    same_style("color=", v, h, lambda: Style(color=v), lambda: Style(color=h), M(color=h))
                    same_style("bgcolor=", v, h, lambda: Style(bgcolor=v), lambda: Style(bgcolor=h), M(bgcolor=h))
                    same_style("color=Color.parse", v, h, lambda: Style(color=Color.parse(v)), lambda: Style(color=Color.parse(h)), M(color=h))
                    same_style("keyword vs word", v, h, lambda: Style(color=v, bgcolor=v), lambda: Style.parse(dl2), M(color=h, bgcolor=h))
    for url in [l for l in LINKS if l] + ["HTTP://UPPER/Case", "a=b", "[x]"]:  # URLs keep their case
        expect("c06.spelling:link", "link " + url, M(link=url))
        expect("c06.spelling:link", "bold link " + url + " red", M([True] + [None] * 12, color="red", link=url))
    expect("c06.spelling:color", "none", M())
    # out of range
    bad = ["color(%d)" % n for n in (256, 257, 300, 511, 999)] + ["rgb(256,0,0)", "rgb(0,256,0)", "rgb(0,0,999)", "rgb(300,300,300)"]
    for definition in bad:
        for d in (definition, "on " + definition):
            res["evaluations"] += 1
            _count(res, "c06.spelling:out_of_range")
            try:
                got = Style.parse(d)
            except StyleSyntaxError:
                continue
            except Exception as e:
                _fail(res, "c06.spelling:out_of_range", "wrong exception type", repr(d), d, "StyleSyntaxError", "%s: %s" % (type(e).__name__, e), len(d))
                continue
            _fail(res, "c06.spelling:out_of_range", "a colour outside the documented range 0..255 is accepted", repr(d), d, "StyleSyntaxError", repr(observe(got)), len(d))
        res["evaluations"] += 1
        _count(res, "c06.spelling:out_of_range")
        try:
            got = Color.parse(definition)
        except ColorParseError:
            continue
        except Exception as e:
            _fail(res, "c06.spelling:out_of_range", "wrong exception type", "Color.parse " + repr(definition), definition, "ColorParseError", "%s: %s" % (type(e).__name__, e), len(definition))
            continue
        _fail(res, "c06.spelling:out_of_range", "Color.parse accepts a colour outside the documented range 0..255", "Color.parse " + repr(definition), definition, "ColorParseError", repr(observe_color(got)), len(definition))


# ---------------------------------------------------------------------------------------------------------------
# (ii) algebra


def _check_fold(res, seq_models: List[M], seq_styles: list, fold_model: M, folded):
    """Style.combine / Style.chain over the sequence against the model's fold (and against `folded`, the same
    sequence folded with + by the caller, if given)"""
    from rich.style import Style

    want = model_observation(fold_model)
    expected_style = build(fold_model)
    forms = (
        ("Style.combine(list)", lambda: Style.combine(list(seq_styles))),
        ("Style.combine(tuple)", lambda: Style.combine(tuple(seq_styles))),
        ("Style.combine(iterator)", lambda: Style.combine(iter(seq_styles))),
        ("Style.chain", lambda: Style.chain(*seq_styles)),
    )
    for label, make in forms:
        res["evaluations"] += 1
        _count(res, "c06.combine:fold")
        r = _safe(make)
        ok = r[0] == "ok" and observe(r[1]) == want and r[1] == expected_style and expected_style == r[1] and (folded is None or r[1] == folded)
        ok_hash = ok and hash(r[1]) == hash(expected_style) and {expected_style: 1}.get(r[1]) == 1
        if ok and ok_hash:
            continue
        _fail(
            res, "c06.combine:fold",
            ("%s of a sequence is not the fold of + (right-most style that specifies a field wins)" % label) if not ok else ("%s gives a style equal to the fold of + but with a different hash" % label),
            repr((label, [sorted(m.kwargs().items()) for m in seq_models])), {"form": label, "sequence": [m.describe() for m in seq_models]},
            repr(want), (repr(observe(r[1])) if not ok else "equal, hash differs") if r[0] == "ok" else r[1], sum(_size(m) for m in seq_models) + len(seq_models),
        )


def check_algebra(pool: List[M], lo: int, hi: int, res):
    """triples (a, b, c) with a = pool[i] for i in lo..hi"""
    from rich.style import Style

    built = [build(m) for m in pool]
    n = len(pool)
    for i in range(lo, hi):
        a, sa = pool[i], built[i]
        # identity
        res["evaluations"] += 1
        _count(res, "c06.add:identity")
        for label, got in (("null+a", lambda: Style.null() + sa), ("a+null", lambda: sa + Style.null()), ("Style()+a", lambda: Style() + sa), ("a+Style()", lambda: sa + Style()), ("a+None", lambda: sa + None)):
            r = _safe(got)
            if r[0] != "ok" or not (r[1] == sa) or observe(r[1]) != model_observation(a):
                _fail(res, "c06.add:identity", "the null style is not an identity (%s)" % label, repr(sorted(a.kwargs().items())), {"a": a.describe(), "form": label}, repr(model_observation(a)), repr(observe(r[1])) if r[0] == "ok" else r[1], _size(a))
        for j in range(n):
            b, sb = pool[j], built[j]
            res["evaluations"] += 1
            _count(res, "c06.add:right_bias")
            ab_model = model_add(a, b)
            r = _safe(lambda: sa + sb)
            want = model_observation(ab_model)
            if r[0] != "ok" or observe(r[1]) != want or not (r[1] == build(ab_model)):
                _fail(
                    res, "c06.add:right_bias", "a + b is not 'right operand wins exactly where it specifies a value'",
                    repr((sorted(a.kwargs().items()), sorted(b.kwargs().items()))), {"a": a.describe(), "b": b.describe()}, repr(want),
                    repr(observe(r[1])) if r[0] == "ok" else r[1], _size(a) + _size(b),
                )
                continue
            sab = r[1]
            if a.kwargs() and b.kwargs():
                res["nontrivial"].add(("pair", i, j))
            # sequences over {a, b} that repeat a style, through the sequence-combining API
            for idx in ((0,), (0, 1), (0, 0, 1), (0, 1, 0), (0, 1, 1, 0), (1, 0, 1, 0)):
                seq_models = [(a, b)[t] for t in idx]
                seq_styles = [(sa, sb)[t] for t in idx]
                fold_model = seq_models[0]
                for mm in seq_models[1:]:
                    fold_model = model_add(fold_model, mm)
                _check_fold(res, seq_models, seq_styles, fold_model, None)
            for k in range(n):
                sc = built[k]
                res["evaluations"] += 1
                _count(res, "c06.add:associative")
                try:
                    left = sab + sc
                    right = sa + (sb + sc)
                    ok = left == right and observe(left) == observe(right)
                    obs = (repr(observe(left)), repr(observe(right)))
                except Exception as e:
                    ok = False
                    obs = ("%s: %s" % (type(e).__name__, e), "")
                if ok and (k == i or k == j or (i + j + k) % 4 == 0):
                    _check_fold(res, [a, b, pool[k]], [sa, sb, sc], model_add(ab_model, pool[k]), left)
                if not ok:
                    c = pool[k]
                    _fail(
                        res, "c06.add:associative", "(a + b) + c != a + (b + c)",
                        repr((sorted(a.kwargs().items()), sorted(b.kwargs().items()), sorted(c.kwargs().items()))),
                        {"a": a.describe(), "b": b.describe(), "c": c.describe()}, obs[1], obs[0], _size(a) + _size(b) + _size(c),
                    )


# ---------------------------------------------------------------------------------------------------------------


def _work(job):
    res = _new()
    kind = job[0]
    if kind == "styles":
        _, tier, seed, lo, hi = job
        space = style_space(tier, seed)
        rng = random.Random(seed * 7919 + lo)
        for m in space[lo:hi]:
            check_style(m, res, rng)
        if lo == 0:
            res["samples"] = [str(build(m)) for m in space[5:400:97]]
    elif kind == "spellings":
        check_spellings(res)
    elif kind == "algebra":
        _, tier, seed, lo, hi = job
        check_algebra(algebra_pool(tier, seed), lo, hi, res)
    if kind == "styles":
        res["nontrivial"] = set(("style", x) for x in res["nontrivial"])
    return res


def run(tier: str, seed: int) -> dict:
    t0 = time.time()
    space = style_space(tier, seed)
    pool = algebra_pool(tier, seed)
    jobs = [("spellings",)]
    chunk = 1500
    for lo in range(0, len(space), chunk):
        jobs.append(("styles", tier, seed, lo, min(len(space), lo + chunk)))
    for i in range(len(pool)):
        jobs.append(("algebra", tier, seed, i, i + 1))
    procs = max(1, min(16, os.cpu_count() or 1))
    if procs > 1:
        with multiprocessing.Pool(procs) as p:
            results = p.map(_work, jobs, chunksize=1)
    else:  # pragma: no cover
        results = [_work(j) for j in jobs]
    total = _new()
    for r in results:
        total["evaluations"] += r["evaluations"]
        total["nontrivial"] |= r["nontrivial"]
        for k, v in r["clauses"].items():
            total["clauses"][k] = total["clauses"].get(k, 0) + v
        for clause, lst in r["failures"].items():
            total["failures"].setdefault(clause, []).extend(lst)
        total["samples"].extend(r["samples"])
    failures = []
    for clause in sorted(total["failures"]):
        lst = sorted(total["failures"][clause], key=lambda f: (f["_size"], f["input_key"]))
        seen = set()
        for f in lst:
            if f["input_key"] in seen:
                continue
            seen.add(f["input_key"])
            f.pop("_size", None)
            failures.append(f)
            if len(seen) >= MAX_PER_CLAUSE:
                break
    cols = colour_spellings(tier)
    return {
        "evaluations": total["evaluations"],
        "distinct_nontrivial": len(total["nontrivial"]),
        "rule": "model styles = attribute row x colour spelling x bgcolor spelling x link; each is built by keywords, printed, re-parsed and "
        "rebuilt along every construction route; spellings are checked one by one; the algebra is checked over all pairs / triples of a "
        "pool. Distinct = distinct model style / spelling / ordered pair; non-trivial = not the null style (for pairs: both non-null).",
        "bound": "13 tri-state attributes as the 27-row orthogonal array OA(27,13,3,2) (all value pairs of every two attributes) plus single "
        "attributes plus random rows; %d colour spellings (unset, default, 16 standard names, color(0..255), #rrggbb and rgb(r,g,b) on a %d^3 "
        "lattice), each as foreground and as background, plus all pairs of %d representative spellings x 27 rows; links %r; %d model styles; "
        "algebra pool of %d styles (all %d pairs, all %d triples; Style.combine / Style.chain over 6 repeat patterns of every pair and over the triples with k in {i, j} or (i+j+k) %% 4 == 0); "
        "upper / mixed-case hex spellings on a %d^3 lattice in the style space and on the 6^3 lattice in the spelling check; spellings: %d attribute words, all %d ANSI_COLOR_NAMES"
        % (len(cols), 6 if tier == "quick" else 17, len(SMALL_COLOURS), LINKS, len(space), len(pool), len(pool) ** 2, len(pool) ** 3, 6 if tier == "quick" else 9, len(ATTRIBUTE_WORDS), _n_names()),
        "samples": total["samples"][:8],
        "clauses": dict(sorted(total["clauses"].items())),
        "failures": failures,
        "seconds": round(time.time() - t0, 2),
        "processes": procs,
    }


def _n_names() -> int:
    from rich.color import ANSI_COLOR_NAMES

    return len(ANSI_COLOR_NAMES)
