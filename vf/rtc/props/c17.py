"""C17 - Syntax and tracebacks show the source line for line under the right numbers.

rich.syntax needs Pygments, which only /venv/bin/python has.  `run()` (called under python3-vt) is a *driver*: it
spawns `/venv/bin/python -B <this file> --worker` with PYTHONPATH = <repo root>:<verif root>, sends {"tier", "seed"}
as JSON on stdin and reads the result dict as JSON from stdout.  Everything below `# ---- worker` runs in that child
(which itself fans out over a multiprocessing pool).

Oracle (written from the property statement; it never looks at rich's line arithmetic):

  c17.lines                 gutter removed, the rows are exactly code.split("\\n") with tabs expanded at tab_size, in order
                            (blank lines at the very end aside, trailing padding stripped).  A row that does not fit the
                            code width is, without word_wrap, a prefix of its line; with word_wrap its continuation rows
                            joined give the line back (spaces at the break points aside).
  c17.line_numbers          the k-th source line (1-based) carries the number start_line + k - 1; the gutter is
                            "<2 cols marker><number right aligned> " and has one width throughout a render
  c17.line_range            with line numbers shown, line_range=(a, b) shows exactly the source lines a..b (1-based,
                            inclusive) that exist - possibly none - and never raises
  c17.range_without_numbers without line numbers a line range either is ignored (all lines - first sentence of the
                            statement) or selects a..b; anything else is reported
  c17.highlight_chars       truecolor output with the SGR sequences removed == output without colour, for every theme
  c17.highlight_marker      the "❱" marker sits on exactly the rows whose displayed number is in highlight_lines
  c17.traceback_line        generated modules (leading blank lines, comments, long files, tabs, wide characters, no final
                            newline, several frames, two files, a "<string>" frame) raising at a chosen line, rendered
                            through Traceback.from_exception: every frame whose file is readable shows exactly one marked
                            row, numbered frame.lineno, whose text is linecache.getline(file, lineno)

Input families (every clause above is judged on each of them alike):
  * Syntax(code, lexer, ...) from a string, and Syntax.from_path(file, ...) from a file holding the same string under a
    name whose extension is / is not a Pygments lexer alias, or has no extension ("for every source string, lexer
    and option set": how the Syntax object was constructed is not a precondition) - input key `from_path=<ext>`;
  * traceback modules that also hold the characters which are legal inside a line of Python but which some line
    splitters (str.splitlines) take for line boundaries: form-feed "page break" lines, and VT / FS / GS / RS / NEL /
    U+2028 / U+2029 inside a string literal or a comment.  A line of a file ends at "\n" and nowhere else (that is how
    the interpreter numbers frame lines), so none of them moves the failing line - module parameters `page_breaks`,
    `sep_string`, `sep_comment`.

Stated preconditions: `dedent` is left off; source lines carry no trailing spaces (indistinguishable from padding);
tabs only lead a line (str.expandtabs counts characters, not cells); line_range is read as 1-based positions in the
source (the only reading under which start_line=1, the Traceback use, is consistent); with word_wrap the code width
is kept <= console width - 10 so that the console itself never crops a wrapped row.
"""
from __future__ import annotations

import json
import os
import sys
import time

REPO = os.environ.get("VF_REPO", "/repo")
VERIF = os.path.dirname(os.path.dirname(os.path.dirname(os.path.dirname(os.path.abspath(__file__)))))
VENV_PY = os.environ.get("VF_VENV_PYTHON", "/venv/bin/python")
MARK = "@@C17-RESULT@@"
MAX_PER_CLAUSE = 3
CLAUSES = ("c17.lines", "c17.line_numbers", "c17.line_range", "c17.range_without_numbers", "c17.highlight_chars",
           "c17.highlight_marker", "c17.traceback_line")


# ------------------------------------------------------------------------------------------------ driver
def run(tier: str = "quick", seed: int = 0) -> dict:
    import subprocess

    t0 = time.time()
    env = dict(os.environ)
    env["PYTHONPATH"] = REPO + os.pathsep + VERIF
    env["VF_REPO"] = REPO
    env["PYTHONDONTWRITEBYTECODE"] = "1"
    env.pop("PYTHONHOME", None)
    proc = subprocess.run([VENV_PY, "-B", os.path.abspath(__file__), "--worker"],
                          input=json.dumps({"tier": tier, "seed": seed}), capture_output=True, text=True, env=env,
                          timeout=3000)
    payload = None
    for line in proc.stdout.splitlines():
        if line.startswith(MARK):
            payload = line[len(MARK):]
    if payload is None:
        raise RuntimeError(f"c17 worker gave no result (exit {proc.returncode}): {proc.stderr[-1500:]}")
    out = json.loads(payload)
    out["seconds"] = round(time.time() - t0, 2)
    return out


# ------------------------------------------------------------------------------------------------ ---- worker
LEXERS = ("python", "json", "html", "text", "no_such_lexer")
THEMES = ("monokai", "ansi_dark", "ansi_light", "default", "vim")
WIDTHS = (30, 40, 60, 80, 120, 200)
START_LINES = (1, 1, 1, 2, 9, 98, 995)
TAB_SIZES = (4, 4, 8, 2)
KINDS = ("blank", "code", "tab", "wide", "long")
DEFAULTS = {"lexer": "python", "theme": "monokai", "line_numbers": False, "start_line": 1, "line_range": None,
            "highlight_lines": [], "word_wrap": False, "code_width": None, "indent_guides": False, "tab_size": 4, "width": 80,
            "from_path": None}
# Syntax.from_path: file name extensions - Pygments lexer aliases, a known extension that is no alias ("txt"), an
# unknown one, upper case, and none at all
FP_EXTS = ("py", "js", "json", "c", "html", "txt", "c17unknown", "PY", "")

_CODE = ["x{i} = {i}", "def f{i}(a, b):", "return {{'k{i}': [1, 2]}}", '<p class="c{i}">hi</p>', '{{"k{i}": [1, 2.5, null]}}',
         "# comment {i}", "    y{i} = x + 1", "print('q{i}')"]
_TAB = ["\tif x{i}:", "\t\treturn y{i}", "\tz{i} = 0"]
_WIDE = ["名前{i} = '日本語'  # 漢字", "print('🙂 {i}')", "ｗｉｄｅ{i} = 1"]
_LONG = ["value{i} = " + " + ".join("item_%d" % k for k in range(14)), "z{i}=" + "a+" * 70 + "a",
         "s{i} = '" + "日本 " * 30 + "'"]


def make_line(kind: str, i: int, variant: int) -> str:
    if kind == "blank":
        return ""
    pool = {"code": _CODE, "tab": _TAB, "wide": _WIDE, "long": _LONG}[kind]
    return pool[variant % len(pool)].format(i=i)


def make_source(kinds, variants, final_newline: bool) -> str:
    lines = [make_line(k, i + 1, v) for i, (k, v) in enumerate(zip(kinds, variants))]
    src = "\n".join(lines)
    if final_newline and lines:
        src += "\n"
    return src


def cells(s: str) -> int:
    from vf.rtc.specnative import cells as c

    return c(s)


def prefix_cells(s: str, limit: int) -> str:
    """longest prefix of s with at most `limit` cells"""
    from vf.rtc.specnative import width_of

    total = 0
    for k, ch in enumerate(s):
        total += width_of(ord(ch))
        if total > limit:
            return s[:k]
    return s


import re as _re

_SGR = _re.compile(r"\x1b\[[0-9;]*m")
_GUTTER_FIRST = _re.compile(r"^(❱ |  )( *)(\d+) ")
_GUTTER = _re.compile(r"^(❱ |  ) *(\d+) $")


_FP_DIR = None  # temporary directory of the running pool job (see _work)


def nospace(s: str) -> str:
    return s.replace(" ", "")


def render_case(case: dict, color_system):
    import io

    from rich.console import Console
    from rich.syntax import Syntax

    console = Console(width=case["width"], file=io.StringIO(), color_system=color_system, legacy_windows=False, _environ={})
    options = dict(
        theme=case["theme"], line_numbers=case["line_numbers"], start_line=case["start_line"],
        line_range=tuple(case["line_range"]) if case["line_range"] else None,
        highlight_lines=set(case["highlight_lines"]), word_wrap=case["word_wrap"], code_width=case["code_width"],
        indent_guides=case["indent_guides"], tab_size=case["tab_size"],
    )
    ext = case.get("from_path")
    if ext is None:
        syntax = Syntax(case["code"], case["lexer"], **options)
    else:
        # the same source string, handed over as a file: the lexer comes from the file name (case["lexer"] is unused)
        import contextlib
        import tempfile

        # inside a pool job the job's own temporary directory is used (removed when the job ends; the same path is
        # written again and again with different contents), otherwise one that lives for this call only
        with (contextlib.nullcontext(_FP_DIR) if _FP_DIR else tempfile.TemporaryDirectory(prefix="c17fp_")) as tmp:
            path = os.path.join(tmp, "source" + ("." + ext if ext else ""))
            with open(path, "w", encoding="utf-8", newline="\n") as fh:
                fh.write(case["code"])
            syntax = Syntax.from_path(path, **options)  # reads the file here
    console.print(syntax)
    return console.file.getvalue()


def split_rows(out: str):
    rows = out.split("\n")
    if rows and rows[-1] == "":
        rows.pop()
    return rows


def expected_selection(case: dict):
    """[(source line number 1-based, text)] that must be shown; (all_lines, selected_or_None)"""
    lines = [l.expandtabs(case["tab_size"]) for l in case["code"].split("\n")]
    full = [(i + 1, l) for i, l in enumerate(lines)]
    sel = None
    if case["line_range"]:
        a, b = case["line_range"]
        sel = [(i + 1, lines[i]) for i in range(max(a, 1) - 1, min(b, len(lines)))]
    return full, sel


def drop_trailing_blank(seq, text=lambda x: x):
    seq = list(seq)
    while seq and text(seq[-1]).strip() == "":
        seq.pop()
    return seq


def match_text(exp: str, rows, avail_lo: int, avail_hi: int, word_wrap: bool):
    """None if the rows show the expected line, else a reason"""
    exp = exp.rstrip()
    rows = [r.rstrip() for r in rows]
    if len(rows) == 1 and rows[0] == exp:
        return None
    w = cells(exp)
    if w <= avail_lo:
        return "line fits the code width but is not shown verbatim on one row"
    if not word_wrap:
        if len(rows) != 1:
            return "one line shown on several rows without word_wrap"
        r = rows[0]
        must = prefix_cells(exp, max(0, avail_lo - 1)).rstrip()
        if not (exp.startswith(r) and r.startswith(must)):
            return "cropped row is not a prefix of its line (or is cut too early)"
        return None
    if nospace("".join(rows)) != nospace(exp):
        return "wrapped rows do not join back to the line"
    if any(cells(r) > avail_hi for r in rows):
        return "wrapped row wider than the console"
    return None


def check_rows(case: dict, rows):
    """compare the plain rows of one render with the oracle -> list of (clause, what, expected, observed)"""
    fails = []
    full, sel = expected_selection(case)
    ln = case["line_numbers"]
    W = case["width"]
    guides = case["indent_guides"]
    norm = (lambda s: s.replace("│", " ")) if guides else (lambda s: s)
    ww = case["word_wrap"]
    counts = {}

    def count(c):
        counts[c] = counts.get(c, 0) + 1

    if ln:
        groups = []  # [number, marked, [texts]]
        wg = None
        for r_i, row in enumerate(rows):
            if wg is None:
                m = _GUTTER_FIRST.match(row)
                if not m:
                    count("c17.line_numbers")
                    fails.append(("c17.line_numbers", "first row has no line-number gutter", "'  <n> <code>'", row))
                    return fails, counts
                wg = m.end()
            g, rest = row[:wg], row[wg:]
            if g.strip() == "" and groups and ww:
                groups[-1][2].append(norm(rest))
                continue
            m = _GUTTER.match(g)
            if not m:
                count("c17.line_numbers")
                fails.append(("c17.line_numbers", f"row {r_i + 1}: gutter of width {wg} malformed", "'(❱ |  )<number right aligned> '", row[:wg + 8]))
                return fails, counts
            groups.append([int(m.group(2)), m.group(1) == "❱ ", [norm(rest)]])
        wg = wg or 0
        avail_hi = W - wg
        avail_lo = min(case["code_width"] if case["code_width"] is not None else W, W - wg - 1)
        want = sel if sel is not None else full
        clause_sel = "c17.line_range" if sel is not None else "c17.lines"
        want = drop_trailing_blank(want, lambda t: t[1])
        got = drop_trailing_blank(groups, lambda gp: "".join(gp[2]))
        count(clause_sel)
        if len(want) != len(got):
            fails.append((clause_sel, f"{len(got)} lines shown, {len(want)} expected (trailing blank lines aside)",
                          [f"{case['start_line'] + n - 1}: {t}"[:60] for n, t in want][:14],
                          [f"{n}: {''.join(t)}".rstrip()[:60] for n, _m, t in got][:14]))
        else:
            for (n, text), (num, _marked, texts) in zip(want, got):
                why = match_text(text, texts, avail_lo, avail_hi, ww)
                if why:
                    fails.append((clause_sel, f"source line {n}: {why}", text.rstrip()[:120], [t.rstrip()[:120] for t in texts]))
                    break
        # numbers: judged on content-independent grounds - the k-th shown row of the selection is line n
        count("c17.line_numbers")
        if len(want) == len(got):
            for (n, _text), (num, _m, _t) in zip(want, got):
                if num != case["start_line"] + n - 1:
                    fails.append(("c17.line_numbers", f"source line {n} (start_line={case['start_line']}) carries the wrong number",
                                  case["start_line"] + n - 1, num))
                    break
        elif got and want:
            # different count: still say whether the first shown row is numbered like the line whose text it shows
            first_txt = "".join(got[0][2]).rstrip()
            cands = [n for n, t in full if t.rstrip() == first_txt and t.strip()]
            if len(cands) == 1 and got[0][0] != case["start_line"] + cands[0] - 1:
                fails.append(("c17.line_numbers", f"the row showing source line {cands[0]} (start_line={case['start_line']}) carries the wrong number",
                              case["start_line"] + cands[0] - 1, got[0][0]))
        # marker
        count("c17.highlight_marker")
        hl = set(case["highlight_lines"])
        for num, marked, _t in groups:
            if marked != (num in hl):
                fails.append(("c17.highlight_marker", f"row numbered {num}: marker {'present' if marked else 'absent'}",
                              num in hl, marked))
                break
        return fails, counts
    # ---- no line numbers
    cw = case["code_width"]
    avail_hi = W
    # a line of at most avail_lo cells must be shown verbatim; rich uses console width - 1 here, one cell of slack is allowed
    avail_lo = min(cw, W) if cw is not None else W - 2
    rows_n = [norm(r) for r in rows]

    def consume(want):
        got_rows = drop_trailing_blank(rows_n)
        want = drop_trailing_blank(want, lambda t: t[1])
        j = 0
        for n, text in want:
            if j >= len(got_rows):
                return f"output ends before source line {n}", text.rstrip()[:120], None
            e = text.rstrip()
            if not ww or cells(e) <= avail_lo or e == "" or got_rows[j].rstrip() == e:
                take = [got_rows[j]]
                j += 1
            else:
                take = []
                need = len(nospace(e))
                have = 0
                while j < len(got_rows) and have < need:
                    take.append(got_rows[j])
                    have += len(nospace(got_rows[j]))
                    j += 1
            why = match_text(text, take, avail_lo, avail_hi, ww)
            if why:
                return f"source line {n}: {why}", text.rstrip()[:120], [t.rstrip()[:120] for t in take]
        if j != len(got_rows):
            return f"{len(got_rows) - j} extra rows after the last source line", None, [r.rstrip()[:80] for r in got_rows[j:j + 4]]
        return None

    if sel is None:
        count("c17.lines")
        bad = consume(full)
        if bad:
            fails.append(("c17.lines",) + bad)
    else:
        count("c17.range_without_numbers")
        bad_all = consume(full)
        if bad_all:
            bad_sel = consume(sel)
            if bad_sel:
                shown = [r.rstrip()[:40] for r in drop_trailing_blank(rows_n)][:14]
                a_, b_ = case["line_range"]
                what = "without line numbers the output is neither all the lines nor the lines of the range"
                if a_ > 1 and 1 <= b_ < len(full) and consume(full[:b_]) is None:
                    what += ": lines 1..end-of-range are shown (the start of the range is ignored, its end is not)"
                fails.append(("c17.range_without_numbers", what,
                              {"all": [t[:40] for _n, t in drop_trailing_blank(full, lambda t: t[1])][:14],
                               "or_range": [t[:40] for _n, t in drop_trailing_blank(sel, lambda t: t[1])][:14]}, shown))
    return fails, counts


def check_case(case: dict):
    """-> (fails [(clause, what, expected, observed)], clause counts)"""
    counts = {}
    try:
        plain = render_case(case, None)
    except BaseException as e:
        clause = "c17.line_range" if (case["line_range"] and case["line_numbers"]) else (
            "c17.range_without_numbers" if case["line_range"] else "c17.lines")
        return [(clause, "rendering raised", "the selected source lines", f"{type(e).__name__}: {e}")], {clause: 1}
    rows = split_rows(plain)
    fails, counts = check_rows(case, rows)
    counts["c17.highlight_chars"] = counts.get("c17.highlight_chars", 0) + 1
    try:
        coloured = render_case(case, "truecolor")
        stripped = _SGR.sub("", coloured)
        if "\x1b" in stripped:
            fails.append(("c17.highlight_chars", "escape sequences other than SGR in the output", "only SGR", stripped[:80]))
        elif stripped != plain:
            a, b = split_rows(plain), split_rows(stripped)
            k = next((i for i, (x, y) in enumerate(zip(a, b)) if x != y), min(len(a), len(b)))
            fails.append(("c17.highlight_chars", f"coloured output differs from the plain one at row {k + 1}",
                          a[k][:100] if k < len(a) else None, b[k][:100] if k < len(b) else None))
    except BaseException as e:
        fails.append(("c17.highlight_chars", "rendering with colour raised", "same characters as without colour", f"{type(e).__name__}: {e}"))
    return fails, counts


def case_key(case: dict) -> str:
    parts = [repr(case["code"])]
    for k in ("lexer", "theme", "line_numbers", "start_line", "line_range", "highlight_lines", "word_wrap", "code_width",
              "indent_guides", "tab_size", "width", "from_path"):
        if case.get(k) != DEFAULTS[k]:
            parts.append(f"{k}={case.get(k)}")
    return "|".join(parts)


def shrink_case(case: dict, clause: str, budget: int = 80):
    steps = [0]

    def fails(c):
        steps[0] += 1
        try:
            fs, _ = check_case(c)
        except Exception:
            return False
        return any(f[0] == clause for f in fs)

    case = dict(case)
    # options to their defaults
    for k in ("theme", "highlight_lines", "indent_guides", "word_wrap", "code_width", "tab_size", "width", "lexer", "start_line",
              "line_range", "line_numbers", "from_path"):
        if case.get(k) != DEFAULTS[k] and steps[0] < budget:
            c2 = dict(case)
            c2[k] = DEFAULTS[k]
            if fails(c2):
                case = c2
    # fewer lines
    improved = True
    while improved and steps[0] < budget:
        improved = False
        had_nl = case["code"].endswith("\n")
        lines = case["code"].split("\n")
        if had_nl:
            lines = lines[:-1]
        for i in range(len(lines)):
            cand = lines[:i] + lines[i + 1:]
            code = "\n".join(cand) + ("\n" if had_nl and cand else "")
            c2 = dict(case, code=code)
            if fails(c2):
                case = c2
                improved = True
                break
    # shorter lines
    lines = case["code"].split("\n")
    for i, l in enumerate(lines):
        if (len(l) > 5 or l == "") and steps[0] < budget:
            for repl in (f"v{i + 1} = {i + 1}",):
                cand = lines[:i] + [repl] + lines[i + 1:]
                c2 = dict(case, code="\n".join(cand))
                if fails(c2):
                    case = c2
                    lines = cand
                    break
    if case["line_range"] and steps[0] < budget:
        a, b = case["line_range"]
        n = case["code"].count("\n") + 1
        for cand in ((1, b), (a, n), (2, 2), (n + 1, n + 1), (n + 1, n + 2)):
            c2 = dict(case, line_range=list(cand))
            if cand[0] <= cand[1] and list(cand) != list(case["line_range"]) and fails(c2):
                case = c2
                break
    return case


def gen_case(rng, idx: int, systematic) -> dict:
    if systematic is not None:
        kinds, final_nl = systematic
        variants = [rng.randrange(8) for _ in kinds]
    else:
        n = rng.choice([0, 1, 2, 3, 4, 5, 6, 8, 10, 12])
        lead = rng.choice([0, 0, 1, 2, 3]) if n else 0
        trail = rng.choice([0, 0, 1, 2]) if n else 0
        kinds = []
        for i in range(n):
            r = rng.random()
            kinds.append("blank" if r < 0.2 else "code" if r < 0.55 else "tab" if r < 0.7 else "wide" if r < 0.85 else "long")
        kinds = (["blank"] * lead + kinds + ["blank"] * trail)[:12]
        variants = [rng.randrange(8) for _ in kinds]
        final_nl = rng.random() < 0.7
    code = make_source(kinds, variants, final_nl)
    nlines = len(code.split("\n"))
    W = rng.choice(WIDTHS)
    ln = rng.random() < 0.6
    ww = rng.random() < 0.35
    cw = rng.choice([None, None, 20, 40, 100])
    if ww and cw is not None and cw > W - 10:
        cw = max(10, W - 10)
    start_line = rng.choice(START_LINES)
    lr = None
    if rng.random() < 0.5:
        n = max(1, nlines)
        kind = rng.choice(["inside", "inside", "single", "straddle_start", "straddle_end", "beyond", "whole_plus", "touch_end"])
        if kind == "inside":
            a = rng.randint(1, n)
            b = rng.randint(a, n)
        elif kind == "single":
            a = b = rng.randint(1, n)
        elif kind == "straddle_start":
            a = rng.randint(-3, 0)
            b = rng.randint(1, n)
        elif kind == "straddle_end":
            a = rng.randint(1, n)
            b = n + rng.randint(1, 5)
        elif kind == "beyond":
            a = n + rng.randint(1, 4)
            b = a + rng.randint(0, 4)
        elif kind == "touch_end":
            a = n
            b = n + 1
        else:
            a, b = rng.randint(-2, 1), n + rng.randint(0, 5)
        lr = [a, b]
    hl = []
    if rng.random() < 0.4:
        base = start_line
        hl = sorted({base + rng.randint(-1, nlines + 1) for _ in range(rng.randint(1, 3))})
    return {
        "code": code, "lexer": rng.choice(LEXERS), "theme": rng.choice(THEMES), "line_numbers": ln, "start_line": start_line,
        "line_range": lr, "highlight_lines": hl, "word_wrap": ww, "code_width": cw, "indent_guides": rng.random() < 0.3,
        "tab_size": rng.choice(TAB_SIZES), "width": W,
    }


def systematic_shapes():
    import itertools

    shapes = [((), True), ((), False)]
    for n in (1, 2, 3):
        for kinds in itertools.product(KINDS, repeat=n):
            for nl in (True, False):
                shapes.append((kinds, nl))
    # leading / trailing / interior blank-line families
    for lead in range(0, 5):
        for trail in range(0, 3):
            for nl in (True, False):
                shapes.append((("blank",) * lead + ("code", "blank", "tab", "code") + ("blank",) * trail, nl))
    return shapes


# ------------------------------------------------------------------------------------------------ tracebacks
MODULE_DEFAULTS = {"lead_blank": 0, "lead_comments": 0, "blank_after_comments": 0, "filler": 0, "tab_indent": False,
                   "wide": False, "blank_before_raise": False, "long_line": False, "unreachable": 0, "gap": 1,
                   "via_string": False, "gap2": 1, "tail": 0, "final_newline": True, "extra_trailing_blank": 0,
                   "page_breaks": 0, "sep_string": "", "sep_comment": ""}
# characters that may stand inside a line of Python source (form feed is white space to the tokenizer, the others are
# ordinary characters of a string literal or a comment) but that str.splitlines() - not the interpreter, which numbers
# lines by "\n" - treats as line boundaries
SEPARATORS = ("\x0c", "\x0b", "\x1c", "\x1d", "\x1e", "\x85", "\u2028", "\u2029")


def random_separator_params(rs) -> dict:
    """drawn from a generator of their own, so that the other module parameters of a case are what they were"""
    if rs.random() >= 0.35:
        return {}

    def some():
        return "".join(rs.sample(SEPARATORS, rs.choice([1, 1, 2, 3])))
    return {"page_breaks": rs.choice([0, 1, 1, 2, 3]), "sep_string": some() if rs.random() < 0.5 else "",
            "sep_comment": some() if rs.random() < 0.5 else ""}


def random_module_params(rng, tier: str) -> dict:
    return {
        "lead_blank": rng.choice([0, 0, 1, 2, 5]), "lead_comments": rng.choice([0, 1, 3]),
        "blank_after_comments": rng.choice([0, 1]),
        "filler": rng.choice([0, 3, 40, 400, 1500 if tier == "thorough" else 250]),
        "tab_indent": rng.random() < 0.5, "wide": rng.random() < 0.4, "blank_before_raise": rng.random() < 0.5,
        "long_line": rng.random() < 0.3, "unreachable": rng.choice([0, 2]), "gap": rng.choice([0, 1, 2]),
        "via_string": rng.random() < 0.2, "gap2": rng.choice([0, 1, 3]), "tail": rng.choice([0, 2, 30]),
        "final_newline": rng.random() < 0.7, "extra_trailing_blank": rng.choice([0, 0, 2]),
    }


def systematic_module_params():
    """small shapes first, so that the shortest failing example is a small one"""
    out = []
    for lead in (0, 1, 2, 3):
        for final_newline in (True, False):
            out.append(dict(MODULE_DEFAULTS, lead_blank=lead, final_newline=final_newline))
    for lead in (0, 1):
        out.append(dict(MODULE_DEFAULTS, lead_blank=lead, lead_comments=2))
        out.append(dict(MODULE_DEFAULTS, lead_blank=lead, filler=30))
        out.append(dict(MODULE_DEFAULTS, lead_blank=lead, tab_indent=True, wide=True))
        out.append(dict(MODULE_DEFAULTS, lead_blank=lead, extra_trailing_blank=2, tail=2))
        out.append(dict(MODULE_DEFAULTS, lead_blank=lead, via_string=True))
    # form-feed page breaks and the other characters that only str.splitlines() takes for line ends
    out.append(dict(MODULE_DEFAULTS, page_breaks=1))
    out.append(dict(MODULE_DEFAULTS, page_breaks=2, lead_comments=1))
    out.append(dict(MODULE_DEFAULTS, page_breaks=3, lead_blank=1))
    out.append(dict(MODULE_DEFAULTS, sep_string="\u2028"))
    out.append(dict(MODULE_DEFAULTS, sep_comment="\u2029", lead_blank=2))
    out.append(dict(MODULE_DEFAULTS, sep_string="\x85\x1c", sep_comment="\x0b\x1d\x1e"))
    out.append(dict(MODULE_DEFAULTS, page_breaks=2, sep_string="".join(SEPARATORS), sep_comment="".join(SEPARATORS), filler=30,
                    final_newline=False))
    return out


def gen_module(params: dict, name: str, callee_name=None) -> str:
    """module source: inner() raises (or calls into the other file), middle() calls inner(), the last statement calls
    middle(); every line is distinct so that a wrong line is recognisable"""
    P = dict(MODULE_DEFAULTS, **params)
    lines = []
    if P["page_breaks"] >= 3:
        lines.append("\x0c")  # the file starts with a page break
    lines += [""] * P["lead_blank"]
    for i in range(P["lead_comments"]):
        lines.append(f"# leading comment {i} of {name}")
    lines += [""] * P["blank_after_comments"]
    for k in range(P["filler"]):
        lines.append(f"filler_{k} = {k}  # line {len(lines) + 1}")
    ind = "\t" if P["tab_indent"] else "    "
    wide = P["wide"]
    if P["sep_string"]:
        lines.append("SEPARATED = 'a" + "".join(c + "bcdefghi"[k % 8] for k, c in enumerate(P["sep_string"])) + "'  # one line")
    if P["page_breaks"] >= 1:
        lines.append("\x0c")  # a page break line (emacs / GNU style, as in many stdlib modules)
    lines.append("def inner(x):")
    lines.append(f"{ind}y = x + 1" + ("  # 日本語のコメント" if wide else ""))
    if P["sep_comment"]:
        lines.append(f"{ind}# one comment" + "".join(c + " still the same line" for c in P["sep_comment"]))
    if P["blank_before_raise"]:
        lines.append("")
    if P["long_line"]:
        lines.append(f"{ind}z = '" + "long " * 30 + "'")
    if callee_name:
        lines.append(f"{ind}return {callee_name}(y)  # leaves this file")
    else:
        lines.append(f"{ind}raise ValueError('boom %d' % y)" + ("  # 失敗" if wide else ""))
    for k in range(P["unreachable"]):
        lines.append(f"{ind}unreachable_{k} = {k}")
    lines += [""] * P["gap"]
    if P["page_breaks"] >= 2:
        lines.append("\x0c")
    lines.append("def middle(x):")
    lines.append(f"{ind}if x:")
    if P["via_string"]:
        lines.append(f"{ind}{ind}return eval('inner(x)')")
    else:
        lines.append(f"{ind}{ind}return inner(x)")
    lines.append(f"{ind}return None")
    lines += [""] * P["gap2"]
    for k in range(P["tail"]):
        lines.append(f"tail_{k} = {k}  # line {len(lines) + 1}")
    lines.append("RESULT = middle(1)")
    src = "\n".join(lines)
    if P["final_newline"]:
        src += "\n" + "\n" * P["extra_trailing_blank"]
    return src


def params_key(P: dict) -> str:
    return ",".join(f"{k}={ascii(v) if isinstance(v, str) else v}" for k, v in P.items() if v != MODULE_DEFAULTS[k]) or "plain"


_RUNNER = """import sys


def run(code_obj, ns):
    try:
        exec(code_obj, ns)
    except ValueError:
        return sys.exc_info()
    return None
"""


def traceback_case(seed: int, idx: int, tier: str):
    """-> (fails, counts, key, n_frames, replay input)"""
    import io
    import linecache
    import random
    import shutil
    import tempfile
    import traceback as pytb

    from rich.console import Console
    from rich.traceback import Traceback

    rng = random.Random(f"c17tb:{seed}:{idx}")
    # the same directory (hence the same file paths) is reused by every case of this worker process, with
    # different contents each time: a renderer that caches source by path shows stale lines
    tmp = os.path.join(tempfile.gettempdir(), "c17tb_%d" % os.getpid())
    os.makedirs(tmp, exist_ok=True)
    fails = []
    counts = {"c17.traceback_line": 0}
    key = f"tb#{idx}"
    try:
        sysp = systematic_module_params()
        if idx < len(sysp):
            two = False
            pa, pb = sysp[idx], None
            opts = {"width": 100, "extra_lines": 3, "word_wrap": False, "indent_guides": True, "theme": None}
        else:
            two = rng.random() < 0.35
            pb = random_module_params(rng, tier) if two else None
            pa = random_module_params(rng, tier)
            opts = {"width": rng.choice([100, 100, 120, None]), "extra_lines": rng.choice([3, 3, 0, 1, 6]),
                    "word_wrap": rng.random() < 0.25, "indent_guides": rng.random() < 0.7,
                    "theme": rng.choice([None, "monokai", "ansi_light"])}
            rs = random.Random(f"c17sep:{seed}:{idx}")
            pa = dict(pa, **random_separator_params(rs))
            if two:
                pb = dict(pb, **random_separator_params(rs))
        paths = [os.path.join(tmp, "mod_a.py")] + ([os.path.join(tmp, "mod_b.py")] if two else [])
        # one case in five: the code objects carry file names RELATIVE to the directory the process was in when rich
        # was imported (runpy.run_path("plugins/x.py"), exec(compile(src, "hooks.py", "exec")), relative sys.path
        # entries) and the process has changed directory by the time the traceback is rendered
        import rich as _rich

        relative = idx >= len(sysp) and random.Random(f"c17rel:{seed}:{idx}").random() < 0.2
        anchor = getattr(_rich, "_IMPORT_CWD", os.getcwd())

        def cname(path):
            return os.path.relpath(path, anchor) if relative else path
        runner_path = os.path.join(tmp, "runner.py")
        with open(runner_path, "w", encoding="utf-8") as fh:
            fh.write(_RUNNER)
        ns_r = {"__name__": "runner"}
        exec(compile(_RUNNER, runner_path, "exec"), ns_r)
        run_module = ns_r["run"]  # the try / except lives in a small generated file, so every frame is a generated one
        ns_b = {}
        src_b = None
        if two:
            src_b = gen_module(pb, "mod_b.py")
            with open(paths[1], "w", encoding="utf-8") as fh:
                fh.write(src_b)
            # module b is executed once (its own final call raises and is swallowed); a then calls b's functions
            ns_b = {"__name__": "mod_b"}
            run_module(compile(src_b, cname(paths[1]), "exec"), ns_b)
        src_a = gen_module(pa, "mod_a.py", callee_name="callee" if two else None)
        with open(paths[0], "w", encoding="utf-8") as fh:
            fh.write(src_a)
        ns_a = {"__name__": "mod_a"}
        if two:
            ns_a["callee"] = ns_b["middle"]
        exc_info = run_module(compile(src_a, cname(paths[0]), "exec"), ns_a)
        if exc_info is None:
            return [("c17.traceback_line", "generated module did not raise (generator bug)", None, None)], counts, key, 0, None
        def resolve(fn):
            return fn if (fn.startswith("<") or os.path.isabs(fn)) else os.path.normpath(os.path.join(anchor, fn))

        frames = [(resolve(f.f_code.co_filename), lineno, f.f_code.co_name) for f, lineno in pytb.walk_tb(exc_info[2])]
        okey = ",".join(f"{k}={v}" for k, v in opts.items() if v != {"width": 100, "extra_lines": 3, "word_wrap": False,
                                                                     "indent_guides": True, "theme": None}[k])
        key = f"tb[a:{params_key(pa)}" + (f";b:{params_key(pb)}" if two else "") + "]" + (f"|{okey}" if okey else "") + ("|relative-names+chdir" if relative else "")
        replay = {"traceback_case": idx, "seed": seed, "tier": tier, "module_a": pa, "module_b": pb, "traceback_options": opts,
                  "source_a": src_a if len(src_a) < 600 else src_a[:200] + f"... ({src_a.count(chr(10)) + 1} lines)",
                  "relative_file_names_then_chdir": relative}
        elsewhere = os.path.join(tmp, "elsewhere")
        os.makedirs(elsewhere, exist_ok=True)
        cwd0 = os.getcwd()
        W = 200
        outs = {}
        for cs in (None, "truecolor"):
            console = Console(width=W, file=io.StringIO(), color_system=cs, legacy_windows=False, _environ={})
            try:
                if relative:
                    os.chdir(elsewhere)
                try:
                    tb = Traceback.from_exception(*exc_info, **opts)
                    console.print(tb)
                finally:
                    os.chdir(cwd0)
                outs[cs] = _SGR.sub("", console.file.getvalue())
            except BaseException as e:
                counts["c17.traceback_line"] += 1
                fails.append(("c17.traceback_line", "rendering the traceback raised", "a rendered traceback", f"{type(e).__name__}: {e}"))
                return fails, counts, key, len(frames), replay
        out = outs[None]
        if outs["truecolor"] != out:
            fails.append(("c17.highlight_chars", "traceback: coloured output differs from the plain one", None, None))
        # strip the panel border
        body = []
        for row in out.split("\n"):
            r = row.rstrip()
            if r.startswith("│") and r.endswith("│") and len(r) >= 2:
                body.append(r[1:-1][1:] if r[1:2] == " " else r[1:-1])
        header = _re.compile(r"^(\S+):(\d+) in (\S+)\s*$")
        parsed = []  # [(file, lineno, name), [marked rows]]
        for r in body:
            m = header.match(r)
            if m and (m.group(1).startswith("/") or m.group(1).startswith("<")):
                parsed.append([(m.group(1), int(m.group(2)), m.group(3)), []])
                continue
            if parsed and r.startswith("❱"):
                parsed[-1][1].append(r)
        if relative:
            # the header may spell the path differently (not normalised); the frame is identified by line and name and
            # the file is the one the relative name denoted when the code was loaded
            if [p[0][1:] for p in parsed] == [f[1:] for f in frames]:
                parsed = [[fr, rows] for fr, (_h, rows) in zip(frames, parsed)]
        if [p[0] for p in parsed] != frames:
            fails.append(("c17.traceback_line", "frame headers of the rendered traceback differ from the Python traceback",
                          [f"{f}:{l} in {n}" for f, l, n in frames], [f"{f}:{l} in {n}" for (f, l, n), _ in parsed]))
            return fails, counts, key, len(frames), replay
        for (fname, lineno, name), marked in parsed:
            readable = (not fname.startswith("<")) and os.path.isfile(fname)
            if not readable:
                continue
            counts["c17.traceback_line"] += 1
            try:  # the oracle reads the file itself (no cache of any kind)
                with open(fname, "r", encoding="utf-8") as _fh:
                    _src_lines = _fh.read().split("\n")  # a line ends at "\n" and nowhere else
            except OSError:
                _src_lines = []
            want = (_src_lines[lineno - 1] if 0 < lineno <= len(_src_lines) else "").expandtabs(4).rstrip()
            where = f"{os.path.basename(fname)}:{lineno} in {name}"
            if len(marked) != 1:
                fails.append(("c17.traceback_line", f"{where}: {len(marked)} marked rows for a readable frame", f"❱ {lineno} {want}"[:140],
                              [m[:140] for m in marked]))
                continue
            m = _re.match(r"^❱ *(\d+) (.*)$", marked[0])
            if not m:
                fails.append(("c17.traceback_line", f"{where}: marked row malformed", f"❱ {lineno} {want}"[:140], marked[0][:140]))
                continue
            num, text = int(m.group(1)), m.group(2).replace("│", " ").rstrip()
            ok_text = text == want or (cells(want) > 86 and want.startswith(text) and text.startswith(prefix_cells(want, 86).rstrip())) \
                or (opts["word_wrap"] and cells(want) > 86 and nospace(want).startswith(nospace(text)) and len(text) > 40)
            if num != lineno or not ok_text:
                fails.append(("c17.traceback_line", f"{where}: the marked row is not line {lineno} of the file",
                              f"{lineno} {want}"[:140], f"{num} {text}"[:140]))
        return fails, counts, key, len(frames), replay
    finally:
        for _p in list(paths) + [runner_path]:
            try:
                os.remove(_p)
            except OSError:
                pass
        shutil.rmtree(tmp, ignore_errors=True)  # nothing is left behind in the temporary directory


# ------------------------------------------------------------------------------------------------ pool work
def _signature(f) -> str:
    what = _re.sub(r"\d+", "N", str(f[1]))[-110:]
    obs = f[3]
    m = _re.match(r"^(\w*(?:Error|Exception))\b", obs) if isinstance(obs, str) else None
    return what + ("|" + m.group(1) if m else "")


def _work(args):
    import shutil
    import tempfile

    global _FP_DIR
    _FP_DIR = tempfile.mkdtemp(prefix="c17fp_%d_" % os.getpid()) if args[2] == "fp" else None
    try:
        return _work_job(args)
    finally:
        if _FP_DIR:
            shutil.rmtree(_FP_DIR, ignore_errors=True)
        _FP_DIR = None


def _work_job(args):
    import hashlib
    import random

    tier, seed, kind, start, stop = args
    counts = {c: 0 for c in CLAUSES}
    raw = {c: [] for c in CLAUSES}
    evaluations = 0
    distinct = set()
    samples = []
    shapes = systematic_shapes() if kind in ("sys", "fp") else None
    per_shape = 6 if tier == "thorough" else 3
    for idx in range(start, stop):
        rng = random.Random(f"c17:{seed}:{kind}:{idx}")
        if kind == "tb":
            fails, cnt, key, nframes, replay = traceback_case(seed, idx, tier)
            evaluations += 1
            for k, v in cnt.items():
                counts[k] += v
            if nframes:
                distinct.add(int.from_bytes(hashlib.blake2b(key.encode(), digest_size=8).digest(), "big"))
            for f in fails:
                lst = raw[f[0]]
                sig = _signature(f)
                if sum(1 for x in lst if x[3] == sig) < 2 and len({x[3] for x in lst} | {sig}) <= 6:
                    m_ = _re.match(r"^(\S+:\d+ in \S+): ", str(f[1]))
                    lst.append((None, key + (" @ " + m_.group(1) if m_ else ""), f, sig, replay))
            if idx % 50 == 7 and len(samples) < 1:
                samples.append(key)
            continue
        if kind == "fp":
            # the from_path family: every systematic shape `fp_reps` times, then random sources; the extension cycles
            # (systematic part) or is drawn (random part) from FP_EXTS
            n_fp_sys = len(shapes) * (3 if tier == "thorough" else 1)
            case = gen_case(rng, idx, shapes[idx % len(shapes)] if idx < n_fp_sys else None)
            case["lexer"] = DEFAULTS["lexer"]
            case["from_path"] = FP_EXTS[(idx + idx // len(shapes)) % len(FP_EXTS)] if idx < n_fp_sys else rng.choice(FP_EXTS)
        else:
            case = gen_case(rng, idx, shapes[idx // per_shape] if kind == "sys" else None)
        evaluations += 1
        fails, cnt = check_case(case)
        for k, v in cnt.items():
            counts[k] += v
        if case["code"].strip():
            distinct.add(int.from_bytes(hashlib.blake2b(json.dumps(case, sort_keys=True).encode(), digest_size=8).digest(), "big"))
        for f in fails:
            lst = raw[f[0]]
            sig = _signature(f)
            if sum(1 for x in lst if x[3] == sig) < 2 and len({x[3] for x in lst} | {sig}) <= 6:
                lst.append((case, None, f, sig, None))
        if idx % 97 == 5 and len(samples) < 1 and case["code"].strip():
            samples.append(case_key(case)[:300])
    out = {c: [] for c in CLAUSES}
    for clause, lst in raw.items():
        for case, key, f, sig, inp in lst:
            if case is not None:
                try:
                    small = shrink_case(case, clause)
                    fs, _ = check_case(small)
                    f2 = [x for x in fs if x[0] == clause]
                    if f2:
                        case, f = small, f2[0]
                except Exception:
                    pass
                key, inp = case_key(case), case
            out[clause].append({"check": clause, "what": f[1], "input_key": key[:300], "input": inp,
                                "expected": f[2], "observed": f[3], "_sig": _signature(f)})
    return counts, out, evaluations, distinct, samples


def worker_main():
    import multiprocessing as mp

    req = json.loads(sys.stdin.read() or "{}")
    tier, seed = req.get("tier", "quick"), int(req.get("seed", 0))
    thorough = tier == "thorough"
    import pygments  # noqa: F401  (fail early and clearly if the interpreter is the wrong one)
    import rich

    n_shapes = len(systematic_shapes())
    per_shape = 6 if thorough else 3
    n_sys = n_shapes * per_shape
    n_rnd = 100_000 if thorough else 6_000
    n_tb = 2_000 if thorough else 160
    n_fp = n_shapes * (3 if thorough else 1) + (20_000 if thorough else 1_200)
    nproc = min(16, os.cpu_count() or 1)
    jobs = []

    def split(kind, n, parts):
        step = max(1, (n + parts - 1) // parts)
        for s in range(0, n, step):
            jobs.append((tier, seed, kind, s, min(n, s + step)))

    split("tb", n_tb, nproc * 2)
    split("rnd", n_rnd, nproc * 4)
    split("sys", n_sys, nproc * 2)
    split("fp", n_fp, nproc * 2)
    counts = {c: 0 for c in CLAUSES}
    fails = {c: [] for c in CLAUSES}
    evaluations = 0
    distinct = set()
    samples = []
    cells("x")
    try:  # Pygments loads every lexer module on its first look-up by file name: once here, not once per pool process
        from pygments.lexers import guess_lexer_for_filename

        guess_lexer_for_filename("source.c17unknown", "")
    except Exception:
        pass
    ctx = mp.get_context("fork")
    with ctx.Pool(nproc) as pool:
        for c, f, ev, dist, smp in pool.imap_unordered(_work, jobs, chunksize=1):
            for k, v in c.items():
                counts[k] += v
            for k, lst in f.items():
                fails[k].extend(lst)
            evaluations += ev
            distinct |= dist
            samples.extend(smp)
    failures = []
    for k in CLAUSES:
        groups = {}
        seen = set()
        for f in sorted(fails[k], key=lambda f: (len(f["input_key"]), f["input_key"])):
            if f["input_key"] in seen:
                continue
            seen.add(f["input_key"])
            groups.setdefault(f.pop("_sig"), []).append(f)
        order = sorted(groups.values(), key=lambda g: (len(g[0]["input_key"]), g[0]["input_key"]))
        picked = []
        rank = 0
        while len(picked) < MAX_PER_CLAUSE and any(rank < len(g) for g in order):
            for g in order:
                if rank < len(g) and len(picked) < MAX_PER_CLAUSE:
                    picked.append(g[rank])
            rank += 1
        failures.extend(picked)
    result = {
        "evaluations": evaluations,
        "distinct_nontrivial": len(distinct),
        "rule": "one case = (source, lexer or file-name extension for Syntax.from_path, theme, line_numbers, start_line, line_range, highlight_lines, word_wrap, code_width, "
                "indent_guides, tab_size, console width), each rendered without colour and in truecolor; or one generated "
                "module set raising at a chosen line rendered through Traceback; distinct by the full case; non-trivial = "
                "the source has a non-blank line / the traceback has frames",
        "bound": f"sources <= 12 lines over the line alphabet {list(KINDS)} (all sequences of length <= 3 x final newline, "
                 f"leading 0..4 / trailing 0..2 blank-line families, {n_rnd} random) x lexers {list(LEXERS)} x themes {list(THEMES)} "
                 f"x start_line {sorted(set(START_LINES))} x line_range (inside, single, straddling either end, beyond, whole+) "
                 f"x highlight_lines x word_wrap x code_width [None,20,40,100] x indent_guides x tab_size {sorted(set(TAB_SIZES))} "
                 f"x widths {list(WIDTHS)}; the same sources and options through Syntax.from_path with the extensions "
                 f"{list(FP_EXTS)} ({n_fp} cases: every systematic shape, then random); {n_tb} generated traceback cases (1-2 "
                 f"files, up to {1500 if thorough else 400} filler lines, 0..5 leading blank lines, tabs, wide characters, "
                 f"<string> frames, 0..3 form-feed page-break lines, the characters {[ascii(c)[1:-1] for c in SEPARATORS]} "
                 f"inside a string literal / a comment above the failing lines)",
        "samples": sorted(samples)[:5],
        "clauses": counts,
        "failures": failures,
        "interpreter": sys.executable,
        "rich": os.path.dirname(rich.__file__),
    }
    sys.stdout.write("\n" + MARK + json.dumps(result, default=str) + "\n")
    sys.stdout.flush()


if __name__ == "__main__":
    if "--worker" in sys.argv:
        worker_main()
    else:  # pragma: no cover
        print(json.dumps(run(sys.argv[1] if len(sys.argv) > 1 else "quick", 0), default=str, indent=1, ensure_ascii=False)[:8000])
