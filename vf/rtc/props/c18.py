"""C18 - colour down-conversion stays in gamut, is idempotent and picks the nearest entry.

Bounded runtime check (never counted as proved).  The oracle is written from the property statement:

  gamut       downgrade(c, s) is representable in s (standard / windows: a number 0..15 carrying the
              matching ColorType; eight-bit: a number 0..255; truecolor: anything well formed)
  idempotent  downgrade(downgrade(c, s), s) == downgrade(c, s)
  unchanged   a colour that is already representable in s is returned unchanged
  default     the default colour stays default
  nearest     -> 16-colour palette: the chosen entry has minimum distance under the weighted RGB
              ("red mean") metric.  The metric is re-implemented here from the formula
                  rm = (R1+R2)//2 ; d2 = ((512+rm)*dR^2 >> 8) + 4*dG^2 + ((767-rm)*dB^2 >> 8)
              (sqrt is monotone, so the integer radicands are compared; any minimiser is accepted)
  grey_ramp   r == g == b -> eight-bit lands on 232..255 or on 16 / 231
  sgr         get_ansi_codes gives the standard SGR parameters for the colour kind
              (30-37 / 90-97, 40-47 / 100-107, 38;5;n / 48;5;n, 38;2;r;g;b / 48;2;r;g;b, 39 / 49),
              for the input colour and for every conversion result

quick    : stratified grid (the three axes, the grey diagonal r=g=b for all 256 values, the other face /
           space diagonals, a 17^3 lattice) + 100k seeded random RGB
thorough : all 16,777,216 RGB colours on 16 processes (`exhaustive: true` in the result)
both     : all 256 indexed colours (as produced by Color.from_ansi and, for 0..15, also typed EIGHT_BIT), the 16
           standard ones, default  x  {STANDARD, EIGHT_BIT, TRUECOLOR, WINDOWS}  x  foreground / background
"""
from __future__ import annotations

import os
import random
import sys
import time
from typing import Dict, List, Tuple

REPO = os.environ.get("VF_REPO", "/repo")

MAX_PER_CLAUSE = 3
CLAUSES = ("c18.gamut", "c18.idempotent", "c18.unchanged", "c18.default", "c18.nearest", "c18.grey_ramp", "c18.sgr")


# --------------------------------------------------------------------------------------------- oracle
def dist2(c1: Tuple[int, int, int], c2: Tuple[int, int, int]) -> int:
    """radicand of the weighted ("red mean") RGB distance, integer form"""
    r1, g1, b1 = c1
    r2, g2, b2 = c2
    rm = (r1 + r2) // 2
    dr = r1 - r2
    dg = g1 - g2
    db = b1 - b2
    return (((512 + rm) * dr * dr) >> 8) + 4 * dg * dg + (((767 - rm) * db * db) >> 8)


def sgr_expected(kind: str, number, triplet, foreground: bool) -> Tuple[str, ...]:
    """ECMA-48 / xterm SGR parameters for a colour"""
    if kind == "default":
        return ("39",) if foreground else ("49",)
    if kind in ("standard", "windows"):
        if number < 8:
            return (str((30 if foreground else 40) + number),)
        return (str((90 if foreground else 100) + (number - 8)),)
    if kind == "eight_bit":
        return ("38" if foreground else "48", "5", str(number))
    r, g, b = triplet
    return ("38" if foreground else "48", "2", str(r), str(g), str(b))


_KIND = {0: "default", 1: "standard", 2: "eight_bit", 3: "truecolor", 4: "windows"}
_SYSNAME = {1: "STANDARD", 2: "EIGHT_BIT", 3: "TRUECOLOR", 4: "WINDOWS"}


def _well_formed(c) -> bool:
    k = int(c.type)
    if k == 0:
        return c.number is None
    if k in (1, 4):
        return isinstance(c.number, int) and 0 <= c.number <= 15
    if k == 2:
        return isinstance(c.number, int) and 0 <= c.number <= 255
    if k == 3:
        t = c.triplet
        return t is not None and len(t) == 3 and all(isinstance(v, int) and 0 <= v <= 255 for v in t)
    return False


def _representable(c, system: int) -> bool:
    """is colour c (assumed well formed) a colour of the target system?"""
    k = int(c.type)
    if k == 0:
        return True
    if system == 3:
        return k in (1, 2, 3)
    if system == 2:
        return k in (1, 2)
    if system == 1:
        return k == 1
    if system == 4:
        return k == 4
    return False


def _describe(c):
    try:
        return {"type": _KIND.get(int(c.type), str(c.type)), "number": c.number,
                "triplet": list(c.triplet) if c.triplet is not None else None}
    except Exception as e:  # pragma: no cover
        return repr(c) + f" ({e!r})"


# --------------------------------------------------------------------------------------------- one colour
class _Acc:
    def __init__(self):
        self.clauses: Dict[str, int] = {c: 0 for c in CLAUSES}
        self.failures: Dict[str, List[dict]] = {c: [] for c in CLAUSES}
        self.evaluations = 0
        self.nontrivial = 0

    def fail(self, clause, what, key, inp, expected, observed):
        lst = self.failures[clause]
        if len(lst) < MAX_PER_CLAUSE * 4:
            lst.append({"check": clause, "what": what, "input_key": key, "input": inp,
                        "expected": expected, "observed": observed})


def _check_colour(acc: _Acc, rich, c, key: str, inp: dict, src_triplet, tables) -> None:
    """all clauses for one input colour c.  src_triplet: the RGB value the colour stands for (None for default
    and for STANDARD-typed inputs, whose RGB value is terminal defined)"""
    Color, ColorSystem, ColorType = rich
    std, win = tables
    in_kind = int(c.type)
    changed_somewhere = False
    # SGR of the input itself
    for fg in (True, False):
        acc.clauses["c18.sgr"] += 1
        exp = sgr_expected(_KIND[in_kind], c.number, c.triplet, fg)
        try:
            obs = c.get_ansi_codes(foreground=fg)
        except Exception as e:
            obs = f"raised {e!r}"
        if obs != exp:
            acc.fail("c18.sgr", f"SGR parameters of a {_KIND[in_kind]} colour ({'foreground' if fg else 'background'})",
                     f"{key}|{'fg' if fg else 'bg'}", dict(inp, foreground=fg), list(exp), list(obs) if isinstance(obs, tuple) else obs)
    for system in (1, 2, 3, 4):
        acc.evaluations += 1
        sysname = _SYSNAME[system]
        skey = f"{key}->{sysname}"
        sinp = dict(inp, system=sysname)
        try:
            d = c.downgrade(ColorSystem(system))
        except Exception as e:
            acc.clauses["c18.gamut"] += 1
            acc.fail("c18.gamut", "downgrade raised", skey, sinp, "a colour of the target system", f"raised {e!r}")
            continue
        # default stays default
        if in_kind == 0:
            acc.clauses["c18.default"] += 1
            if not (int(d.type) == 0 and d.number is None and d.triplet is None):
                acc.fail("c18.default", "default colour did not stay default", skey, sinp, "default", _describe(d))
        # gamut
        acc.clauses["c18.gamut"] += 1
        ok_gamut = _well_formed(d) and _representable(d, system)
        if not ok_gamut:
            want = {1: "STANDARD colour, number 0..15", 2: "colour number 0..255 (STANDARD or EIGHT_BIT type)",
                    3: "any well formed colour", 4: "WINDOWS colour, number 0..15"}[system]
            acc.fail("c18.gamut", f"result not representable in {sysname}", skey, sinp, want, _describe(d))
        # unchanged when already representable
        if _representable(c, system):
            acc.clauses["c18.unchanged"] += 1
            if not (d == c and int(d.type) == in_kind and d.number == c.number and d.triplet == c.triplet):
                acc.fail("c18.unchanged", f"colour already representable in {sysname} was changed", skey, sinp,
                         _describe(c), _describe(d))
        else:
            changed_somewhere = True
        # idempotent
        acc.clauses["c18.idempotent"] += 1
        try:
            dd = d.downgrade(ColorSystem(system))
            if not (dd == d and int(dd.type) == int(d.type) and dd.number == d.number and dd.triplet == d.triplet):
                acc.fail("c18.idempotent", f"second downgrade to {sysname} changed the colour", skey, sinp, _describe(d), _describe(dd))
        except Exception as e:
            acc.fail("c18.idempotent", "second downgrade raised", skey, sinp, _describe(d), f"raised {e!r}")
        # nearest entry of the 16-colour palettes
        if system in (1, 4) and src_triplet is not None and not _representable(c, system) \
                and not (system == 4 and in_kind == 2 and c.number < 16):
            acc.clauses["c18.nearest"] += 1
            pal = std if system == 1 else win
            ds = [dist2(src_triplet, p) for p in pal]
            best = min(ds)
            n = d.number
            if not (isinstance(n, int) and 0 <= n < 16 and ds[n] == best):
                argmins = [i for i, v in enumerate(ds) if v == best]
                acc.fail("c18.nearest", f"{sysname} palette entry is not a minimiser of the weighted RGB distance", skey,
                         dict(sinp, rgb=list(src_triplet)),
                         {"any_of": argmins, "dist2": best},
                         {"number": n, "dist2": ds[n] if isinstance(n, int) and 0 <= n < 16 else None})
        # greys -> 256 colours
        if system == 2 and in_kind == 3 and src_triplet[0] == src_triplet[1] == src_triplet[2]:
            acc.clauses["c18.grey_ramp"] += 1
            n = d.number
            if not (isinstance(n, int) and (232 <= n <= 255 or n in (16, 231))):
                acc.fail("c18.grey_ramp", "grey did not land on the grey ramp 232..255 or 16 / 231", skey, sinp,
                         "232..255, 16 or 231", _describe(d))
        # SGR of the result
        if not (d is c):
            for fg in (True, False):
                acc.clauses["c18.sgr"] += 1
                try:
                    k = _KIND[int(d.type)]
                    exp = sgr_expected(k, d.number, d.triplet, fg)
                    obs = d.get_ansi_codes(foreground=fg)
                except Exception as e:
                    exp, obs = "standard SGR parameters", f"raised {e!r}"
                if obs != exp:
                    acc.fail("c18.sgr", f"SGR parameters of the {sysname} conversion result ({'foreground' if fg else 'background'})",
                             f"{skey}|{'fg' if fg else 'bg'}", dict(sinp, foreground=fg, result=_describe(d)),
                             list(exp) if isinstance(exp, tuple) else exp, list(obs) if isinstance(obs, tuple) else obs)
    if changed_somewhere:
        acc.nontrivial += 1


# --------------------------------------------------------------------------------------------- workers
def _load():
    if REPO not in sys.path:
        sys.path.insert(0, REPO)
    from rich.color import Color, ColorSystem, ColorType
    from rich import _palettes

    def table(p):
        cols = getattr(p, "_colors", None)
        if cols is None:
            cols = [tuple(p[i]) for i in range(16)]
        return [tuple(int(v) for v in col) for col in cols]

    std = table(_palettes.STANDARD_PALETTE)
    win = table(_palettes.WINDOWS_PALETTE)
    eight = table(_palettes.EIGHT_BIT_PALETTE)
    return (Color, ColorSystem, ColorType), (std, win), eight


def _work_rgb(packed: List[int]):
    """packed: list of 0xRRGGBB ints"""
    rich, tables, _eight = _load()
    Color = rich[0]
    from rich.color_triplet import ColorTriplet

    acc = _Acc()
    for v in packed:
        r, g, b = v >> 16, (v >> 8) & 255, v & 255
        c = Color.from_triplet(ColorTriplet(r, g, b))
        _check_colour(acc, rich, c, f"rgb({r},{g},{b})", {"kind": "truecolor", "rgb": [r, g, b]}, (r, g, b), tables)
    return acc.clauses, acc.failures, acc.evaluations, acc.nontrivial, len(packed)


def _work_red_plane(red: int):
    base = red << 16
    return _work_rgb(range(base, base + 65536))


def _work_fixed(_=None):
    """indexed colours, standard colours, default"""
    rich, tables, eight = _load()
    Color, ColorSystem, ColorType = rich
    acc = _Acc()
    n_inputs = 0
    for n in range(256):
        c = Color.from_ansi(n)
        src = None if n < 16 else eight[n]
        _check_colour(acc, rich, c, f"color({n})", {"kind": "from_ansi", "number": n}, src, tables)
        n_inputs += 1
    for n in range(16):
        # the same index typed EIGHT_BIT (what a 256-colour escape sequence decodes to)
        c = Color(f"color({n})", ColorType.EIGHT_BIT, number=n)
        _check_colour(acc, rich, c, f"eight_bit({n})", {"kind": "eight_bit", "number": n}, eight[n], tables)
        n_inputs += 1
    for name in ("black", "red", "green", "yellow", "blue", "magenta", "cyan", "white", "bright_black", "bright_red",
                 "bright_green", "bright_yellow", "bright_blue", "bright_magenta", "bright_cyan", "bright_white"):
        c = Color.parse(name)
        _check_colour(acc, rich, c, f"parse({name})", {"kind": "parse", "name": name}, None, tables)
        n_inputs += 1
    for c, key in ((Color.default(), "default()"), (Color.parse("default"), "parse(default)")):
        _check_colour(acc, rich, c, key, {"kind": "default", "via": key}, None, tables)
        n_inputs += 1
    return acc.clauses, acc.failures, acc.evaluations, acc.nontrivial, n_inputs


# --------------------------------------------------------------------------------------------- quick grid
def _quick_colours(seed: int) -> List[int]:
    s = set()
    for v in range(256):
        s.add(v << 16)
        s.add(v << 8)
        s.add(v)
        s.add((v << 16) | (v << 8) | v)  # grey diagonal
        s.add((v << 16) | (v << 8))  # face diagonals
        s.add((v << 16) | v)
        s.add((v << 8) | v)
        s.add((v << 16) | (v << 8) | (255 - v))  # a few anti-diagonals
        s.add(((255 - v) << 16) | (v << 8) | v)
        s.add((v << 16) | (255 << 8) | 255)  # edges at the white corner
        s.add((255 << 16) | (v << 8) | 255)
        s.add((255 << 16) | (255 << 8) | v)
    lattice = [min(255, 16 * i) for i in range(17)]  # 0,16,...,240,255
    for r in lattice:
        for g in lattice:
            for b in lattice:
                s.add((r << 16) | (g << 8) | b)
    # near-greys around the saturation threshold
    for v in range(0, 256, 5):
        for d in (1, 2, 3, 5, 8, 13, 21):
            for sign in (-1, 1):
                w = v + sign * d
                if 0 <= w <= 255:
                    s.add((v << 16) | (v << 8) | w)
                    s.add((w << 16) | (v << 8) | v)
                    s.add((v << 16) | (w << 8) | v)
    rng = random.Random(f"c18:{seed}")
    for _ in range(100_000):
        s.add(rng.getrandbits(24))
    return sorted(s)


def _merge(total, part):
    clauses, failures, ev, nt, n = part
    for k, v in clauses.items():
        total["clauses"][k] += v
    for k, lst in failures.items():
        total["failures"][k].extend(lst)
    total["evaluations"] += ev
    total["nontrivial"] += nt
    total["inputs"] += n


def run(tier: str = "quick", seed: int = 0) -> dict:
    import multiprocessing as mp

    t0 = time.time()
    total = {"clauses": {c: 0 for c in CLAUSES}, "failures": {c: [] for c in CLAUSES}, "evaluations": 0,
             "nontrivial": 0, "inputs": 0}
    exhaustive = False
    ctx = mp.get_context("fork")
    nproc = min(16, os.cpu_count() or 1)
    samples = []
    if tier == "thorough":
        with ctx.Pool(nproc) as pool:
            fixed = pool.apply_async(_work_fixed)
            planes = 0
            for part in pool.imap_unordered(_work_red_plane, range(256), chunksize=1):
                _merge(total, part)
                planes += 1
            _merge(total, fixed.get())
        exhaustive = planes == 256 and total["inputs"] >= 256 ** 3
        bound = ("all 16,777,216 RGB colours (exhaustive enumeration), all 256 indexed colours via from_ansi, 0..15 typed "
                 "EIGHT_BIT, the 16 named standard colours, default; x {STANDARD, EIGHT_BIT, TRUECOLOR, WINDOWS} x fg/bg")
        samples = ["rgb(0,0,0)", "rgb(127,128,129)", "rgb(255,255,255)"]
    else:
        cols = _quick_colours(seed)
        step = max(1, (len(cols) + nproc * 4 - 1) // (nproc * 4))
        chunks = [cols[i:i + step] for i in range(0, len(cols), step)]
        with ctx.Pool(nproc) as pool:
            fixed = pool.apply_async(_work_fixed)
            for part in pool.imap_unordered(_work_rgb, chunks, chunksize=1):
                _merge(total, part)
            _merge(total, fixed.get())
        bound = (f"{len(cols)} distinct RGB colours: axes, grey diagonal r=g=b (all 256), face / anti diagonals, white-corner "
                 "edges, 17^3 lattice, near-greys around the saturation threshold, 100k random (seeded); all 256 indexed "
                 "colours via from_ansi, 0..15 typed EIGHT_BIT, the 16 named standard colours, default; "
                 "x {STANDARD, EIGHT_BIT, TRUECOLOR, WINDOWS} x fg/bg")
        rng = random.Random(f"c18s:{seed}")
        for v in rng.sample(cols, 3):
            samples.append(f"rgb({v >> 16},{(v >> 8) & 255},{v & 255})")
    samples += ["color(200) -> STANDARD", "default() -> WINDOWS"]

    failures = []
    for c in CLAUSES:
        lst = sorted(total["failures"][c], key=lambda f: (len(f["input_key"]), f["input_key"]))
        failures.extend(lst[:MAX_PER_CLAUSE])
    out = {
        "evaluations": total["evaluations"],
        "distinct_nontrivial": total["nontrivial"],
        "rule": "one case = one distinct input colour (inputs are enumerated without repetition) converted to each of the 4 "
                "target systems (evaluations counts colour x system); non-trivial = at least one target system in which the "
                "colour is not already representable, so a real conversion takes place",
        "bound": bound,
        "samples": samples,
        "clauses": total["clauses"],
        "failures": failures,
        "exhaustive": exhaustive,
        "inputs": total["inputs"],
        "seconds": round(time.time() - t0, 2),
    }
    return out


if __name__ == "__main__":  # pragma: no cover
    import json

    tier = sys.argv[1] if len(sys.argv) > 1 else "quick"
    print(json.dumps(run(tier, 0), default=str, indent=1)[:6000])
