"""C03 - the ANSI stream written means exactly what the styled segments say (bounded check).

Oracle: ``_sgr.interpret`` (independent ECMA-48 / xterm model) applied to the characters actually written
to ``Console.file``; expected meaning computed from the *style specification* (a plain dict, never from a
rich ``Style``) plus the documented down-conversion (``_sgr.downconvert``).

Clauses
  c03.chars                   visible characters == concatenation of the non-control segment texts
  c03.attrs / fg / bg / link  per character: attributes that are on, colours after down-conversion, hyperlink
  c03.gamut                   every colour emitted is representable in the console's colour system
  c03.no_leak                 state after the stream is the reset state; unstyled segments are unstyled
  c03.no_stray_sequences      nothing but SGR / OSC 8 is emitted apart from the caller's own control segments
  c03.no_escape_without_color color_system None: no escape sequence at all (stream == the plain text)
  c03.no_color_params         no_color: no colour parameter in any SGR
  c03.no_control_not_terminal not a terminal: no control codes (control segments are dropped)
  c03.style_reuse             the same Style object printed on consoles with different colour systems

Input families: sequences of styled / unstyled / control segments (a) printed as they are and (b) printed
*with a base style* ("the style it was printed with" = base style overlaid by the segment's own style; the
caller's control segments carry no style whichever way they are printed), the base style given through
``print(style=)``, ``Console(style=)`` or a ``Styled`` wrapper.  Every clause above is evaluated on both.
"""
import io
import itertools
import json
import random
import time
import zlib

from . import _sgr

ATTRS = _sgr.ATTRS
SYSTEMS = (None, "standard", "256", "truecolor", "windows")
MAX_FAIL = 3

CLAUSES = (
    "c03.chars", "c03.attrs", "c03.fg", "c03.bg", "c03.link", "c03.gamut", "c03.no_leak",
    "c03.no_stray_sequences", "c03.no_escape_without_color", "c03.no_color_params",
    "c03.no_control_not_terminal", "c03.style_reuse",
)

# ------------------------------------------------------------------------------------------ style domain


def oa27():
    """Orthogonal array OA(27, 13, 3, 2): rows x in GF(3)^3, columns = the 13 points of PG(2,3); every pair
    of columns takes each of the 9 value pairs exactly 3 times."""
    cols = []
    for v in itertools.product(range(3), repeat=3):
        if v == (0, 0, 0):
            continue
        first = next(c for c in v if c)
        if first == 1:
            cols.append(v)
    assert len(cols) == 13
    rows = []
    for x in itertools.product(range(3), repeat=3):
        rows.append(tuple(sum(a * b for a, b in zip(x, c)) % 3 for c in cols))
    return rows


def pairwise_complete(rows) -> bool:
    n = len(rows[0])
    for a in range(n):
        for b in range(a + 1, n):
            if len({(r[a], r[b]) for r in rows}) != 9:
                return False
    return True


TRI = (None, True, False)

INDEXED_SPREAD = (0, 1, 7, 8, 9, 15, 16, 17, 21, 46, 51, 88, 124, 160, 196, 202, 226, 231, 232, 233, 243,
                  244, 254, 255)
LATTICE = (0, 64, 128, 191, 255)
LINKS = (None, None, "https://example.org/a?b=1&c=2", None, "http://x", None, "https://h.example/map;lat=50;lon=4/v?ids=1;2")


def colour_specs(rng, n_random, lattice=LATTICE, indexed=INDEXED_SPREAD):
    specs = [None, "default"]
    specs += list(_sgr.STANDARD_NAMES)
    specs += ["color(%d)" % n for n in indexed]
    k = 0
    for r in lattice:
        for g in lattice:
            for b in lattice:
                specs.append("#%02x%02x%02x" % (r, g, b) if k % 2 == 0 else "rgb(%d,%d,%d)" % (r, g, b))
                k += 1
    # near-greys around the 10% saturation rule and exact greys off the lattice
    for r, g, b in ((100, 100, 100), (7, 7, 7), (250, 250, 250), (100, 104, 108), (120, 110, 100),
                    (200, 190, 180), (50, 60, 55), (254, 255, 255), (1, 0, 0), (128, 127, 129),
                    # both ends of the grey ramp: the last ramp entry before white, the first after black
                    (240, 240, 240), (244, 243, 242), (249, 249, 249), (6, 6, 6), (14, 14, 14), (5, 5, 5)):
        specs.append("#%02x%02x%02x" % (r, g, b))
    for _ in range(n_random):
        r, g, b = rng.randrange(256), rng.randrange(256), rng.randrange(256)
        specs.append("rgb(%d,%d,%d)" % (r, g, b) if rng.random() < 0.5 else "#%02x%02x%02x" % (r, g, b))
    return specs


def colour_model(spec):
    """Model colour (``_sgr`` form, canonical) meant by a colour specification string; None = not set."""
    if spec is None:
        return None
    if spec == "default":
        return _sgr.DEFAULT
    if spec in _sgr.STANDARD_NAMES:
        return ("std", _sgr.STANDARD_NAMES.index(spec))
    if spec.startswith("color("):
        return _sgr.canon(("256", int(spec[6:-1])))
    if spec.startswith("#"):
        return ("rgb", int(spec[1:3], 16), int(spec[3:5], 16), int(spec[5:7], 16))
    if spec.startswith("rgb("):
        r, g, b = (int(v) for v in spec[4:-1].split(","))
        return ("rgb", r, g, b)
    raise ValueError(spec)


def colour_class(spec):
    if spec is None:
        return "none"
    m = colour_model(spec)
    return m[0]


def style_pool(seed: int, blocks: int, n_random: int = 40, lattice=LATTICE, indexed=INDEXED_SPREAD):
    """Deterministic list of style specifications {"attrs": 13-tuple of None/True/False, "fg", "bg", "link"}.
    Each block of 27 consecutive styles is pairwise complete in the 13 tri-state attributes."""
    rng = random.Random(seed * 7919 + 17)
    colours = colour_specs(rng, n_random, lattice, indexed)
    by_class = {}
    for c in colours:
        by_class.setdefault(colour_class(c), []).append(c)
    for c in ("rgb", "256", "std"):
        rng.shuffle(by_class[c])
    class_names = ("rgb", "none", "std", "256", "default")
    fg_count = {c: 0 for c in class_names}
    bg_count = {c: 0 for c in class_names}
    rows = oa27()
    pool = []
    k = 0
    for _block in range(blocks):
        perm = list(range(13))
        rng.shuffle(perm)
        valmap = [rng.sample(TRI, 3) for _ in range(13)]
        order = list(range(27))
        rng.shuffle(order)
        for ri in order:
            row = rows[ri]
            attrs = tuple(valmap[c][row[perm[c]]] for c in range(13))
            # every (fg class, bg class) pair once per 25 styles; within a class the members in turn
            # (bg walks its class backwards so that fg and bg together cover a class sooner)
            fc = class_names[k % 5]
            bc = class_names[(k // 5) % 5]
            fg = by_class[fc][fg_count[fc] % len(by_class[fc])]
            bg = by_class[bc][-1 - (bg_count[bc] % len(by_class[bc]))]
            fg_count[fc] += 1
            bg_count[bc] += 1
            pool.append({"attrs": attrs, "fg": fg, "bg": bg, "link": LINKS[(k + k // 5) % len(LINKS)]})
            k += 1
    return pool


def spec_key(spec):
    if spec is None:
        return None
    return (tuple(spec["attrs"]), spec["fg"], spec["bg"], spec["link"])


def spec_is_null(spec) -> bool:
    return spec is None or (all(a is None for a in spec["attrs"]) and spec["fg"] is None
                            and spec["bg"] is None and spec["link"] is None)


def spec_json(spec):
    if spec is None:
        return None
    out = {name: val for name, val in zip(ATTRS, spec["attrs"]) if val is not None}
    for key in ("fg", "bg", "link"):
        if spec[key] is not None:
            out[key] = spec[key]
    return out


def spec_from_json(obj):
    if obj is None:
        return None
    return {"attrs": tuple(obj.get(name) for name in ATTRS), "fg": obj.get("fg"), "bg": obj.get("bg"),
            "link": obj.get("link")}


def build_style(spec):
    """A *fresh* rich Style for a specification."""
    from rich.style import Style

    kwargs = {name: val for name, val in zip(ATTRS, spec["attrs"]) if val is not None}
    return Style(color=spec["fg"], bgcolor=spec["bg"], link=spec["link"], **kwargs)


BASE_VIAS = ("print", "console", "styled")


def combine_spec(base, spec):
    """Specification of the style a segment with ``spec`` is printed with under base style ``base``: every
    attribute / colour / link the segment sets wins, everything it leaves unset comes from the base."""
    if base is None:
        return spec
    if spec is None:
        return base
    return {"attrs": tuple(b if a is None else a for a, b in zip(spec["attrs"], base["attrs"])),
            "fg": base["fg"] if spec["fg"] is None else spec["fg"],
            "bg": base["bg"] if spec["bg"] is None else spec["bg"],
            "link": base["link"] if spec["link"] is None else spec["link"]}


def expected_meaning(spec, system, no_color=False, legacy_windows=False):
    """(attrs on, set of acceptable fg, set of acceptable bg, link) a terminal must show for ``spec``."""
    if spec is None or system is None:
        return frozenset(), {_sgr.DEFAULT}, {_sgr.DEFAULT}, None
    on = frozenset(name for name, val in zip(ATTRS, spec["attrs"]) if val is True)
    fg = colour_model(spec["fg"])
    bg = colour_model(spec["bg"])
    if no_color:
        fg = bg = None
    fgs = {_sgr.DEFAULT} if fg is None else _sgr.downconvert(fg, system)
    bgs = {_sgr.DEFAULT} if bg is None else _sgr.downconvert(bg, system)
    link = None if legacy_windows else spec["link"]
    return on, fgs, bgs, link


# ------------------------------------------------------------------------------------------ cases

TEXTS = ("a", "xy", "", "日本", "w w", "Z", "[b]m[/b]", "é~", "\t", "0123456789", " ", "ｆｕｌｌ", "q:)", "--")
CONTROLS = ("\x07", "\x1b[?25l", "\r\x1b[2K", "\x1b[2J\x1b[H", "\x1b[?25h")

OTHER_CONFIGS = [
    {"no_color": nc, "force_terminal": ft, "legacy_windows": lw}
    for nc in (False, True) for ft in (True, False, None) for lw in (False, True)
]


def make_sequences(seed: int, pool, count: int):
    """``count`` sequences of 1..5 segments [text, style spec or None, is_control]; neighbours differ in style."""
    rng = random.Random(seed * 104729 + 3)
    seqs = []
    p = 0
    for idx in range(count):
        length = 1 + idx % 5
        segs = []
        prev = "start"
        for pos in range(length):
            if (idx + pos) % 4 == 3 and prev is not None and prev != "start":
                spec = None
            else:
                spec = pool[p % len(pool)]
                p += 1
                if spec_key(spec) == prev:
                    spec = pool[p % len(pool)]
                    p += 1
            text = TEXTS[(idx * 3 + pos * 5 + rng.randrange(3)) % len(TEXTS)]
            if pos == 0 and length == 1 and text == "":
                text = "a"
            segs.append([text, spec, False])
            prev = spec_key(spec)
        if idx % 4 == 2:
            at = rng.randrange(len(segs) + 1)
            segs.insert(at, [CONTROLS[(idx // 4) % len(CONTROLS)], None, True])
        seqs.append(segs)
    return seqs


class _SegmentsRenderable:
    def __init__(self, segments):
        self.segments = segments

    def __rich_console__(self, console, options):
        yield from self.segments


def write_case(segs, config, path="segments", styles=None, base=None):
    """Print the sequence on a fresh console and return the characters written.
    ``styles``: optional list of prebuilt Style objects (same length as segs) - used by the reuse scenario.
    ``base``: optional {"style": spec, "via": one of BASE_VIAS} - the base style the sequence is printed with."""
    from rich.console import Console
    from rich.segment import Segment
    from rich.text import Text

    file = io.StringIO()
    base_style = None if base is None else build_style(base["style"])
    via = None if base is None else base["via"]
    assert via in (None,) + BASE_VIAS, via
    console_kwargs = {"style": base_style} if via == "console" else {}
    print_kwargs = {"style": base_style} if via == "print" else {}
    console = Console(file=file, color_system=config["color_system"], force_terminal=config["force_terminal"],
                      no_color=config["no_color"], legacy_windows=config["legacy_windows"], width=200,
                      _environ={}, **console_kwargs)
    if styles is None:
        styles = [None if spec is None else build_style(spec) for _t, spec, _c in segs]
    if path == "text":
        parts = []
        for (text, _spec, _ctrl), style in zip(segs, styles):
            parts.append(text if style is None else (text, style))
        renderable = Text.assemble(*parts, end="")
    else:
        segments = [Segment(text, style, True) if ctrl else Segment(text, style)
                    for (text, _spec, ctrl), style in zip(segs, styles)]
        renderable = _SegmentsRenderable(segments)
    if via == "styled":
        from rich.styled import Styled

        renderable = Styled(renderable, base_style)
    console.print(renderable, end="", **print_kwargs)
    return file.getvalue()


def check_stream(out, segs, config, base=None):
    """Compare the written characters with the meaning of the segments (printed with base style ``base``).
    Returns (clauses evaluated, list of (clause, what, expected, observed))."""
    system = config["color_system"]
    terminal = bool(config["force_terminal"])
    no_color = config["no_color"]
    legacy = config["legacy_windows"]
    scr = _sgr.interpret(out)
    fails = []
    evaluated = ["c03.chars", "c03.no_leak", "c03.no_stray_sequences"]

    exp_cells = []  # (char, on, fgs, bgs, link, seg index, styled?)
    for si, (text, spec, ctrl) in enumerate(segs):
        if ctrl:
            continue
        if base is not None:
            spec = combine_spec(base["style"], spec)
        on, fgs, bgs, link = expected_meaning(spec, system, no_color, legacy)
        for ch in text:
            exp_cells.append((ch, on, fgs, bgs, link, si, not spec_is_null(spec)))
    exp_text = "".join(c[0] for c in exp_cells)
    if scr.text != exp_text:
        fails.append(("c03.chars", "visible characters differ", exp_text, scr.text))
    else:
        evaluated += ["c03.attrs", "c03.fg", "c03.bg", "c03.link", "c03.gamut"]
        seen = set()
        for k, (cell, exp) in enumerate(zip(scr.cells, exp_cells)):
            ch, attrs, fg, bg, link = cell
            _c, on, fgs, bgs, elink, si, styled = exp
            fg = _sgr.canon(fg)
            bg = _sgr.canon(bg)
            where = "char %d %r (segment %d)" % (k, ch, si)
            if not styled:
                if (attrs, fg, bg, link) != _sgr.RESET_STATE and "c03.no_leak" not in seen:
                    seen.add("c03.no_leak")
                    fails.append(("c03.no_leak", "unstyled segment shows a style at " + where,
                                  _state_json(_sgr.RESET_STATE), _state_json((attrs, fg, bg, link))))
                continue
            if attrs != on and "c03.attrs" not in seen:
                seen.add("c03.attrs")
                fails.append(("c03.attrs", "attributes differ at " + where, sorted(on), sorted(attrs)))
            if fg not in fgs and "c03.fg" not in seen:
                seen.add("c03.fg")
                fails.append(("c03.fg", "foreground differs at " + where, sorted(fgs), fg))
            if bg not in bgs and "c03.bg" not in seen:
                seen.add("c03.bg")
                fails.append(("c03.bg", "background differs at " + where, sorted(bgs), bg))
            if link != elink and "c03.link" not in seen:
                seen.add("c03.link")
                fails.append(("c03.link", "hyperlink differs at " + where, elink, link))
            if system is not None and "c03.gamut" not in seen:
                for which, col in (("foreground", fg), ("background", bg)):
                    if not _sgr.in_gamut(col, system):
                        seen.add("c03.gamut")
                        fails.append(("c03.gamut", "%s not representable in %s at %s" % (which, system, where),
                                      "colour of system " + system, col))
                        break
    if scr.final != _sgr.RESET_STATE:
        fails.append(("c03.no_leak", "state after the stream is not the reset state",
                      _state_json(_sgr.RESET_STATE), _state_json(scr.final)))

    controls = "".join(text for text, _s, ctrl in segs if ctrl)
    passed_controls = controls if terminal else ""
    other_text = "".join(t for _o, _k, t in scr.other)
    # what the caller's own control segments amount to, in the model's terms
    own = "".join(t for _o, _k, t in _sgr.interpret(passed_controls).other)
    if not terminal:
        evaluated.append("c03.no_control_not_terminal")
        if scr.other:
            fails.append(("c03.no_control_not_terminal", "control codes written to a non-terminal", "",
                          other_text))
    elif other_text != own:
        fails.append(("c03.no_stray_sequences", "sequences other than SGR / OSC 8 and the caller's controls",
                      own, other_text))
    if system is None:
        evaluated.append("c03.no_escape_without_color")
        want = "".join(text for text, _s, ctrl in segs if (not ctrl) or terminal)
        if out != want:
            fails.append(("c03.no_escape_without_color", "stream differs from the plain text", want, out))
    if no_color:
        evaluated.append("c03.no_color_params")
        if scr.color_ops():
            fails.append(("c03.no_color_params", "colour parameters emitted under no_color", [],
                          [list(map(_jsonable, op)) for op in scr.color_ops()]))
    return evaluated, fails


def _jsonable(x):
    if isinstance(x, (set, frozenset)):
        return sorted(_jsonable(v) for v in x)
    if isinstance(x, tuple):
        return [_jsonable(v) for v in x]
    return x


def _state_json(state):
    attrs, fg, bg, link = state
    return {"attrs": sorted(attrs), "fg": list(fg), "bg": list(bg), "link": link}


def config_key(config):
    return "%s,nc%d,ft%s,lw%d" % (config["color_system"], int(config["no_color"]),
                                  {True: "1", False: "0", None: "n"}[config["force_terminal"]],
                                  int(config["legacy_windows"]))


def base_json(base):
    return None if base is None else {"style": spec_json(base["style"]), "via": base["via"]}


def base_from_json(obj):
    return None if obj is None else {"style": spec_from_json(obj["style"]), "via": obj["via"]}


def case_json(segs, config, path, base=None):
    out = {"segments": [[t, spec_json(s), c] for t, s, c in segs], "config": config, "path": path}
    if base is not None:
        out["base"] = base_json(base)
    return out


def case_key(segs, config, path, base=None):
    blob = json.dumps(case_json(segs, {}, path, base), sort_keys=True, ensure_ascii=True)
    tag = path[0] if base is None else "%s+%s" % (path[0], base["via"])
    return "%s:%08x/%s" % (tag, zlib.crc32(blob.encode()), config_key(config))


def evaluate(segs, config, path, base=None):
    out = write_case(segs, config, path, base=base)
    return check_stream(out, segs, config, base)


def replay(inp):
    """Replay a failure ``input`` (as stored in the failure record)."""
    if "orders" in inp or "order" in inp:
        return evaluate_reuse(spec_from_json(inp["style"]), inp["order"], inp.get("text", "xy"))
    segs = [[t, spec_from_json(s), c] for t, s, c in inp["segments"]]
    return evaluate(segs, inp["config"], inp["path"], base_from_json(inp.get("base")))


def minimise(segs, config, path, clause, base=None):
    """Greedy reduction keeping a failure of the same clause. Returns (segments, base)."""

    def still(s, b="same"):
        try:
            _ev, fails = evaluate(s, config, path, base if b == "same" else b)
        except Exception:  # pragma: no cover - an exception is not the failure being minimised
            return False
        return any(f[0] == clause for f in fails)

    cur = [list(s) for s in segs]
    if base is not None and still(cur, None):
        base = None  # the base style plays no part in this failure
    changed = True
    while changed and len(cur) > 1:
        changed = False
        for k in range(len(cur)):
            cand = cur[:k] + cur[k + 1:]
            if cand and still(cand):
                cur = cand
                changed = True
                break
    for k, (text, spec, ctrl) in enumerate(cur):
        if len(text) > 1 and not ctrl:
            cand = [list(s) for s in cur]
            cand[k][0] = text[0]
            if still(cand):
                cur = cand
        if spec is None:
            continue
        attrs = list(spec["attrs"])
        for a in range(13):
            if attrs[a] is not None:
                trial = list(attrs)
                trial[a] = None
                cand = [list(s) for s in cur]
                cand[k][1] = dict(cur[k][1], attrs=tuple(trial))
                if still(cand):
                    attrs = trial
                    cur = cand
        for key in ("fg", "bg", "link"):
            if cur[k][1][key] is not None:
                cand = [list(s) for s in cur]
                cand[k][1] = dict(cur[k][1], **{key: None})
                if still(cand):
                    cur = cand
    if base is not None:
        bspec = base["style"]
        for a in range(13):
            if bspec["attrs"][a] is not None:
                trial = list(bspec["attrs"])
                trial[a] = None
                cand_spec = dict(bspec, attrs=tuple(trial))
                # keep one component set: a base style that sets nothing is a different (null) input
                if not spec_is_null(cand_spec) and still(cur, dict(base, style=cand_spec)):
                    bspec = cand_spec
        for key in ("fg", "bg", "link"):
            if bspec[key] is not None:
                cand_spec = dict(bspec, **{key: None})
                if not spec_is_null(cand_spec) and still(cur, dict(base, style=cand_spec)):
                    bspec = cand_spec
        base = dict(base, style=bspec)
    return cur, base


# ------------------------------------------------------------------------------------------ reuse scenario

REUSE_ORDERS = (
    ("truecolor", "standard"), ("standard", "truecolor"), ("truecolor", "256"), ("256", "truecolor"),
    ("256", "standard"), ("standard", "256"), ("windows", "truecolor"), ("truecolor", "windows"),
    ("256", "windows", "truecolor", "standard"), ("standard", "standard"), ("truecolor", None, "256"),
    # the same object on a colour console and then on a NO_COLOR console of the same system ("<system>/nc"), and back
    ("standard", "standard/nc", "standard"), ("truecolor", "truecolor/nc"), ("256/nc", "256", "256/nc"), ("windows", "windows/nc"),
)


def evaluate_reuse(spec, order, text="xy"):
    """One Style object, printed on one fresh console per colour system of ``order``."""
    style = build_style(spec)
    fails = []
    for step, system in enumerate(order):
        nc = isinstance(system, str) and system.endswith("/nc")
        if nc:
            system = system[:-3]
        config = {"color_system": system, "no_color": nc, "force_terminal": True, "legacy_windows": False}
        segs = [[text, spec, False]]
        out = write_case(segs, config, "segments", styles=[style])
        _ev, f = check_stream(out, segs, config)
        for clause, what, exp, obs in f:
            fails.append(("c03.style_reuse", "step %d (%s) after %s: %s [%s]" % (
                step, order[step], list(order[:step]), what, clause), exp, obs))
        if fails:
            break
    return ["c03.style_reuse"], fails


# ------------------------------------------------------------------------------------------ driver


def _plan(tier, seed):
    if tier == "quick":
        return {"blocks": 40, "n_random": 30, "sequences": 1500, "others_per_seq": 4, "reuse": 220, "procs": 1,
                "base_every": 3, "base_others": 1}
    return {"blocks": 60, "n_random": 400, "sequences": 6000, "others_per_seq": len(OTHER_CONFIGS),
            "reuse": 600, "procs": 16, "base_every": 1, "base_others": 3}


_CASES_CACHE = {}


def _cases(tier, seed):
    key = (tier, seed)
    if key not in _CASES_CACHE:
        _CASES_CACHE.clear()
        _CASES_CACHE[key] = _build_cases(tier, seed)
    return _CASES_CACHE[key]


def _build_cases(tier, seed):
    plan = _plan(tier, seed)
    pool = style_pool(seed, plan["blocks"], plan["n_random"])
    seqs = make_sequences(seed, pool, plan["sequences"])
    cases = []
    n_other = len(OTHER_CONFIGS)
    for idx, segs in enumerate(seqs):
        has_control = any(c for _t, _s, c in segs)
        has_tab = any("\t" in t for t, _s, _c in segs)  # Text expands tabs by design; not this property
        for system in SYSTEMS:
            for j in range(plan["others_per_seq"]):
                other = OTHER_CONFIGS[(idx * plan["others_per_seq"] + j + SYSTEMS.index(system)) % n_other]
                config = dict(other, color_system=system)
                path = "text" if (not has_control and not has_tab and (idx + j) % 3 == 0) else "segments"
                cases.append(("seq", idx, segs, config, path, None))
    # the same sequences printed with a base style: print(style=) / Console(style=) / Styled in turn, every
    # colour system, the other settings rotated (one per case, so every one of the 12 comes round).
    # every 16th base style sets nothing (prints like no base style at all).
    brng = random.Random(seed * 15485863 + 11)
    null_spec = {"attrs": (None,) * 13, "fg": None, "bg": None, "link": None}
    b = 0
    for idx, segs in enumerate(seqs):
        has_control = any(c for _t, _s, c in segs)
        if not (has_control or idx % plan["base_every"] == 0):
            continue
        has_tab = any("\t" in t for t, _s, _c in segs)
        for system in SYSTEMS:
            bspec = null_spec if b % 16 == 15 else pool[brng.randrange(len(pool))]
            base = {"style": bspec, "via": BASE_VIAS[(b + b // 15) % len(BASE_VIAS)]}
            for j in range(plan["base_others"]):
                config = dict(OTHER_CONFIGS[(b * 5 + j * 7 + b // n_other) % n_other], color_system=system)
                path = "text" if (not has_control and not has_tab and (b + j) % 3 == 0) else "segments"
                cases.append(("seq", idx, segs, config, path, base))
            b += 1
    reuse_specs = [s for s in pool if colour_class(s["fg"]) in ("rgb", "256") or
                   colour_class(s["bg"]) in ("rgb", "256")]
    for k in range(min(plan["reuse"], len(reuse_specs))):
        spec = reuse_specs[(k * 13) % len(reuse_specs)]
        cases.append(("reuse", k, spec, REUSE_ORDERS[k % len(REUSE_ORDERS)], None))
    return plan, pool, cases


def _run_chunk(args):
    tier, seed, lo, hi = args
    _plan_, _pool, cases = _cases(tier, seed)
    results = []
    for ci in range(lo, hi):
        case = cases[ci]
        try:
            if case[0] == "seq":
                _k, idx, segs, config, path, base = case
                evaluated, fails = evaluate(segs, config, path, base)
            else:
                _k, k, spec, order, _ = case
                evaluated, fails = evaluate_reuse(spec, order)
        except Exception as exc:  # an exception while printing is itself a failure of c03.chars
            evaluated = ["c03.chars"]
            fails = [("c03.chars", "exception %s: %s" % (type(exc).__name__, exc), "no exception", repr(exc))]
        results.append((ci, evaluated, [(f[0], f[1], _jsonable(f[2]), _jsonable(f[3])) for f in fails]))
    return results


def run(tier: str = "quick", seed: int = 0) -> dict:
    t0 = time.time()
    plan, pool, cases = _cases(tier, seed)
    assert all(pairwise_complete([s["attrs"] for s in pool[b * 27:(b + 1) * 27]])
               for b in range(plan["blocks"])), "style pool is not pairwise complete"
    n = len(cases)
    if plan["procs"] > 1:
        import multiprocessing

        step = max(1, n // (plan["procs"] * 8))
        chunks = [(tier, seed, lo, min(n, lo + step)) for lo in range(0, n, step)]
        with multiprocessing.Pool(plan["procs"]) as mp:
            parts = mp.map(_run_chunk, chunks)
        results = [r for part in parts for r in part]
    else:
        results = _run_chunk((tier, seed, 0, n))
    results.sort(key=lambda r: r[0])

    clauses = {c: 0 for c in CLAUSES}
    failures = []
    per_clause = {}
    distinct = set()
    nontrivial = set()
    for ci, evaluated, fails in results:
        case = cases[ci]
        for c in evaluated:
            clauses[c] = clauses.get(c, 0) + 1
        if case[0] == "seq":
            _k, idx, segs, config, path, base = case
            key = case_key(segs, config, path, base)
            distinct.add(key)
            bstyle = None if base is None else base["style"]
            if (any((not c) and t and not spec_is_null(combine_spec(bstyle, s)) for t, s, c in segs)
                    or any(c for _t, _s, c in segs)):
                nontrivial.add(key)
        else:
            _k, k, spec, order, _ = case
            key = "reuse:%08x/%s" % (zlib.crc32(json.dumps(spec_json(spec), sort_keys=True).encode()),
                                     ">".join(str(o) for o in order))
            distinct.add(key)
            nontrivial.add(key)
        for clause, what, exp, obs in fails:
            if per_clause.get(clause, 0) >= MAX_FAIL:
                continue
            if case[0] == "seq":
                small, small_base = minimise(segs, config, path, clause, base)
                _ev, f2 = evaluate(small, config, path, small_base)
                hit = next((f for f in f2 if f[0] == clause), None)
                if hit is not None:
                    what, exp, obs = hit[1], _jsonable(hit[2]), _jsonable(hit[3])
                else:  # pragma: no cover
                    small, small_base = segs, base
                _add_failure(failures, per_clause, {
                    "check": clause, "what": what, "input_key": case_key(small, config, path, small_base),
                    "input": case_json(small, config, path, small_base), "expected": exp, "observed": obs})
            else:
                small_spec, small_order = _minimise_reuse(spec, order)
                _ev, f2 = evaluate_reuse(small_spec, small_order)
                if f2:
                    what, exp, obs = f2[0][1], _jsonable(f2[0][2]), _jsonable(f2[0][3])
                _add_failure(failures, per_clause, {
                    "check": clause, "what": what,
                    "input_key": "reuse:%08x/%s" % (
                        zlib.crc32(json.dumps(spec_json(small_spec), sort_keys=True).encode()),
                        ">".join(str(o) for o in small_order)),
                    "input": {"style": spec_json(small_spec), "order": list(small_order), "text": "xy"},
                    "expected": exp, "observed": obs})

    samples = []
    base_cases = [c for c in cases if c[0] == "seq" and c[5] is not None]
    n_base_ctrl = sum(1 for c in base_cases if any(ctrl for _t, _s, ctrl in c[2]))
    for case in (cases[0], base_cases[len(base_cases) // 3], cases[-1], cases[len(cases) // 3]):
        if case[0] == "seq":
            samples.append(case_json(case[2], case[3], case[4], case[5]))
        else:
            samples.append({"style": spec_json(case[2]), "order": list(case[3])})
    classes = sorted({(colour_class(s["fg"]), colour_class(s["bg"])) for s in pool})
    return {
        "evaluations": len(results),
        "distinct_nontrivial": len(nontrivial),
        "rule": ("cases = (segment sequence x console configuration) plus (one Style object x order of colour "
                 "systems); a sequence is printed as it is or with a base style; distinct by (path, base route, crc of "
                 "the sequence and base style, configuration); non-trivial = has a visible "
                 "character carrying a non-null style (base included) or a control segment; %d distinct cases in all; style pool "
                 "of %d specs in blocks of 27 from OA(27,13,3,2) (pairwise complete, asserted), %d fg/bg class "
                 "pairs covered" % (len(distinct), len(pool), len(classes))),
        "bound": ("tier %s seed %d: %d sequences of 1..5 segments (texts %d incl. empty/wide/tab; every 4th with a "
                  "control segment) x 5 colour systems x %d of 12 (no_color x force_terminal{T,F,None} x "
                  "legacy_windows) rotated; colours: none, default, 16 names, color(n) n in %s, 5^3 lattice %s as "
                  "#hex/rgb(), 10 near-greys, %d random; links %d; print paths: Segments via renderable, "
                  "Text.assemble; base style: %d cases (%d with a control segment) = sequences with a control segment and "
                  "1 in %d of the others x 5 colour systems x %d of 12, base from the pool (every 16th sets nothing) via "
                  "print(style=) / Console(style=) / Styled; reuse: %d styles x %d orders; width 200" % (
                      tier, seed, plan["sequences"], len(TEXTS), plan["others_per_seq"], list(INDEXED_SPREAD),
                      list(LATTICE), plan["n_random"], 2, len(base_cases), n_base_ctrl, plan["base_every"],
                      plan["base_others"], min(plan["reuse"], len(pool)), len(REUSE_ORDERS))),
        "samples": samples,
        "clauses": clauses,
        "failures": failures,
        "seconds": round(time.time() - t0, 2),
    }


def _add_failure(failures, per_clause, record):
    """Keep at most MAX_FAIL per clause and never the same minimised input twice."""
    if any(f["check"] == record["check"] and f["input_key"] == record["input_key"] for f in failures):
        return
    failures.append(record)
    per_clause[record["check"]] = per_clause.get(record["check"], 0) + 1


def _minimise_reuse(spec, order):
    def still(s, o):
        try:
            return bool(evaluate_reuse(s, o)[1])
        except Exception:  # pragma: no cover
            return False

    cur, cur_order = spec, tuple(order)
    for a in range(len(cur_order)):
        for b in range(a + 1, len(cur_order)):
            cand = (cur_order[a], cur_order[b])
            if len(cand) < len(cur_order) and still(cur, cand):
                cur_order = cand
                break
        if len(cur_order) == 2:
            break
    attrs = list(cur["attrs"])
    for a in range(13):
        if attrs[a] is not None:
            trial = list(attrs)
            trial[a] = None
            cand = dict(cur, attrs=tuple(trial))
            if still(cand, cur_order):
                attrs = trial
                cur = cand
    for key in ("fg", "bg", "link"):
        if cur[key] is not None:
            cand = dict(cur, **{key: None})
            if still(cand, cur_order):
                cur = cand
    return cur, cur_order
