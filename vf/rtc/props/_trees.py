"""Shared generator of renderable trees for the layout property checks (C01, C09, C14-trees).

A tree is a JSON-able *description* (nested dicts, key ``"t"`` = node kind).  ``build(desc)`` turns it
into the rich renderable, ``smin(desc)`` is the structural minimum width of the property text of C01
(borders + padding + room for one character -- two if a double-width character occurs -- in every
innermost column), ``gen_tree(rng, depth, pool)`` draws a description deterministically from a
``random.Random``.  Nothing here imports rich at module import time (the caller decides, via
``sys.path`` / VF_REPO, which tree ``rich`` comes from); the cell-width oracle is
``vf.rtc.specnative`` (a linear expansion of the width table), never ``rich.cells.cell_len``.

Preconditions of the properties that the generator respects (so that the unchanged tree raises no
false alarm):
  * table columns are free to wrap: no ``width``/``min_width``/``max_width``/``no_wrap`` on columns,
    no ``Table.width``, no ``Columns.width`` (``Table.min_width`` is allowed: it does not cap any column);
  * ``Constrain.width`` / ``Align.width`` / ``Panel.width`` are never below the structural minimum of
    the child (otherwise the child is *told* to render below its minimum);
  * a renderable that emits no trailing newline (``ProgressBar``, or a pass-through wrapper around it)
    is never followed by another renderable inside a ``RenderGroup`` (it would be concatenated on one
    line by design);
  * ``__rich__`` (the ``Cast`` wrapper, C09 only) returns a renderable or a str, never another castable object
    (that is what the ``RichCast`` protocol promises; rich casts once);
  * ``Text.overflow`` is never ``"ignore"`` (an explicit opt-out of the width bound), no tab characters;
  * ``leading`` is 0 or 1 in the main pool; ``leading >= 2`` lives in its own small pool (DESIGN §9 #12);
  * column ``ratio`` is None or 1..3 in the main pool; ``ratio=0`` (accepted by the API, "flexible" with no share)
    lives in its own small pool "ratio0" (an expanding table hands such a trailing column a negative width).
"""
from __future__ import annotations

import contextlib
import copy
import hashlib
import io
import json
import os
import random
import signal
import threading
import time
from typing import Any, Callable, Dict, Iterable, Iterator, List, Optional, Tuple

from vf.rtc import specnative

Desc = Dict[str, Any]

# ----------------------------------------------------------------------------------------------------------------------
# cell width oracle (independent of rich.cells)


def cells(s: str) -> int:
    return specnative.cells(s)


def has_wide(s: str) -> bool:
    t = specnative.width_table()
    return any(t[ord(ch)] == 2 for ch in s)


# ----------------------------------------------------------------------------------------------------------------------
# content alphabet

ASCII_WORDS = ["a", "I", "ab", "to", "word", "hello", "world", "lorem", "ipsum", "x-y", "(q)", "a.b,c",
               "0123456789", "supercalifragilistic", "Zz", "ok!"]
WIDE_WORDS = ["日", "日本語", "漢字", "かな", "中a文", "한글", "😀", "a😀b", "👍", "🎉🎉", "ＡＢ", "x日", "日x",
              # boundary code points of the width table: last of a range / single-code-point ranges / first of a range
              "\u2705\u2705", "a\u2b50", "\U0001f64f", "\ud7a3x", "\uff60", "\u23f0\u2728", "\u1100", "\U0001f300a"]
ZERO_WORDS = ["e\u0301cole", "a\u0300\u0301", "a\u200bb", "\u200b", "n\u0303o", "\U0001f468\u200d\U0001f469\u200d\U0001f467",
              "x\ufe0f", "\u0301", "o\u0308\u0304k"]
BOXES = ["ASCII", "ASCII2", "SQUARE", "ROUNDED", "HEAVY_HEAD", "HEAVY", "DOUBLE", "DOUBLE_EDGE", "MINIMAL",
         "MINIMAL_HEAVY_HEAD", "SIMPLE", "SIMPLE_HEAD", "SIMPLE_HEAVY", "HORIZONTALS", "HEAVY_EDGE",
         "SQUARE_DOUBLE_HEAD", "MINIMAL_DOUBLE_HEAD", "ASCII_DOUBLE_HEAD"]
JUSTIFY = ["left", "center", "right", "full"]
OVERFLOW = ["fold", "ellipsis", "crop"]
ALIGN = ["left", "center", "right"]
RULE_CHARS = ["─", "-", "=", "━", "*-", "·", "日", "━╸"]


def gen_string(rng: random.Random, flavour: Optional[str] = None, max_tokens: int = 6, newlines: bool = True) -> str:
    """words joined by single/double spaces and (if allowed) newlines; may have leading/trailing blanks"""
    if flavour is None:
        flavour = rng.choices(["ascii", "wide", "zero", "mixed"], [45, 30, 12, 13])[0]
    pool = {
        "ascii": ASCII_WORDS,
        "wide": ASCII_WORDS[:8] + WIDE_WORDS * 2,
        "zero": ASCII_WORDS[:8] + ZERO_WORDS * 2,
        "mixed": ASCII_WORDS + WIDE_WORDS + ZERO_WORDS,
    }[flavour]
    n = rng.choice([0, 1, 1, 1, 2, 2, 3, 3, 4, 5, max_tokens])
    n = min(n, max_tokens)
    out: List[str] = []
    for i in range(n):
        if i:
            seps = [" "] * 14 + ["  "] + (["\n"] * 4 + [" \n", "\n\n"] if newlines else [])
            out.append(rng.choice(seps))
        out.append(rng.choice(pool))
    s = "".join(out)
    r = rng.random()
    if r < 0.04:
        s = " " + s
    elif r < 0.08:
        s = s + " "
    elif r < 0.11 and newlines:
        s = s + "\n"
    elif r < 0.13 and newlines:
        s = "\n" + s
    return s


def gen_title(rng: random.Random) -> Optional[str]:
    if rng.random() < 0.6:
        return None
    return gen_string(rng, max_tokens=3, newlines=rng.random() < 0.1) or "t"


# ----------------------------------------------------------------------------------------------------------------------
# generation


class _Budget:
    def __init__(self, n: int):
        self.n = n

    def take(self, k: int = 1) -> bool:
        self.n -= k
        return self.n >= 0


def gen_text(rng: random.Random, flavour: Optional[str] = None) -> Desc:
    d: Desc = {"t": "Text", "s": gen_string(rng, flavour)}
    r = rng.random()
    if r < 0.12:
        d["justify"] = rng.choice(JUSTIFY)
    if 0.08 < r < 0.2:
        d["overflow"] = rng.choice(OVERFLOW)
    if 0.18 < r < 0.22:
        d["no_wrap"] = True
    return d


def gen_leaf(rng: random.Random, extras: bool = False) -> Desc:
    k = rng.choices(["Text", "Str", "Rule", "Bar", "ProgressBar"], [62, 12, 10, 8, 8])[0]
    if k == "Text":
        return gen_text(rng)
    if k == "Str":
        return {"t": "Str", "s": gen_string(rng)}
    if k == "Rule":
        return {"t": "Rule", "title": gen_string(rng, max_tokens=2, newlines=rng.random() < 0.1) if rng.random() < 0.6 else "",
                "characters": rng.choice(RULE_CHARS), "align": rng.choice(ALIGN)}
    if k == "Bar":
        size = rng.choice([1, 10, 100, 7])
        b = rng.choice([0, 0, size * 0.25, size * 0.5, size])
        e = rng.choice([size, size * 0.5, size * 0.75, 0, size * 0.26])
        return {"t": "Bar", "size": size, "begin": b, "end": e, "width": rng.choice([None, None, None, 1, 5, 12, 40])}
    total = rng.choice([100, 100, 3, 0, 1])
    return {"t": "ProgressBar", "total": total, "completed": rng.choice([0, 1, total / 2 if total else 0, total, total + 5, 33]),
            "width": rng.choice([None, None, None, 1, 4, 10, 60]), "pulse": rng.random() < 0.15}


def _pad4(rng: random.Random, big: bool = False) -> List[int]:
    form = rng.choice(["zero", "int", "vh", "four", "default"])
    hi = 3 if big else 2
    if form == "zero":
        return [0, 0, 0, 0]
    if form == "default":
        return [0, 1, 0, 1]
    if form == "int":
        v = rng.randint(0, hi)
        return [v, v, v, v]
    if form == "vh":
        v, h = rng.randint(0, 1), rng.randint(0, hi)
        return [v, h, v, h]
    return [rng.randint(0, 1), rng.randint(0, hi), rng.randint(0, 1), rng.randint(0, hi)]


def gen_node(rng: random.Random, depth: int, budget: _Budget, pool: str = "main", extras: bool = False,
             p_container: float = 1.0) -> Desc:
    """a description of nesting depth <= depth (a leaf has depth 1)"""
    if depth <= 1 or not budget.take() or rng.random() > p_container:
        return gen_leaf(rng, extras)
    kinds = ["Table", "Panel", "Padding", "Align", "Constrain", "Columns", "Tree", "Group"]
    weights = [30, 16, 10, 8, 6, 10, 9, 11]
    if extras:
        kinds += ["NoMeasure", "Cast"]
        weights += [5, 5]
    k = rng.choices(kinds, weights)[0]
    sub = lambda p=0.45: gen_node(rng, depth - 1, budget, pool, extras, p)  # noqa: E731
    if k == "Table":
        return gen_table(rng, depth, budget, pool, extras)
    if k == "Panel":
        child = sub(0.8)
        d = {"t": "Panel", "child": child, "box": rng.choice(BOXES), "title": gen_title(rng),
             "title_align": rng.choice(ALIGN), "expand": rng.random() < 0.6, "padding": _pad4(rng, True)}
        if rng.random() < 0.1:
            d["width"] = smin(d) + rng.choice([0, 1, 3, 10, 30])
        return d
    if k == "Padding":
        return {"t": "Padding", "child": sub(0.8), "pad": _pad4(rng, True), "expand": rng.random() < 0.6}
    if k == "Align":
        child = sub(0.8)
        d = {"t": "Align", "child": child, "align": rng.choice(ALIGN), "pad": rng.random() < 0.7}
        if rng.random() < 0.2:
            d["width"] = smin(child) + rng.choice([0, 1, 2, 5, 20])
        return d
    if k == "Constrain":
        child = sub(0.8)
        return {"t": "Constrain", "child": child,
                "width": rng.choice([None, smin(child), smin(child) + 1, smin(child) + 4, smin(child) + 15, 80])
                if rng.random() < 0.9 else None}
    if k == "Columns":
        n = rng.choice([0, 1, 2, 3, 3, 4, 5, 6]) if rng.random() < 0.9 else 9
        kids = [gen_node(rng, depth - 1, budget, pool, extras, 0.2) for _ in range(n)]
        return {"t": "Columns", "children": kids, "padding": _pad4(rng), "equal": rng.random() < 0.4,
                "expand": rng.random() < 0.4, "column_first": rng.random() < 0.4, "right_to_left": rng.random() < 0.2,
                "align": rng.choice([None, None] + ALIGN), "title": gen_title(rng),
                # an explicit column width is a valid option too; only the c14 (must-not-raise) pool uses it
                "width": rng.choice([None, None, 1, 5, 30]) if pool == "c14" else None}
    if k == "Tree":
        def tree(level: int) -> Desc:
            n = 0 if level >= 2 else rng.choice([0, 1, 2, 2, 3])
            return {"t": "Tree", "label": gen_node(rng, depth - 1, budget, pool, extras, 0.25),
                    "kids": [tree(level + 1) for _ in range(n) if budget.take()], "expanded": rng.random() < 0.9}
        return tree(0)
    if k == "Group":
        n = rng.choice([0, 1, 2, 2, 3, 4])
        kids = [sub(0.4) for _ in range(n)]
        kids = _fix_group(kids)
        return {"t": "Group", "children": kids, "fit": rng.random() < 0.8}
    if k == "NoMeasure":
        return {"t": "NoMeasure", "child": sub(0.7)}
    child = sub(0.7)
    while child["t"] == "Cast":  # __rich__ must return a renderable or a str, not another castable object
        child = child["child"]
    return {"t": "Cast", "child": child}


def gen_table(rng: random.Random, depth: int, budget: _Budget, pool: str, extras: bool) -> Desc:
    ncols = rng.choice([1, 1, 2, 2, 2, 3, 3, 4])
    if pool == "c14" and rng.random() < 0.04:
        ncols = 0  # a table without columns is valid input, but it has no column for C01/C09 to speak about
    nrows = rng.choice([0, 1, 1, 2, 2, 3])
    expand = rng.random() < (0.4 if pool != "ratio0" else 0.8)
    use_ratio = expand and rng.random() < (0.5 if pool != "ratio0" else 0.9)
    cell = lambda p: gen_node(rng, depth - 1, budget, pool, extras, p)  # noqa: E731
    cols = []
    for _ in range(ncols):
        c: Desc = {"header": {"t": "Str", "s": gen_string(rng, max_tokens=2, newlines=False)} if rng.random() < 0.6 else cell(0.1),
                   "footer": {"t": "Str", "s": gen_string(rng, max_tokens=2, newlines=False)} if rng.random() < 0.7 else cell(0.1),
                   "justify": rng.choice(JUSTIFY), "overflow": rng.choice(["ellipsis"] + OVERFLOW),
                   "ratio": None}
        if use_ratio and rng.random() < 0.7:
            c["ratio"] = rng.choice([1, 1, 2, 3] + ([0] if pool == "c14" else []))
        elif rng.random() < 0.05:
            c["ratio"] = rng.choice([1, 2])
        cols.append(c)
    if pool == "ratio0" and use_ratio and ncols >= 2:
        # a column with ratio 0 after one with a positive ratio (and, often, a content-sized column in between)
        cols[rng.randrange(0, ncols - 1)]["ratio"] = rng.choice([1, 2, 3])
        cols[-1]["ratio"] = 0
        if ncols >= 3 and rng.random() < 0.7:
            cols[-2]["ratio"] = None
    rows = []
    for _ in range(nrows):
        n = ncols if rng.random() < 0.9 or ncols == 0 else rng.randint(0, ncols)  # short rows are padded by add_row
        rows.append({"cells": [cell(0.3) for _ in range(n)], "end_section": rng.random() < 0.1})
    if pool == "leading":
        leading = rng.choice([2, 2, 3, 5])
    elif pool == "c14":
        leading = rng.choice([0, 0, 0, 1, 1, 2, 3])
    else:
        leading = rng.choice([0, 0, 0, 1])
    return {"t": "Table", "box": rng.choice(BOXES + [None] * 5), "padding": _pad4(rng), "pad_edge": rng.random() < 0.6,
            "collapse_padding": rng.random() < 0.3, "expand": expand, "show_header": rng.random() < 0.7,
            "show_footer": rng.random() < 0.3, "show_edge": rng.random() < 0.7, "show_lines": rng.random() < 0.3,
            "leading": leading, "title": gen_title(rng), "caption": gen_title(rng) if rng.random() < 0.5 else None,
            "title_justify": rng.choice(["center", "center", "left", "right", "full"]), "cols": cols, "rows": rows,
            # Table.min_width asks for a wider table, it never licenses more than the available width
            "min_width": rng.choice([4, 12, 24, 60]) if rng.random() < 0.1 else None}


def newline_less(d: Desc) -> bool:
    """does the renderable end without a newline (so a following sibling in a group would share its last line)?"""
    t = d["t"]
    if t == "ProgressBar":
        return True
    if t in ("Constrain", "NoMeasure", "Cast"):
        return newline_less(d["child"])
    if t == "Group":
        return bool(d["children"]) and newline_less(d["children"][-1])
    return False


def _terminate(d: Desc) -> Desc:
    """the same node with its newline-less tail replaced by a renderable that ends its line (ProgressBar -> Bar);
    keeps the nesting depth"""
    t = d["t"]
    if t == "ProgressBar":
        return {"t": "Bar", "size": 100, "begin": 0, "end": 50, "width": d["width"]}
    if t in ("Constrain", "NoMeasure", "Cast"):
        return dict(d, child=_terminate(d["child"]))
    if t == "Group" and d["children"]:
        return dict(d, children=d["children"][:-1] + [_terminate(d["children"][-1])])
    return d


def _fix_group(kids: List[Desc]) -> List[Desc]:
    return [(_terminate(k) if (i != len(kids) - 1 and newline_less(k)) else k) for i, k in enumerate(kids)]


def gen_tree(rng: random.Random, depth: int, pool: str = "main", extras: bool = False, max_nodes: int = 14) -> Desc:
    """one renderable tree.  pool "main": leading in {0,1}; pool "leading": contains a box table with leading >= 2;
    pool "ratio0": contains an expanding table with a ``ratio=0`` column next to a ``ratio>0`` column (the main pool
    draws ratios from {None,1,2,3}); pool "c14": any leading, ratio 0, and tables without columns (termination only)."""
    for _ in range(50):
        d = gen_node(rng, depth, _Budget(max_nodes), pool, extras)
        if pool == "leading":
            if not any(n["t"] == "Table" and n["leading"] >= 2 and n["box"] and len(n["rows"]) >= 2 for n in walk(d)):
                continue
        if pool == "ratio0":
            if not any(n["t"] == "Table" and n["expand"] and any(c["ratio"] == 0 for c in n["cols"])
                       and any(c["ratio"] for c in n["cols"]) for n in walk(d)):
                continue
        if rng.random() < 0.75 and node_count(d) < 2:
            continue  # keep most trees non-trivial, but leave a few bare leaves in
        return d
    return d


# ----------------------------------------------------------------------------------------------------------------------
# structure helpers


def children(d: Desc) -> List[Desc]:
    t = d["t"]
    if t in ("Panel", "Padding", "Align", "Constrain", "NoMeasure", "Cast"):
        return [d["child"]]
    if t in ("Columns", "Group"):
        return list(d["children"])
    if t == "Tree":
        return [d["label"]] + list(d["kids"])
    if t == "Table":
        out = []
        for c in d["cols"]:
            out.append(c["header"])
            out.append(c["footer"])
        for r in d["rows"]:
            out.extend(r["cells"])
        return out
    return []


def walk(d: Desc) -> Iterator[Desc]:
    yield d
    for c in children(d):
        yield from walk(c)


def node_count(d: Desc) -> int:
    return sum(1 for _ in walk(d))


def depth_of(d: Desc) -> int:
    if d["t"] == "Tree":
        return 1 + max([depth_of(d["label"])] + [depth_of(k) - 1 for k in d["kids"]])
    cs = children(d)
    return 1 + (max(depth_of(c) for c in cs) if cs else 0)


def signature(d: Desc) -> str:
    """tree shape: node kinds and arity, no contents and no options"""
    t = d["t"]
    if t == "Table":
        return "Table[%d](%s)" % (len(d["cols"]), ";".join(",".join(signature(c) for c in r["cells"]) for r in d["rows"]))
    if t == "Tree":
        return "Tree(%s|%s)" % (signature(d["label"]), ",".join(signature(k) for k in d["kids"]))
    cs = children(d)
    return t if not cs and t not in ("Columns", "Group") else "%s(%s)" % (t, ",".join(signature(c) for c in cs))


def sig_key(d: Desc) -> str:
    """short stable hash of the shape signature (what the distinct-case count is keyed on)"""
    return hashlib.sha1(signature(d).encode()).hexdigest()[:12]


def key_of(d: Desc, width: Optional[int] = None, prefix: str = "") -> str:
    h = hashlib.sha1(json.dumps([d, width], sort_keys=True, ensure_ascii=True).encode()).hexdigest()[:12]
    return f"{prefix}{h}"


def width_class(w: int, sm: int) -> str:
    if w < sm:
        return "<smin" if sm - w > 2 else "smin-%d" % (sm - w)
    if w - sm <= 12:
        return "smin+%d" % (w - sm)
    for hi in (24, 40, 60, 80, 100, 120, 160, 199):
        if w <= hi:
            return "<=%d" % hi
    return "200"


# ----------------------------------------------------------------------------------------------------------------------
# structural minimum (written from the property text, not from rich's arithmetic)


def _text_smin(s: str) -> int:
    return 2 if has_wide(s) else 1


def table_padding(d: Desc, ci: int) -> Tuple[int, int]:
    """left/right padding actually put around the cells of column ci (padding, collapse_padding, pad_edge)"""
    _t, right, _b, left = d["padding"]
    n = len(d["cols"])
    if d["collapse_padding"] and ci > 0:
        left = max(0, left - right)
    if not d["pad_edge"]:
        if ci == 0:
            left = 0
        if ci == n - 1:
            right = 0
    return left, right


def smin(d: Desc) -> int:
    t = d["t"]
    if t in ("Text", "Str"):
        return _text_smin(d["s"])
    if t == "Rule":
        return _text_smin(d["title"] + d["characters"])
    if t in ("Bar", "ProgressBar"):
        return 1
    if t == "Padding":
        return d["pad"][1] + d["pad"][3] + smin(d["child"])
    if t == "Panel":
        m = 2 + d["padding"][1] + d["padding"][3] + smin(d["child"])
        return max(m, 4) if d.get("title") else m  # a titled frame: two corners and the two top glyphs next to them
    if t in ("Align", "Constrain", "NoMeasure", "Cast"):
        return smin(d["child"])
    if t == "Group":
        return max([1] + [smin(c) for c in d["children"]])
    if t == "Columns":
        # columns re-flow down to a single column; the single column carries no horizontal padding
        m = max([1] + [smin(c) for c in d["children"]])
        return max(m, _text_smin(d["title"])) if d.get("title") else m
    if t == "Tree":
        def rec(n: Desc, level: int) -> int:
            m = 4 * level + smin(n["label"])
            if n["expanded"]:
                for k in n["kids"]:
                    m = max(m, rec(k, level + 1))
            return m
        return rec(d, 0)
    if t == "Table":
        n = len(d["cols"])
        total = 0
        if d["box"] and d["show_edge"]:
            total += 2
        if d["box"]:
            total += max(0, n - 1)
        for ci in range(n):
            col = d["cols"][ci]
            cellmins = [1]
            if d["show_header"]:
                cellmins.append(smin(col["header"]))
            if d["show_footer"]:
                cellmins.append(smin(col["footer"]))
            for r in d["rows"]:
                if ci < len(r["cells"]):
                    cellmins.append(smin(r["cells"][ci]))
            left, right = table_padding(d, ci)
            total += left + right + max(cellmins)
        for ann in (d.get("title"), d.get("caption")):
            if ann:
                total = max(total, _text_smin(ann))
        return max(total, 1)
    raise ValueError(t)


def valid(d: Desc) -> bool:
    """the generator's preconditions (also kept by the minimiser)"""
    for n in walk(d):
        t = n["t"]
        if t in ("Constrain", "Align", "Panel") and n.get("width") is not None:
            need = smin(n) if t == "Panel" else smin(n["child"])
            if n["width"] < need:
                return False
        if t == "Cast" and n["child"]["t"] == "Cast":
            return False
        if t == "Group":
            if any(newline_less(k) for k in n["children"][:-1]):
                return False
        if t == "Table":
            if any(len(r["cells"]) > len(n["cols"]) for r in n["rows"]):
                return False
    return True


# ----------------------------------------------------------------------------------------------------------------------
# build


class NoMeasure:
    """a renderable without __rich_measure__"""

    def __init__(self, renderable):
        self.renderable = renderable

    def __rich_console__(self, console, options):
        yield self.renderable


class Cast:
    """an object that is only renderable through __rich__"""

    def __init__(self, renderable):
        self.renderable = renderable

    def __rich__(self):
        return self.renderable


def build(d: Desc):
    import rich.box as rbox
    from rich.align import Align
    from rich.bar import Bar
    from rich.columns import Columns
    from rich.console import RenderGroup
    from rich.constrain import Constrain
    from rich.padding import Padding
    from rich.panel import Panel
    from rich.progress_bar import ProgressBar
    from rich.rule import Rule
    from rich.table import Table
    from rich.text import Text
    from rich.tree import Tree

    t = d["t"]
    if t == "Text":
        return Text(d["s"], justify=d.get("justify"), overflow=d.get("overflow"), no_wrap=d.get("no_wrap"))
    if t == "Str":
        return d["s"]
    if t == "Rule":
        return Rule(d["title"], characters=d["characters"], align=d["align"])
    if t == "Bar":
        return Bar(d["size"], d["begin"], d["end"], width=d["width"])
    if t == "ProgressBar":
        return ProgressBar(total=d["total"], completed=d["completed"], width=d["width"], pulse=d["pulse"], animation_time=0.0)
    if t == "Padding":
        return Padding(build(d["child"]), tuple(d["pad"]), expand=d["expand"])
    if t == "Panel":
        return Panel(build(d["child"]), getattr(rbox, d["box"]), title=d.get("title"), title_align=d.get("title_align", "center"),
                     expand=d["expand"], padding=tuple(d["padding"]), width=d.get("width"))
    if t == "Align":
        return Align(build(d["child"]), d["align"], pad=d.get("pad", True), width=d.get("width"))
    if t == "Constrain":
        return Constrain(build(d["child"]), d["width"])
    if t == "Columns":
        return Columns([build(c) for c in d["children"]], padding=tuple(d["padding"]), equal=d["equal"], expand=d["expand"],
                       column_first=d["column_first"], right_to_left=d.get("right_to_left", False), align=d.get("align"),
                       title=d.get("title"), width=d.get("width"))
    if t == "Group":
        return RenderGroup(*[build(c) for c in d["children"]], fit=d.get("fit", True))
    if t == "NoMeasure":
        return NoMeasure(build(d["child"]))
    if t == "Cast":
        return Cast(build(d["child"]))
    if t == "Tree":
        def rec(n: Desc):
            node = Tree(build(n["label"]), expanded=n["expanded"])
            for k in n["kids"]:
                node.children.append(rec(k))
            return node
        return rec(d)
    if t == "Table":
        table = Table(title=d.get("title"), caption=d.get("caption"), box=getattr(rbox, d["box"]) if d["box"] else None,
                      padding=tuple(d["padding"]), collapse_padding=d["collapse_padding"], pad_edge=d["pad_edge"],
                      expand=d["expand"], show_header=d["show_header"], show_footer=d["show_footer"], show_edge=d["show_edge"],
                      show_lines=d["show_lines"], leading=d["leading"], title_justify=d.get("title_justify", "center"),
                      min_width=d.get("min_width"))
        for c in d["cols"]:
            table.add_column(build(c["header"]), build(c["footer"]), justify=c["justify"], overflow=c["overflow"], ratio=c["ratio"])
        for r in d["rows"]:
            table.add_row(*[build(c) for c in r["cells"]], end_section=r.get("end_section", False))
        return table
    raise ValueError(t)


# ----------------------------------------------------------------------------------------------------------------------
# rendering and measuring (observation points of the anchors: Console.render, Measurement.get)

_CONSOLES: Dict[int, Any] = {}


def get_console(width: int):
    c = _CONSOLES.get(width)
    if c is None:
        from rich.console import Console

        c = Console(width=width, file=io.StringIO(), color_system=None, legacy_windows=False, force_terminal=False, _environ={})
        _CONSOLES[width] = c
    return c


def render_lines(renderable, width: int) -> List[str]:
    """the Segment stream of Console.render at `width`, split at newlines by us (no cropping anywhere at top level)"""
    console = get_console(width)
    options = console.options.update(width=width)
    text = "".join(seg.text for seg in console.render(renderable, options) if not seg.is_control)
    return text.split("\n")


def max_line_cells(lines: Iterable[str]) -> Tuple[int, str]:
    best, which = 0, ""
    for ln in lines:
        w = cells(ln)
        if w > best:
            best, which = w, ln
    return best, which


def measure(renderable, width: int) -> Tuple[int, int]:
    from rich.measure import Measurement

    m = Measurement.get(get_console(max(width, 1)), renderable, width)
    return m.minimum, m.maximum


# ----------------------------------------------------------------------------------------------------------------------
# time box


class CaseTimeout(BaseException):
    pass


@contextlib.contextmanager
def time_box(seconds: float):
    if threading.current_thread() is not threading.main_thread() or not hasattr(signal, "setitimer"):
        yield
        return

    def handler(signum, frame):
        raise CaseTimeout()

    old = signal.signal(signal.SIGALRM, handler)
    signal.setitimer(signal.ITIMER_REAL, seconds)
    try:
        yield
    finally:
        signal.setitimer(signal.ITIMER_REAL, 0)
        signal.signal(signal.SIGALRM, old)


def guarded(fn: Callable, seconds: float = 5.0):
    """-> (ok, value | error string)"""
    try:
        with time_box(seconds):
            return True, fn()
    except CaseTimeout:
        return False, f"timeout after {seconds}s"
    except RecursionError as e:
        return False, f"RecursionError: {str(e)[:80]}"
    except Exception as e:  # noqa
        import traceback

        tb = traceback.extract_tb(e.__traceback__)
        where = ""
        for fr in reversed(tb):
            if "/rich/" in fr.filename:
                where = f" at rich/{os.path.basename(fr.filename)}:{fr.lineno} in {fr.name}"
                break
        return False, f"{type(e).__name__}: {str(e)[:120]}{where}"


# ----------------------------------------------------------------------------------------------------------------------
# width sampling


def widths_from_smin(rng: random.Random, sm: int, extra: int = 7, hi: int = 200) -> List[int]:
    """all widths smin..smin+12, then `extra` sampled (stratified) up to 200, 200 itself included"""
    ws = [w for w in range(sm, sm + 13) if w <= hi]
    lo = sm + 13
    if lo <= hi:
        strata = [(lo, 40), (41, 80), (81, 120), (121, 160), (161, hi - 1)]
        picks = []
        for a, b in strata:
            a = max(a, lo)
            if a <= b:
                picks.append(rng.randint(a, b))
        while len(picks) < extra - 1:
            picks.append(rng.randint(lo, hi))
        picks = picks[: max(0, extra - 1)] + [hi]
        for w in picks:
            if w not in ws:
                ws.append(w)
    return ws


def widths_all(rng: random.Random, sm: int, lo: int, n_random: int, hi: int = 200) -> List[int]:
    """widths lo..hi sampled: the small ones, the neighbourhood of smin (below and above), random ones, hi"""
    ws = [w for w in (lo, lo + 1, lo + 2, lo + 3, lo + 4, sm - 3, sm - 2, sm - 1, sm, sm + 1, sm + 2, sm // 2) if lo <= w <= hi]
    for _ in range(n_random):
        ws.append(rng.randint(lo, hi) if rng.random() < 0.5 else rng.randint(lo, min(hi, max(lo, sm + 30))))
    ws.append(hi)
    out = []
    for w in ws:
        if w not in out:
            out.append(w)
    return out


# ----------------------------------------------------------------------------------------------------------------------
# minimiser (greedy, bounded)

# per kind: option -> values in order of preference (simplest first); the minimiser only moves towards the front
_DEFAULTS = {
    "Table": {"title": [None], "caption": [None], "show_footer": [False], "show_lines": [False], "collapse_padding": [False],
              "pad_edge": [True], "expand": [False], "show_header": [False], "show_edge": [True],
              "padding": [[0, 0, 0, 0], [0, 1, 0, 1]], "title_justify": ["center"], "box": ["ASCII", None], "leading": [0, 1, 2]},
    "Panel": {"title": [None], "padding": [[0, 0, 0, 0], [0, 1, 0, 1]], "expand": [True], "box": ["ASCII"],
              "title_align": ["center"], "width": [None]},
    "Padding": {"pad": [[0, 0, 0, 0], [0, 1, 0, 1], [0, 0, 0, 1], [0, 1, 0, 0]], "expand": [True]},
    "Align": {"align": ["left"], "pad": [True], "width": [None]},
    "Constrain": {"width": [None]},
    "Columns": {"title": [None], "padding": [[0, 0, 0, 0], [0, 1, 0, 1]], "equal": [False], "expand": [False],
                "column_first": [False], "right_to_left": [False], "align": [None]},
    "Group": {"fit": [True]},
    "Tree": {"expanded": [True]},
    "Text": {"justify": [None], "overflow": [None], "no_wrap": [None]},
    "Rule": {"title": [""], "characters": ["-"], "align": ["center"]},
    "Bar": {"width": [None]},
    "ProgressBar": {"width": [None], "pulse": [False]},
}


def _rank(prefs: List[Any], v: Any) -> int:
    return prefs.index(v) if v in prefs else len(prefs)


def _shrink_string(s: str) -> Iterator[str]:
    if not s:
        return
    yield ""
    parts = s.replace("\n", " \n ").split(" ")
    if len(parts) > 1:
        for i in range(len(parts)):
            cand = " ".join(parts[:i] + parts[i + 1:]).replace(" \n ", "\n").replace(" \n", "\n").replace("\n ", "\n")
            if cand != s:
                yield cand
    if len(s) > 1:
        yield s[: len(s) // 2]
        yield s[len(s) // 2:]
        yield s[:-1]
        yield s[1:]
    for word, repl in (("supercalifragilistic", "abcdef"), ("0123456789", "012")):
        if word in s:
            yield s.replace(word, repl)
    t = specnative.width_table()
    canon = "".join("a" if (t[ord(ch)] == 1 and not ch.isspace()) else ch for ch in s)
    if canon != s:
        yield canon


def shrinks(d: Desc) -> Iterator[Desc]:
    """strictly 'smaller or simpler' variants of d, most aggressive first"""
    t = d["t"]
    # 0. canonical leaves
    if not children(d) and t != "Table":  # (an empty group / empty columns is a leaf too)
        for canon in ({"t": "Text", "s": ""}, {"t": "Text", "s": "a"}):
            if d != canon and not (d == {"t": "Text", "s": ""}):
                yield dict(canon)
    # 1. hoist a child
    for c in children(d):
        yield c
    # 2. drop list elements
    if t in ("Columns", "Group"):
        for i in range(len(d["children"])):
            n = dict(d)
            n["children"] = d["children"][:i] + d["children"][i + 1:]
            yield n
    if t == "Tree":
        for i in range(len(d["kids"])):
            n = dict(d)
            n["kids"] = d["kids"][:i] + d["kids"][i + 1:]
            yield n
    if t == "Table":
        for i in range(len(d["rows"])):
            n = dict(d)
            n["rows"] = d["rows"][:i] + d["rows"][i + 1:]
            yield n
        for j in range(len(d["cols"])):
            n = dict(d)
            n["cols"] = d["cols"][:j] + d["cols"][j + 1:]
            n["rows"] = [dict(r, cells=r["cells"][:j] + r["cells"][j + 1:]) for r in d["rows"]]
            yield n
        for j, c in enumerate(d["cols"]):
            for k, prefs in (("ratio", [None, 1, 2]), ("justify", ["left"]), ("overflow", ["ellipsis"])):
                if c.get(k) == 0 and k == "ratio":
                    continue  # ratio 0 is its own thing, not a bigger ratio
                for v in prefs[: _rank(prefs, c.get(k))]:
                    n = dict(d)
                    n["cols"] = [dict(cc) for cc in d["cols"]]
                    n["cols"][j][k] = v
                    yield n
        for i, r in enumerate(d["rows"]):
            if r["cells"]:  # a short row is padded by add_row
                n = dict(d)
                n["rows"] = [dict(rr) for rr in d["rows"]]
                n["rows"][i]["cells"] = r["cells"][:-1]
                yield n
        for i, r in enumerate(d["rows"]):
            if r.get("end_section"):
                n = dict(d)
                n["rows"] = [dict(rr) for rr in d["rows"]]
                n["rows"][i]["end_section"] = False
                yield n
    # 3. options towards their simplest value
    for k, prefs in _DEFAULTS.get(t, {}).items():
        if k in d:
            for v in prefs[: _rank(prefs, d[k])]:
                n = dict(d)
                n[k] = v
                yield n
    if t == "Text":
        for k in ("justify", "overflow", "no_wrap"):
            if k in d and d[k] is None:
                n = dict(d)
                del n[k]
                yield n
    # 4. strings
    for k in ("s", "title", "caption"):
        if isinstance(d.get(k), str) and d[k]:
            for s in _shrink_string(d[k]):
                if k in ("title", "caption") and t != "Rule" and not s:
                    continue
                n = dict(d)
                n[k] = s
                yield n
    # 5. shrink inside a child
    if t in ("Panel", "Padding", "Align", "Constrain", "NoMeasure", "Cast"):
        for s in shrinks(d["child"]):
            yield dict(d, child=s)
    elif t in ("Columns", "Group"):
        for i, c in enumerate(d["children"]):
            for s in shrinks(c):
                yield dict(d, children=d["children"][:i] + [s] + d["children"][i + 1:])
    elif t == "Tree":
        for s in shrinks(d["label"]):
            yield dict(d, label=s)
        for i, c in enumerate(d["kids"]):
            for s in shrinks(c):
                if s["t"] == "Tree":
                    yield dict(d, kids=d["kids"][:i] + [s] + d["kids"][i + 1:])
    elif t == "Table":
        for j, c in enumerate(d["cols"]):
            for part in ("header", "footer"):
                for s in shrinks(c[part]):
                    n = dict(d)
                    n["cols"] = [dict(cc) for cc in d["cols"]]
                    n["cols"][j][part] = s
                    yield n
        for i, r in enumerate(d["rows"]):
            for j, c in enumerate(r["cells"]):
                for s in shrinks(c):
                    n = dict(d)
                    n["rows"] = [dict(rr) for rr in d["rows"]]
                    n["rows"][i]["cells"] = r["cells"][:j] + [s] + r["cells"][j + 1:]
                    yield n


def minimise(d: Desc, w: int, fails_at: Callable[[Desc, Any, int], bool], min_width: Callable[[Desc], int],
             max_evals: int = 1500, max_seconds: float = 5.0, extra_widths: Optional[Callable[[Desc], List[int]]] = None
             ) -> Tuple[Desc, int]:
    """greedy descent over shrinks().  fails_at(desc, renderable, width) -> bool (same failure still there);
    a candidate is tried at the current failing width, at the same offset from its own smin, and at the first widths of
    its domain (min_width(desc) is the smallest width the clause speaks about)."""
    t0 = time.time()
    evals = 0
    cur, cur_w = d, w
    progress = True
    while progress and evals < max_evals and time.time() - t0 < max_seconds:
        progress = False
        sm_cur = smin(cur)
        for cand in shrinks(cur):
            if evals >= max_evals or time.time() - t0 > max_seconds:
                break
            if not valid(cand):
                continue
            ok, r = guarded(lambda: build(cand), 2.0)
            if not ok:
                continue
            lo = min_width(cand)
            sm = smin(cand)
            ws: List[int] = []
            for x in [cur_w, sm + (cur_w - sm_cur), lo, lo + 1, sm, sm + 1] + (extra_widths(cand) if extra_widths else []):
                if x >= lo and x not in ws:
                    ws.append(x)
            hit = None
            for x in ws:
                evals += 1
                try:
                    if fails_at(cand, r, x):
                        hit = x
                        break
                except CaseTimeout:
                    pass
            if hit is not None:
                cur, cur_w = copy.deepcopy(cand), hit
                progress = True
                break
    # the smallest failing width of the minimal tree (bounded scan)
    ok, r = guarded(lambda: build(cur), 2.0)
    if ok:
        for x in range(min_width(cur), min(cur_w, min_width(cur) + 40)):
            try:
                if fails_at(cur, r, x):
                    cur_w = x
                    break
            except CaseTimeout:
                break
    return cur, cur_w


# ----------------------------------------------------------------------------------------------------------------------
# pool runner


def n_procs() -> int:
    try:
        want = int(os.environ.get("VF_PROCS", "16"))
    except ValueError:
        want = 16
    return max(1, min(want, 16, os.cpu_count() or 1))


def run_pool(work: Callable, jobs: List[Any]) -> List[Any]:
    """ordered map over jobs in up to 16 forked processes (each job carries its own seed, so the
    result does not depend on the number of processes)"""
    procs = min(n_procs(), max(1, len(jobs)))
    if procs <= 1:
        return [work(j) for j in jobs]
    import multiprocessing as mp

    ctx = mp.get_context("fork")
    with ctx.Pool(procs) as pool:
        return pool.map(work, jobs, chunksize=1)


def chunk(n: int, size: int) -> List[Tuple[int, int]]:
    return [(a, min(n, a + size)) for a in range(0, n, size)]


def short(d: Any, limit: int = 600) -> Any:
    s = json.dumps(d, ensure_ascii=False, sort_keys=True)
    return d if len(s) <= limit else s[:limit] + "...(%d chars)" % len(s)
