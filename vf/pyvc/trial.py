"""developer driver: python3-vt -m vf.pyvc.trial <module.func substring> [-v]"""
import sys, time, traceback
from contracts import load_all
from vf.pyvc.verify import Exec, generate_lemma
from vf.pyvc.solve import discharge
from vf.pyvc.sorts import Unsupported

def main():
    pat = sys.argv[1] if len(sys.argv) > 1 else ""
    verbose = "-v" in sys.argv
    R = load_all()
    for c in R.contracts.values():
        if pat not in c.qual or c.inline or c.trusted or not c.verify:
            continue
        t0 = time.time()
        try:
            obs = Exec(R, c).generate()
        except Unsupported as e:
            print(f"UNSUPPORTED {c.qual}: {e}")
            if verbose: traceback.print_exc()
            continue
        res = discharge(obs)
        covers = {}
        for o, r in zip(obs, res):
            if o.expect_sat:
                covers.setdefault(o.name, []).append(r["verdict"])
        dead = {n for n, vs in covers.items() if all(v == "unsat" for v in vs)}
        bad = [(o, r) for o, r in zip(obs, res) if (r["verdict"] != "unsat" and not o.expect_sat) or (o.expect_sat and o.name in dead)]
        print(f"{c.qual}: {len(obs)} obligations, {len(bad)} open, gen+solve {time.time()-t0:.1f}s, max {max((r['time'] for r in res), default=0):.2f}s")
        for o, r in zip(obs, res):
            if r["time"] > 3: print("   SLOW %.1fs" % r["time"], o.name, r["solver"], r["reason"][:80])
        for o, r in bad[:12]:
            print("   OPEN", o.name, "L%d" % o.line, r["verdict"], r["solver"], o.text[:90], r["reason"][:100])
            import os, re as _re
            if os.environ.get("VF_DUMP_OPEN"):
                fn = os.path.join(os.environ["VF_DUMP_OPEN"], _re.sub(r"[^A-Za-z0-9_.]+", "_", o.name) + "_p%d.txt" % o.path)
                with open(fn, "w") as fh:
                    for i, a in enumerate(o.assumptions):
                        fh.write("%d %s\n" % (i, _re.sub(r"\s+", " ", str(a))))
                    fh.write("GOAL %s\n" % _re.sub(r"\s+", " ", str(o.goal)))
            if verbose and r.get("model"):
                print("      model:", {k: v for k, v in list(r["model"].items())[:30]})
    for l in R.lemmas.values():
        if pat not in "lemma." + l.name: continue
        obs, _ = generate_lemma(R, l)
        res = discharge(obs)
        bad = [(o, r) for o, r in zip(obs, res) if (r["verdict"] != "unsat" and not o.expect_sat) or (o.expect_sat and r["verdict"] == "unsat")]
        print(f"lemma.{l.name}: {len(obs)} obligations, {len(bad)} open")
        for o, r in bad[:12]:
            print("   OPEN", o.name, r["verdict"], o.text[:90], r["reason"][:100])
main()
