"""Monitor contracts for `with self.<lock>:` regions (DESIGN 4.9).

On the outermost acquisition the protected state is havocked (other threads may have run) and the
monitor invariant assumed; at every exit of the region the invariant is asserted.  Reads and writes of a
protected field outside a region holding the lock are lock-discipline obligation failures.  The
meta-theorem "monitor invariants + discipline => the invariant holds in every interleaving" is classical
and assumed (A8), not machine-checked."""
from __future__ import annotations

import z3

from .sorts import *  # noqa
from .state import Exc, State


class MonitorMixin:
    def monitor_for(self, c0, st):
        """monitor spec of the top-level contract whose lock field holds the value c0"""
        top = self.contract_stack[0]
        mon = top.monitor
        if not mon:
            return None
        me = st.env.get("self")
        obj = self.deref(me, st) if me is not None else None
        if not isinstance(obj, ObjState) or mon["lock"] not in obj.fields:
            return None
        lv = self.deref(obj.fields[mon["lock"]], st)
        if isinstance(lv, V) and isinstance(c0, V) and lv.t.eq(c0.t):
            return mon
        return None

    def with_lock(self, cm, c0, target, body, st):
        if not (isinstance(c0, V) and c0.sort.kind == "opaque" and c0.sort.name in ("RLock", "Lock")):
            return None
        return self._with_lock(c0, body, st)

    def _with_lock(self, c0, body, st):
        mon = self.monitor_for(c0, st)
        if mon is None:
            self.notes.append("lock region without a monitor contract: executed as a plain block")
            yield from self.exec_block(body, st)
            return
        name = mon["lock"]
        outer = name not in st.held
        if outer:
            self.flush_writebacks(st)
            me = st.env["self"]
            obj = self.deref(me, st)
            decl = self.U.records[obj.cls]
            for f in mon.get("protects", []):
                obj.fields[f] = self.fresh(decl.field_sort(f), f"{f}@acquire", st)
            st.writebacks = []
            for g in mon.get("ghost_monotone", []):
                oldv = st.env[g]
                newv = self.fresh(self.sort_of(oldv, st), f"{g}@acquire", st, as_ref=False)
                st.assume(newv.t >= oldv.t)
                st.env[g] = newv
            for inv in mon.get("invariant", []):
                st.assume(self.spec_bool(inv, {}, st))
            snap = st.snapshot()
            st.env["__acq__"] = VFunc("snapshot", data=snap)
        st.held.append(name)
        for sig, s in self.exec_block(body, st):
            if s.held and s.held[-1] == name:
                s.held.pop()
            if outer:
                self.flush_writebacks(s)
                for k, inv in enumerate(mon.get("invariant", [])):
                    self.oblige(s, self.spec_bool(inv, {}, s), "monitor.release", f"monitor invariant at release: {inv}",
                                name=f"{self.contract_stack[0].qual}::monitor.{name}.release[{k}]")
            yield sig, s

    # lock discipline ------------------------------------------------------------------------
    def _protected(self, obj, attr, st):
        top = self.contract_stack[0]
        mon = top.monitor
        if not mon or obj.cls != mon.get("cls") or attr not in mon.get("protects", []):
            return None
        return mon

    def check_field_write(self, obj, attr, st):
        mon = self._protected(obj, attr, st)
        if mon is not None and mon["lock"] not in st.held and not self.spec_mode:
            self.oblige(st, z3.BoolVal(False), "lock-discipline", f"write to {obj.cls}.{attr} without holding {mon['lock']}",
                        name=f"{self.contract_stack[0].qual}::lock-discipline")

    def check_field_read(self, obj, attr, st):
        mon = self._protected(obj, attr, st)
        if mon is not None and mon["lock"] not in st.held and not self.spec_mode:
            self.oblige(st, z3.BoolVal(False), "lock-discipline", f"read of {obj.cls}.{attr} without holding {mon['lock']}",
                        name=f"{self.contract_stack[0].qual}::lock-discipline")
