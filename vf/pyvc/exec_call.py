"""Name lookup, attribute access, calls (contracts / inlining / builtins), iterables, comprehensions."""
from __future__ import annotations

import ast
from typing import Any, Dict, List, Optional

import z3

from . import seqs, source
from .contracts import parse_expr
from .sorts import *  # noqa
from .state import Exc, State, new_ref, exc_is, EXC_PARENTS


class Iter:
    """finite iterable: symbolic length + python-level element getter"""

    def __init__(self, length, get, desc="iter"):
        self.length = length
        self.get = get
        self.desc = desc


BUILTIN_NAMES = {
    "len", "min", "max", "sum", "abs", "int", "float", "round", "str", "range", "zip", "enumerate", "reversed",
    "list", "tuple", "isinstance", "ord", "chr", "divmod", "bool", "any", "all", "sorted", "iter", "next",
    "ceil", "floor", "sqrt", "hash", "getattr", "cast", "dict", "set", "print", "repr", "hasattr", "callable", "super",
}
SPEC_BUILTINS = {"old", "acq", "line_cells", "joined", "joinlen", "joincells", "implies", "cells", "width_of", "lsum", "fresh_result", "is_ref", "seq_eq", "iff", "ite", "prefix_pad", "char_at", "count_true", "tail_alias"}


class CallMixin:
    # ------------------------------------------------------------------ names
    def lookup(self, name: str, st: State):
        if name in st.env:
            return st.env[name]
        if self.spec_mode and name in self.reg.specfns:
            return VFunc("specfn", name)
        if self.spec_mode and name in SPEC_BUILTINS:
            return VFunc("builtin", name)
        if name in self.reg.ufuns:
            return VFunc("ufun", name)
        return self.lookup_module(self.cur_mod, name)

    def lookup_module(self, mod: source.ModuleInfo, name: str):
        if mod is not None:
            if name in mod.funcs:
                return VFunc("func", name, data=mod.name)
            if name in mod.classes:
                return VFunc("class", name, data=mod.name)
            if name in mod.consts:
                return self.const_value(mod, mod.consts[name], name)
            if name in mod.imports:
                m2, n2 = mod.imports[name]
                if n2 is None:
                    return VFunc("module", m2)
                if (m2, n2) in (("rich._loop", "loop_last"), ("rich._loop", "loop_first")):
                    # generator helpers with a trusted iterable contract (bi_loop_last / bi_loop_first)
                    return VFunc("builtin", n2)
                if m2.startswith("rich"):
                    try:
                        sub = source.load(m2)
                    except FileNotFoundError:
                        sub = None
                    if sub is not None:
                        if n2 in sub.funcs or n2 in sub.classes or n2 in sub.consts or n2 in sub.imports:
                            return self.lookup_module(sub, n2)
                        # `from . import errors`
                        try:
                            source.load(m2 + "." + n2)
                            return VFunc("module", m2 + "." + n2)
                        except FileNotFoundError:
                            pass
                if n2 in BUILTIN_NAMES or (m2, n2) in (("math", "ceil"), ("math", "sqrt"), ("math", "floor"), ("typing", "cast"), ("time", "time"), ("random", "randint"), ("operator", "itemgetter"), ("functools", "lru_cache"), ("itertools", "zip_longest")):
                    return VFunc("builtin", n2)
                return VFunc("external", f"{m2}.{n2}")
        if name in BUILTIN_NAMES:
            return VFunc("builtin", name)
        if name == "NotImplemented":
            return VFunc("notimplemented", name)
        if name in EXC_PARENTS:
            return VFunc("excclass", name)
        if name in self.reg.specfns:
            return VFunc("specfn", name)
        raise Unsupported(f"unknown name {name!r}")

    def const_value(self, mod: source.ModuleInfo, node, name):
        """value of a module-level constant assignment (literals, simple arithmetic, known tables)"""
        key = (mod.name, name)
        if key in self.reg_const_overrides():
            if key not in self._const_cache:
                self._const_cache[key] = self.reg_const_overrides()[key](self)
            return self._const_cache[key]
        try:
            v = ast.literal_eval(node)
        except Exception:
            # simple constant expressions (e.g. 1024 * 4) and aliases
            if isinstance(node, ast.Name):
                return self.lookup_module(mod, node.id)
            if isinstance(node, ast.Call) and isinstance(node.func, ast.Name) and node.func.id in set(mod.classes) | set(mod.imports):
                return VFunc("constobj", name, data=(mod.name, node))
            raise Unsupported(f"module constant {mod.name}.{name} is not a literal")
        return self.py_to_val(v)

    def reg_const_overrides(self):
        return getattr(self.reg, "const_overrides", {})

    def py_to_val(self, v):
        if v is None:
            return V(NONE, None)
        if isinstance(v, bool):
            return V(BOOL, z3.BoolVal(v))
        if isinstance(v, int):
            return V(INT, self.I(v))
        if isinstance(v, float):
            return V(REAL, z3.RealVal(repr(v)))
        if isinstance(v, str):
            return seqs.lit_str(v)
        if isinstance(v, tuple):
            return VTuple([self.py_to_val(x) for x in v])
        if isinstance(v, dict):
            return VFunc("pydict", data=v)
        if isinstance(v, list):
            return VFunc("pylist", data=v)
        raise Unsupported(f"constant of type {type(v).__name__}")

    # ------------------------------------------------------------------ tail aliases (`append = lines[-1].append`)
    # The alias lives in a heap cell ("tailalias", container ref, the container's VSeq value when the alias was valid).
    # Every list mutation replaces the container's VSeq object, so the alias is *fresh* iff the container's current
    # value is that very object; a call through a stale alias is outside the modelled subset (Unsupported), never
    # mis-modelled.  The inner lists are values here: sound because the inner list is reachable only through the
    # container and this alias (it is created by the subscript expression itself).
    def tail_alias_new(self, cont, st):
        from .state import new_ref
        cur = st.heap[cont.ref]
        n = cur.length()
        for e, s2 in self.guard(st, n >= 1, "IndexError", "list index -1 of a non-empty list"):
            if e is not None:
                yield e, s2
                continue
            ar = new_ref()
            s2.heap[ar] = ("tailalias", cont.ref, s2.heap[cont.ref])
            yield VFunc("tailappend", "append", obj=VRef(ar)), s2

    def tail_alias_call(self, f, args, st):
        cell = st.heap.get(f.obj.ref)
        if not (isinstance(cell, tuple) and cell[0] == "tailalias"):
            raise Unsupported("call through a tail alias that the loop invariant does not re-establish (tail_alias(f, xs))")
        _, cref, stamp = cell
        cur = st.heap[cref]
        if cur is not stamp:
            raise Unsupported("call through a stale tail alias (the container changed since `xs[-1].append` was taken)")
        if len(args) != 1:
            raise Unsupported("tail alias arity")
        n = cur.length()
        ez = self.U.z3sort(cur.elem)
        last = self.from_term(seqs.seq_elem(cur, z3.simplify(n - 1)), cur.elem, st)
        inner_elem = cur.elem.args[0]
        x = self.to_term(args[0], inner_elem, st) if inner_elem.kind != "str" else None
        if inner_elem.kind == "str":
            piece = Piece("lit", items=[self.to_term(args[0], inner_elem, st)])
        else:
            piece = Piece("lit", items=[x])
        new_last = VSeq(last.elem if last.elem.kind != "any" else inner_elem, list(last.pieces) + [piece])
        facts: list = []
        head = seqs.slice_(cur, z3.IntVal(0), z3.simplify(n - 1), facts, ez)
        for fct in facts:
            st.assume(fct)
        new = VSeq(cur.elem, list(head.pieces) + [Piece("lit", items=[self.to_term(new_last, cur.elem, st)])])
        st.heap[cref] = new
        st.heap[f.obj.ref] = ("tailalias", cref, new)
        yield V(NONE, None), st

    # ------------------------------------------------------------------ attributes
    def class_of_record(self, name: str):
        """(ModuleInfo, class name) of the Python class a record sort stands for"""
        decl = self.U.records[name]
        py = getattr(decl, "pyclass", None)
        if py is None:
            return None, None
        modname, cls = py.rsplit(".", 1)
        return source.load(modname), cls

    def get_attr(self, base, attr: str, st: State):
        b = self.deref(base, st)
        if isinstance(b, V) and b.sort.kind == "opt":
            b = self.deref(self.unwrap_opt(b, st, f".{attr}"), st)
        if attr == "__new__" and (isinstance(b, ObjState) or (isinstance(b, V) and b.sort.kind == "rec") or (isinstance(b, VFunc) and b.kind == "class")):
            yield VFunc("builtin", "__new__"), st
            return
        if isinstance(b, ObjState):
            if attr in b.fields:
                if hasattr(self, "check_field_read"):
                    self.check_field_read(b, attr, st)
                yield b.fields[attr], st
                return
            yield from self.class_attr(b.cls, base, attr, st)
            return
        if isinstance(b, V) and b.sort.kind == "rec":
            decl = self.U.records[b.sort.name]
            if decl.has(attr):
                yield self.rec_field(b, attr, st), st
                return
            yield from self.class_attr(b.sort.name, b, attr, st)
            return
        if isinstance(b, (VSeq, VTuple)) or (isinstance(b, V) and b.sort.kind in ("str", "list")):
            yield VFunc("bound", attr, obj=base), st
            return
        if isinstance(b, VFunc):
            if b.kind == "class":
                mod = source.load(b.data)
                if (b.name, attr) in mod.class_consts:
                    yield self.class_const(mod, b.name, attr), st
                    return
                if f"{b.name}.{attr}" in mod.funcs:
                    yield VFunc("func", f"{b.name}.{attr}", data=mod.name, obj=("cls", b)), st
                    return
            if b.kind == "module" and b.name == "sys" and attr in ("stdout", "stderr"):
                # process-wide streams: ghost globals (declared in the contract's `ghost` clause)
                key = f"ghost_sys_{attr}"
                if key not in st.env:
                    raise Unsupported(f"sys.{attr} used but {key} is not declared as a ghost global")
                yield st.env[key], st
                return
            if b.kind == "module":
                mod = source.load(b.name)
                yield self.lookup_module(mod, attr), st
                return
            if b.kind in ("pydict", "dictval"):
                yield VFunc("bound", attr, obj=base), st
                return
            if b.kind == "constobj":
                yield VFunc("bound", attr, obj=base), st
                return
        if isinstance(b, V) and b.sort.kind in ("opaque", "dict"):
            yield VFunc("bound", attr, obj=b), st
            return
        raise Unsupported(f"attribute .{attr} of {getattr(b, 'sort', None) or getattr(b, 'kind', type(b).__name__)}")

    def class_const(self, mod, cls, attr):
        node = mod.class_consts[(cls, attr)]
        try:
            return self.py_to_val(ast.literal_eval(node))
        except Unsupported:
            raise
        except Exception:
            raise Unsupported(f"class constant {cls}.{attr}")

    def class_attr(self, clsname: str, recv, attr: str, st: State):
        mod, cls = self.class_of_record(clsname)
        if mod is None:
            c = self.reg.contracts.get(("<builtin>", f"{clsname}.{attr}"))
            if c is not None:
                yield VFunc("cmethod", attr, obj=recv, data=c), st
                return
            raise Unsupported(f"record {clsname} has no Python class for attribute {attr}")
        q = f"{cls}.{attr}"
        if q in mod.funcs:
            fn = mod.funcs[q]
            decos = mod.decorators(fn)
            if "property" in decos:
                yield from self.call_function(mod, q, [recv], {}, st)
            else:
                yield VFunc("func", q, data=mod.name, obj=("self", recv)), st
            return
        if (cls, attr) in mod.class_consts:
            yield self.class_const(mod, cls, attr), st
            return
        c = self.reg.contracts.get(("<builtin>", f"{clsname}.{attr}"))
        if c is not None:
            yield VFunc("cmethod", attr, obj=recv, data=c), st
            return
        raise Unsupported(f"{clsname}.{attr}: no such field / method")

    def call_dunder(self, recv, name, args, st):
        if name is None:
            raise Unsupported("operator on record")
        mod, cls = self.class_of_record(recv.sort.name)
        yield from self.call_function(mod, f"{cls}.{name}", [recv] + args, {}, st)

    # ------------------------------------------------------------------ calls
    def ev_Call(self, node, st):
        # spec-mode special forms that must not evaluate their arguments eagerly
        if isinstance(node.func, ast.Name):
            fname = node.func.id
            if self.spec_mode and fname == "old":
                if st.old is None:
                    raise Unsupported("old() outside a postcondition")
                olds = st.old.copy()
                outs = list(self.ev(node.args[0], olds))
                if len(outs) != 1:
                    raise Unsupported("old() expression forks")
                val, os_ = outs[0]
                # references must be resolved in the *old* heap (the value, not the cell)
                if isinstance(val, VRef):
                    cur = self.deref(val, os_)
                    if isinstance(cur, ObjState):
                        so_ = Sort("rec", (), cur.cls)
                        val = V(so_, self.to_term(cur, so_, os_))
                    else:
                        val = cur
                for f_ in os_.pc[len(st.old.pc):]:
                    st.assume(f_)
                yield val, st
                return
            if self.spec_mode and fname == "acq":
                snap = st.env.get("__acq__")
                if snap is None:
                    raise Unsupported("acq() outside a function with a monitor region")
                olds = snap.data.copy()
                outs = list(self.ev(node.args[0], olds))
                if len(outs) != 1:
                    raise Unsupported("acq() expression forks")
                val, os_ = outs[0]
                if isinstance(val, VRef):
                    cur = self.deref(val, os_)
                    if isinstance(cur, ObjState):
                        so_ = Sort("rec", (), cur.cls)
                        val = V(so_, self.to_term(cur, so_, os_))
                    else:
                        val = cur
                yield val, st
                return
            if fname in ("all", "any", "sum") and node.args and isinstance(node.args[0], ast.GeneratorExp) and fname not in st.env:
                yield from self.quantified(fname, node.args[0], st, node.args[1:])
                return
            if fname in ("min", "max") and len(node.args) == 1 and not node.keywords and isinstance(node.args[0], ast.GeneratorExp) and fname not in st.env:
                yield from self.minmax_gen(fname, node.args[0], st)
                return
            if fname in ("min", "max") and node.args and isinstance(node.args[0], ast.GeneratorExp):
                raise Unsupported("min/max over a generator expression with key/default")
        for f, s in self.ev(node.func, st):
            if isinstance(f, Exc):
                yield f, s
                continue
            arg_nodes = []
            star = None
            for a in node.args:
                if isinstance(a, ast.Starred):
                    star = a
                else:
                    arg_nodes.append(a)
            kw_nodes = [k.value for k in node.keywords]
            if any(k.arg is None for k in node.keywords):
                raise Unsupported("**kwargs call")
            for vals, s2 in self.ev_list(arg_nodes + kw_nodes + ([star.value] if star else []), s):
                if isinstance(vals, Exc):
                    yield vals, s2
                    continue
                args = vals[: len(arg_nodes)]
                kwargs = {k.arg: v for k, v in zip(node.keywords, vals[len(arg_nodes): len(arg_nodes) + len(kw_nodes)])}
                if star is not None:
                    sv = self.deref(vals[-1], s2)
                    if isinstance(sv, V) and sv.sort.kind == "rec":
                        decl = self.U.records[sv.sort.name]
                        sv = VTuple([self.rec_field(sv, f, s2) for f in decl.positional])
                    if isinstance(sv, V) and sv.sort.kind == "tuple":
                        sv = self.from_term(sv.t, sv.sort, s2)
                    if not isinstance(sv, VTuple):
                        raise Unsupported("*args of unknown length")
                    args = args + sv.items
                yield from self.call_value(f, args, kwargs, s2, node)

    def call_value(self, f, args, kwargs, st, node=None):
        if not isinstance(f, VFunc):
            fv = self.deref(f, st)
            if isinstance(fv, V) and fv.sort.kind == "opt":
                fv = self.deref(self.unwrap_opt(fv, st, "callee"), st)
            if isinstance(fv, V) and fv.sort.kind == "dict":
                # a field holding a bound `dict.get` (represented by the dict itself)
                yield from self._dict_method(f, fv, "get", args, kwargs, st)
                return
            if isinstance(fv, V) and fv.sort.kind == "opaque":
                c = self.reg.contracts.get(("<opaque>", f"{fv.sort.name}.__call__"))
                if c is None:
                    raise Unsupported(f"call of opaque value of sort {fv.sort} (no contract)")
                yield from self.apply_contract(c, None, [fv] + list(args), kwargs, st)
                return
            raise Unsupported(f"call of non-function value {type(fv).__name__}")
        k = f.kind
        if k == "builtin":
            yield from self.call_builtin(f.name, args, kwargs, st, node)
        elif k == "bound":
            yield from self.call_method(f.obj, f.name, args, kwargs, st)
        elif k == "tailappend":
            yield from self.tail_alias_call(f, args, st)
        elif k == "func":
            mod = source.load(f.data)
            if f.obj is not None:
                tag, recv = f.obj
                fn = mod.funcs[f.name]
                decos = mod.decorators(fn)
                if tag == "self" or (tag == "cls" and "classmethod" in decos):
                    args = [recv] + list(args)
            yield from self.call_function(mod, f.name, args, kwargs, st)
        elif k == "class":
            yield from self.construct(f, args, kwargs, st)
        elif k == "specfn":
            sf = self.reg.specfns[f.name]
            if len(args) != len(sf.params):
                raise Unsupported(f"spec function {f.name}: arity")
            self.spec_mode += 1
            try:
                sub = st.copy()
                sub.env = dict(zip(sf.params, args))
                sub.env["__specfn__"] = V(BOOL, z3.BoolVal(True))
                outs = list(self.ev(parse_expr(sf.body), sub))
            finally:
                self.spec_mode -= 1
            if len(outs) != 1 or isinstance(outs[0][0], Exc):
                raise Unsupported(f"spec function {f.name} forks or raises")
            for fct in outs[0][1].pc[len(st.pc):]:
                st.assume(fct)
            yield outs[0][0], st
        elif k == "lambda":
            lam, env = f.data
            sub = st.copy()
            saved = st.env
            sub.env = dict(env)
            for p, a in zip([a.arg for a in lam.args.args], args):
                sub.env[p] = a
            for v, s2 in self.ev(lam.body, sub):
                s2.env = saved
                yield v, s2
        elif k == "local":
            yield from self.call_local(f, args, kwargs, st)
        elif k == "ufun":
            terms, sorts = [], []
            for a in args:
                a0 = self.deref(a, st)
                so = self.sort_of(a0, st)
                terms.append(self.to_term(a0, so, st))
                sorts.append(self.U.z3sort(so))
            rs = self.parse_sort(self.reg.ufuns[f.name])
            fn = z3.Function(f"uf_{f.name}", *sorts, self.U.z3sort(rs))
            yield self.from_term(fn(*terms), rs, st), st
        elif k == "cmethod":
            yield from self.apply_contract(f.data, None, [f.obj] + list(args), kwargs, st)
        elif k == "excclass":
            yield VFunc("excinst", f.name, data=args), st
        elif k == "external":
            c = self.reg.contracts.get(("<external>", f.name))
            if c is None:
                raise Unsupported(f"external function {f.name} has no (trusted) contract")
            yield from self.apply_contract(c, None, args, kwargs, st)
        else:
            raise Unsupported(f"call of {k} {f.name}")

    # ------------------------------------------------------------------ user functions
    def bind_params(self, fn: ast.FunctionDef, args, kwargs, st, mod) -> Dict[str, Any]:
        a = fn.args
        names = [x.arg for x in a.posonlyargs + a.args]
        env: Dict[str, Any] = {}
        if len(args) > len(names) and a.vararg is None:
            raise Unsupported(f"too many positional arguments for {fn.name}")
        for n, v in zip(names, args):
            env[n] = v
        if a.vararg is not None:
            env[a.vararg.arg] = VTuple(list(args[len(names):]))
        defaults = a.defaults
        for n, d in zip(names[len(names) - len(defaults):], defaults):
            if n not in env and n not in kwargs:
                env[n] = self.default_value(d, mod, st)
        for ka, d in zip(a.kwonlyargs, a.kw_defaults):
            if ka.arg in kwargs:
                env[ka.arg] = kwargs[ka.arg]
            elif d is not None:
                env[ka.arg] = self.default_value(d, mod, st)
        for k, v in kwargs.items():
            if k in names or k in [x.arg for x in a.kwonlyargs]:
                env[k] = v
            elif a.kwarg is not None:
                raise Unsupported("**kwargs parameter")
            else:
                raise Unsupported(f"unexpected keyword {k} for {fn.name}")
        for n in names + [x.arg for x in a.kwonlyargs]:
            if n not in env:
                raise Unsupported(f"missing argument {n} for {fn.name}")
        return env

    def default_value(self, node, mod, st):
        saved_mod = self.cur_mod
        self.cur_mod = mod
        try:
            sub = State()
            outs = list(self.ev(node, sub))
        finally:
            self.cur_mod = saved_mod
        if len(outs) != 1:
            raise Unsupported("default value forks")
        for f in outs[0][1].pc:
            st.assume(f)
        st.heap.update(outs[0][1].heap)
        return outs[0][0]

    def call_function(self, mod: source.ModuleInfo, qual: str, args, kwargs, st):
        c = self.reg.contracts.get((mod.name, qual))
        fn = mod.funcs.get(qual)
        if c is not None and not c.inline:
            yield from self.apply_contract(c, fn, args, kwargs, st)
            return
        if c is None or not c.inline:
            raise Unsupported(f"call to {mod.name}.{qual} which has no contract")
        if self.spec_mode:
            raise Unsupported(f"inlined function {qual} called from a spec expression")
        if self.inline_depth > 6:
            raise Unsupported("inline depth")
        env = self.bind_params(fn, args, kwargs, st, mod)
        for k_, v_ in st.env.items():
            if k_.startswith("ghost_") or k_.startswith("__"):
                env.setdefault(k_, v_)
        saved = (st.env, self.cur_mod, self.cur_fn, self.cur_loopbase)
        sub = st
        sub.env = env
        self.cur_mod = mod
        self.cur_loopbase = None
        self.inline_depth += 1
        self.callees_used.add(f"{mod.name}.{qual} (inlined, sha256 {mod.sha(fn)[:12]})")
        try:
            outs = list(self.exec_block(self.body_of(fn), sub))
        finally:
            self.inline_depth -= 1
            self.cur_mod, self.cur_fn, self.cur_loopbase = saved[1], saved[2], saved[3]
        for sig, s2 in outs:
            ghosts = {k_: v_ for k_, v_ in s2.env.items() if k_.startswith("ghost_") or k_ in ("__acq__", "__yielded__")}
            s2.env = dict(saved[0])
            s2.env.update(ghosts)
            if sig[0] == "return":
                yield sig[1], s2
            elif sig[0] == "next":
                yield V(NONE, None), s2
            elif sig[0] == "raise":
                yield sig[1], s2
            else:
                raise Unsupported("break/continue escaping a function")

    def body_of(self, fn):
        body = fn.body
        if body and isinstance(body[0], ast.Expr) and isinstance(body[0].value, ast.Constant) and isinstance(body[0].value.value, str):
            body = body[1:]
        return body

    def call_local(self, f: VFunc, args, kwargs, st):
        fn, closure_env = f.data
        env = self.bind_params(fn, args, kwargs, st, self.cur_mod)
        saved = st.env
        # closures capture by reference: visible names are the enclosing frame's current bindings
        st.env = dict(saved)
        st.env.update(env)
        self.inline_depth += 1
        try:
            outs = list(self.exec_block(self.body_of(fn), st))
        finally:
            self.inline_depth -= 1
        for sig, s2 in outs:
            s2.env = dict(saved)
            if sig[0] == "return":
                yield sig[1], s2
            elif sig[0] == "next":
                yield V(NONE, None), s2
            elif sig[0] == "raise":
                yield sig[1], s2
            else:
                raise Unsupported("break/continue escaping a function")

    # ------------------------------------------------------------------ contracts at call sites
    def apply_contract(self, c, fn, args, kwargs, st):
        """Modular call: assert requires, havoc modifies, assume ensures, fork raises."""
        if fn is not None:
            mod = source.load(c.module)
            shared = {}
            if c.shared_defaults:
                names = [x.arg for x in fn.args.posonlyargs + fn.args.args]
                for p_, clauses in c.shared_defaults.items():
                    if p_ not in kwargs and (p_ not in names or names.index(p_) >= len(args)):
                        obj = self.fresh(self.parse_sort(c.params[p_]), f"shared.{p_}", st, as_ref=True)
                        kwargs = dict(kwargs, **{p_: obj})
                        shared[p_] = clauses
            env = self.bind_params(fn, args, kwargs, st, mod)
            for p_, clauses in shared.items():
                for cl in clauses:
                    st.assume(self.spec_bool(cl, env, st))
        else:
            env = dict(zip(c.params.keys(), args))
            env.update(kwargs)
        # coerce arguments to the declared parameter sorts (e.g. None -> Optional[T])
        for p, stext in c.params.items():
            if p in env and not isinstance(stext, (list, tuple)):
                so = self.parse_sort(stext)
                env[p] = self.coerce_arg(env[p], so, st)
        if c.trusted:
            self.trusted_used.add(f"{c.qual}: {c.trusted}")
        self.callees_used.add(c.qual + (" (trusted)" if c.trusted else " (contract)"))
        if hasattr(self, "flush_writebacks"):
            self.flush_writebacks(st)
        for g_, gv in st.env.items():
            if g_.startswith("ghost_") and g_ not in env:
                env[g_] = gv
        pre = st.copy()
        pre.env = dict(env)
        for idx, r in enumerate(c.requires):
            g = self.spec_bool(r, env, st)
            self.oblige(st, g, "call.requires", f"{c.qual} requires {r}", name=f"{self.cur_fn}::call:{c.func}.requires[{idx}]")
        # exceptional outcomes
        for exc, cond in c.raises.items():
            caught = any(any(exc_is(exc, h) for h in frame) for frame in st.catching)
            allowed = any(exc_is(exc, a) for a in self.c.raises)
            s_exc = st.copy()
            if cond != "*":
                s_exc.assume(self.spec_bool(cond, env, s_exc))
            self._havoc_modifies(c, env, s_exc)
            yield Exc(exc, f"raised by {c.qual}", self.cur_line), s_exc
            if cond != "*":
                st.assume(z3.Not(self.spec_bool(cond, env, st)))
        self._havoc_modifies(c, env, st)
        res = self.fresh(self.parse_sort(c.returns), f"{c.func}.result", st, as_ref=True) if c.returns else V(NONE, None)
        post_env = dict(env)
        post_env["result"] = res
        saved_old = st.old
        st.old = pre
        try:
            for e in c.ensures:
                st.assume(self.spec_bool(e, post_env, st))
            for g_, expr in c.ghost_update.items():
                st.env[g_] = self.eval_spec_text(expr, post_env, st)
        finally:
            st.old = saved_old
        yield res, st

    def coerce_arg(self, v, so: Sort, st):
        v0 = self.deref(v, st)
        if so.kind == "opt":
            if isinstance(v0, V) and v0.sort == so:
                return v
            return V(so, self.to_term(v, so, st))
        if so.kind == "real" and isinstance(v0, V) and v0.sort.kind in ("int", "bool"):
            return V(REAL, self.real_of(v0))
        if so.kind == "rec" and isinstance(v0, ObjState) and not self.U.records[so.name].mutable:
            return V(so, self.to_term(v0, so, st))
        if so.kind == "tuple":
            if isinstance(v0, V) and v0.sort.kind == "opt":
                v0 = self.deref(self.unwrap_opt(v0, st, "tuple argument"), st)
            if isinstance(v0, V) and v0.sort.kind == "rec":
                decl = self.U.records[v0.sort.name]
                return VTuple([self.rec_field(v0, f, st) for f in decl.positional])
            return v0
        if so.kind == "list" and isinstance(v0, VTuple):
            return self.box_list(self.tuple_to_seq(v0, so.args[0], st), st)
        return v

    def _havoc_modifies(self, c, env, st):
        for m in c.modifies:
            parts = m.split(".")
            base = env.get(parts[0])
            if base is None:
                continue
            if len(parts) == 1:
                if isinstance(base, VRef):
                    cur = st.heap[base.ref]
                    if isinstance(cur, VSeq):
                        st.heap[base.ref] = self.deref(self.fresh(cur.sort, f"{parts[0]}'", st, as_ref=False), st)
                    else:
                        decl = self.U.records[cur.cls]
                        for f, fs in decl.fields:
                            cur.fields[f] = self.fresh(fs, f"{parts[0]}.{f}'", st)
            else:
                # walk down to the object that owns the last component (self.console.unwritten -> the console object)
                cur = base
                for comp in parts[1:-1]:
                    o_ = st.heap.get(cur.ref) if isinstance(cur, VRef) else None
                    cur = o_.fields.get(comp) if isinstance(o_, ObjState) else None
                if isinstance(cur, VRef) and isinstance(st.heap[cur.ref], ObjState):
                    obj = st.heap[cur.ref]
                    decl = self.U.records[obj.cls]
                    obj.fields[parts[-1]] = self.fresh(decl.field_sort(parts[-1]), f"{m}'", st)
                elif len(parts) > 2:
                    raise Unsupported(f"modifies {m}: intermediate object is not a heap object")

    # ------------------------------------------------------------------ constructors
    def construct(self, f: VFunc, args, kwargs, st):
        name = f.name
        mod = source.load(f.data)
        bases = mod.class_bases.get(name, [])
        if any(b.endswith("IntEnum") or b.endswith("Enum") for b in bases):
            # Enum(value): identity on ints, ValueError unless it is a member value
            v = self.deref(args[0], st)
            members = []
            for (cn, an), node in mod.class_consts.items():
                if cn == name and isinstance(node, ast.Constant) and isinstance(node.value, int):
                    members.append(node.value)
            t = self.as_int(v)
            ok = z3.Or(*[t == self.I(m) for m in members])
            for e, s2 in self.guard(st, ok, "ValueError", f"{name}(value) is a member"):
                yield (e if e is not None else V(INT, t)), s2
            return
        if name in EXC_PARENTS or any(b in EXC_PARENTS or b.endswith("Error") or b == "Exception" for b in bases):
            if name not in EXC_PARENTS:
                EXC_PARENTS[name] = bases[0].split(".")[-1] if bases else "Exception"
            yield VFunc("excinst", name, data=args), st
            return
        if (mod.name, name) in self.reg.opaque_classes:
            self.trusted_used.add(f"{mod.name}.{name}(...): construction of an object treated as opaque")
            yield self.fresh(OPAQUE(self.reg.opaque_classes[(mod.name, name)]), f"new_{name}", st), st
            return
        if name in self.U.records:
            decl = self.U.records[name]
            c = self.reg.contracts.get((mod.name, f"{name}.__init__"))
            if c is not None:
                fn = mod.funcs.get(f"{name}.__init__")
                # constructor with a contract: result is a fresh object; `self` in ensures is the result
                selfobj = self.fresh(self.U.rec(name), f"new_{name}", st, as_ref=decl.mutable)
                if c.inline:
                    # allocate an empty object and run __init__ on it
                    r = new_ref()
                    st.heap[r] = ObjState(name, {})
                    selfref = VRef(r)
                    for v, s2 in self.call_function(mod, f"{name}.__init__", [selfref] + list(args), kwargs, st):
                        yield (v if isinstance(v, Exc) else selfref), s2
                    return
                for v, s2 in self.apply_contract(c, fn, [selfobj] + list(args), kwargs, st):
                    yield (v if isinstance(v, Exc) else selfobj), s2
                return
            # NamedTuple-like: positional + keyword fields with class-level defaults
            vals: Dict[str, Any] = {}
            for fname, a in zip(decl.positional, args):
                vals[fname] = a
            vals.update(kwargs)
            for fname, _fs in decl.fields:
                if fname not in vals:
                    if (name, fname) in mod.class_consts:
                        vals[fname] = self.default_value(mod.class_consts[(name, fname)], mod, st)
                    else:
                        raise Unsupported(f"{name}(): missing field {fname}")
            yield self.make_rec(name, vals, st), st
            return
        raise Unsupported(f"constructor of undeclared class {name}")

    # ------------------------------------------------------------------ iterables
    def make_iter(self, v, st: State) -> Iter:
        v0 = self.deref(v, st)
        if isinstance(v0, VFunc) and v0.kind == "iterval":
            return v0.data
        if isinstance(v0, ObjState) and v0.cls == "__iterator__":
            base = v0.fields["it"].data
            pos = v0.fields["pos"].t
            return Iter(z3.simplify(z3.If(base.length > pos, base.length - pos, 0)), lambda i, s, b=base, p=pos: b.get(z3.simplify(p + i), s), "iterator-rest")
        if isinstance(v0, VTuple):
            items = v0.items
            def get(i, s, items=items):
                iv = z3.simplify(i)
                if z3.is_int_value(iv):
                    return items[iv.as_long()]
                r = items[-1]
                for k in range(len(items) - 2, -1, -1):
                    r = self.merge(i == k, items[k], r, s)
                return r
            return Iter(z3.IntVal(len(items)), get, "tuple")
        vs = self.as_seq(v, st, "iteration")
        it = Iter(vs.length(), lambda i, s, vs=vs: self.elem_value(vs, i, s), "seq")
        it.seq = vs
        return it

    def iter_range(self, args, st) -> Iter:
        ints = [self.to_mathint(self.as_int(self.deref(self.unwrap_opt(a, st, "range bound"), st))) for a in args]
        if len(ints) == 1:
            lo, hi = z3.IntVal(0), ints[0]
        elif len(ints) == 2:
            lo, hi = ints
        else:
            raise Unsupported("range with step")
        n = z3.simplify(z3.If(hi > lo, hi - lo, 0))
        it = Iter(n, lambda i, s, lo=lo: V(INT, self.from_mathint(z3.simplify(lo + i))), "range")
        it.lo, it.hi = lo, hi
        return it

    def iter_value(self, it: Iter):
        return VFunc("iterval", data=it)

    # ------------------------------------------------------------------ comprehensions / quantifiers
    def bind_target(self, target, val, st: State):
        """assign (possibly tuple-unpacking) without heap targets; used by for/comprehension"""
        if isinstance(target, ast.Name):
            st.env[target.id] = val
        elif isinstance(target, (ast.Tuple, ast.List)):
            items = self.unpack(val, len(target.elts), st)
            for t, x in zip(target.elts, items):
                self.bind_target(t, x, st)
        else:
            raise Unsupported("comprehension target")

    def unpack(self, val, n: int, st: State):
        v = self.deref(val, st)
        if isinstance(v, VTuple):
            if len(v.items) != n:
                raise Unsupported("unpack arity mismatch")
            return v.items
        if isinstance(v, V) and v.sort.kind == "rec":
            decl = self.U.records[v.sort.name]
            if len(decl.positional) != n:
                raise Unsupported("unpack arity mismatch (record)")
            return [self.rec_field(v, f, st) for f in decl.positional]
        if isinstance(v, V) and v.sort.kind == "tuple":
            return self.from_term(v.t, v.sort, st).items
        if isinstance(v, V) and v.sort.kind == "opt":
            return self.unpack(self.unwrap_opt(v, st, "unpacking"), n, st)
        if isinstance(v, VSeq) or (isinstance(v, V) and v.sort.kind in ("str", "list")):
            vs = self.as_seq(v, st)
            self.oblige(st, vs.length() == n, "safe", f"unpack {n} values", name=f"{self.cur_fn}::safe.ValueError")
            return [self.elem_value(vs, z3.IntVal(i), st) for i in range(n)]
        raise Unsupported(f"unpack of {type(v).__name__}")

    def _comp_body(self, gen_node, elt_nodes, st):
        """evaluate comprehension element(s) at a fresh symbolic index; returns (k, n, values, state)"""
        if len(gen_node.generators) != 1:
            raise Unsupported("nested comprehension")
        g = gen_node.generators[0]
        outs = list(self.ev(g.iter, st))
        if len(outs) != 1 or isinstance(outs[0][0], Exc):
            raise Unsupported("comprehension iterable forks / raises")
        itv, s = outs[0]
        dcur = self.dict_cur(itv, s) if hasattr(self, "dict_cur") else None
        if dcur is not None:
            # iteration over a dict's keys inside all()/any(): quantify over the key sort
            ks = dcur.sort.args[0]
            k = z3.Const(fresh_name("dkey"), self.U.z3sort(ks))
            self._comp_start = fresh_mark()
            self._comp_iter = None
            self._comp_range = self.U.z3sort(OPT(dcur.sort.args[1])).is_some(dcur.t[k])
            sub = s.copy()
            sub.assume(self._comp_range)
            self.bind_target(g.target, self.from_term(k, ks, sub), sub)
            it = None
        else:
            it = self.make_iter(itv, s)
            k = z3.Int(fresh_name("ci"))
            self._comp_start = fresh_mark()
            self._comp_range = None
            sub = s.copy()
            if getattr(self, "_comp_direct", False) and it.desc == "range":
                # quantifier over range(lo, hi): the bound variable is the element itself (no offset
                # arithmetic inside array reads, which would defeat E-matching)
                self._comp_range = z3.And(it.lo <= k, k < it.hi)
                sub.assume(self._comp_range)
                if z3.is_int_value(z3.simplify(it.lo)) and z3.simplify(it.lo).as_long() >= 0:
                    sub.assume(k >= 0)
                self.bind_target(g.target, V(INT, self.from_mathint(k)), sub)
            else:
                sub.assume(z3.And(0 <= k, k < it.length))
                self.bind_target(g.target, it.get(k, sub), sub)
        start_mark, crange = self._comp_start, self._comp_range
        conds = []
        for cnode in g.ifs:
            o = list(self.ev(cnode, sub))
            if len(o) != 1 or isinstance(o[0][0], Exc):
                raise Unsupported("comprehension filter forks")
            conds.append(self.truthy(o[0][0], o[0][1]))
            sub = o[0][1]
        vals = []
        self._comp_excs = []
        for en in elt_nodes:
            o = list(self.ev(en, sub))
            normal = [x for x in o if not isinstance(x[0], Exc)]
            if len(normal) > 1:
                # several normal paths (an inlined helper with an `if`): if-convert scalar results
                base = len(sub.pc)
                vs_ = [self.deref(x[0], x[1]) for x in normal]
                if all(isinstance(v_, V) and v_.sort == vs_[0].sort and v_.sort.kind in ("int", "bool", "real", "opt") for v_ in vs_):
                    conds_ = [z3.And(*x[1].pc[base:]) if len(x[1].pc) > base else z3.BoolVal(True) for x in normal]
                    t_ = vs_[-1].t
                    for c_, v_ in zip(reversed(conds_[:-1]), reversed(vs_[:-1])):
                        t_ = z3.If(c_, v_.t, t_)
                    merged = sub.copy()
                    merged.assume(z3.Or(*conds_))
                    normal = [(V(vs_[0].sort, t_), merged)]
            if len(normal) != 1:
                raise Unsupported(f"comprehension element forks @{getattr(en, 'lineno', '?')}")
            # an element whose evaluation may raise (a callee with a `raises` clause): the comprehension as a whole then
            # either completes with every element normal, or raises; the exceptional outcomes are handed to the caller
            self._comp_excs.extend(x[0] for x in o if isinstance(x[0], Exc))
            vals.append(normal[0][0])
            sub = normal[0][1]
        self._comp_iter = it
        self._comp_start, self._comp_range = start_mark, crange
        return k, (it.length if (it is not None and crange is None) else None), vals, conds, sub, s

    def _tid(self, t):
        """id of a z3 term for use in a memo key.  z3 recycles the ids of terms that have been freed, so the term is kept
        alive for the lifetime of this executor: otherwise a later, different term can get the same id and the memo
        returns the list of another comprehension (seen as a rare, allocation-dependent wrong VC: the widths after
        `ratio_reduce` without any of its postconditions)."""
        ka = self.__dict__.setdefault("_memo_keepalive", [])
        ka.append(t)
        return t.get_id()

    def _val_key(self, v, st, depth=0):
        v0 = self.deref(v, st) if isinstance(v, VRef) else v
        if isinstance(v0, V):
            return ("V", str(v0.sort), self._tid(v0.t) if v0.t is not None else None)
        if isinstance(v0, VSeq):
            return ("S", tuple((p.kind, self._tid(p.a) if p.a is not None and hasattr(p.a, "get_id") else None,
                                self._tid(z3.simplify(p.lo)) if p.lo is not None else None,
                                self._tid(z3.simplify(p.hi)) if p.hi is not None else None,
                                tuple(self._tid(z3.simplify(i)) for i in p.items) if p.items else None) for p in v0.pieces))
        if isinstance(v0, VTuple):
            return ("T", tuple(self._val_key(x, st, depth + 1) for x in v0.items))
        if isinstance(v0, ObjState) and depth < 2:
            return ("O", v0.cls, tuple((f, self._val_key(x, st, depth + 1)) for f, x in sorted(v0.fields.items())))
        return ("?", object())  # never equal to anything: no memo for values of unknown kinds (id() of a dead object can come back)

    def _comp_key(self, node, st):
        """memo key of a comprehension: element / filter / target text, the *value* of what is iterated, and
        the current values of the other names mentioned — the same comprehension over the same values denotes
        the same list (so a spec and the code agree on one array)"""
        if len(node.generators) != 1:
            return None
        g = node.generators[0]
        try:
            outs = list(self.ev(g.iter, st.copy()))
        except Unsupported:
            return None
        if len(outs) != 1 or isinstance(outs[0][0], Exc):
            return None
        itv, s_it = outs[0]
        targets = {n.id for n in ast.walk(g.target) if isinstance(n, ast.Name)}
        body_nodes = [node.elt] + list(g.ifs)
        names = sorted({n.id for b in body_nodes for n in ast.walk(b) if isinstance(n, ast.Name)} - targets)
        parts = []
        for nm in names:
            if nm in st.env:
                parts.append((nm, self._val_key(st.env[nm], st)))
        return (ast.dump(node.elt), tuple(ast.dump(i) for i in g.ifs), ast.dump(g.target), self._val_key(itv, s_it), tuple(parts))

    def ev_ListComp(self, node, st):
        key = self._comp_key(node, st)
        memo = self._comp_memo.get(key) if key is not None else None
        if memo is not None:
            arr, n, es, facts = memo
            for f in facts:
                if not any(f is g for g in st.pc):
                    st.assume(f)
            yield self.box_list(seqs.view(arr, z3.IntVal(0), n, es), st), st
            return
        base_len = len(st.pc)
        for v, s in self._ev_ListComp(node, st):
            if isinstance(v, VRef) and s is st:
                cur = s.heap[v.ref]
                if isinstance(cur, VSeq) and len(cur.pieces) == 1 and cur.pieces[0].kind == "view":
                    p = cur.pieces[0]
                    if key is not None:
                        self._comp_memo[key] = (p.a, p.hi, cur.elem, list(s.pc[base_len:]))
            yield v, s

    def _ev_ListComp(self, node, st):
        pre = st.copy()
        k, n, vals, conds, sub, s = self._comp_body(node, [node.elt], st)
        if n is None:
            raise Unsupported("comprehension over a dict")
        for e in self._comp_excs:
            if self.spec_mode:
                raise Unsupported("comprehension element may raise inside a specification")
            # raised at some element: the state is the one before the comprehension (the callee's frame is empty or
            # checked separately; a callee with declared effects is rejected)
            yield e, pre.copy()
        self._comp_excs = []
        if conds:
            yield from self.filtered_comp(k, n, vals[0], conds, sub, s)
            return
        val = vals[0]
        elem_sort = self.sort_of(val, sub)
        ez = self.U.z3sort(elem_sort)
        arr = z3.Const(fresh_name("comp"), z3.ArraySort(z3.IntSort(), ez))
        body_facts = sub.pc[len(s.pc) + 1:]
        term = self.to_term(val, elem_sort, sub)
        body_facts = sub.pc[len(s.pc) + 1:]
        term, *body_facts = skolemize(k, self._comp_start, [term] + list(body_facts))
        s.assume(z3.ForAll([k], z3.Implies(z3.And(0 <= k, k < n), z3.And(arr[k] == term, *body_facts)), patterns=[arr[k]]))
        if elem_sort == INT and not self.bv:
            lin = linear_sum(term, k, n)
            if lin is not None:
                # sum linearity (lemma: induction on n, step checked by lemmalib): the sum of a list whose elements are a
                # linear combination of array reads at the same index is that combination of the arrays' sums
                s.assume(z3.Implies(n >= 0, seqs.psum(arr, z3.simplify(n)) - seqs.psum(arr, 0) == lin))
        s.heap.update({r: o for r, o in sub.heap.items() if r not in s.heap})
        yield self.box_list(seqs.view(arr, z3.IntVal(0), z3.simplify(n), elem_sort), s), s

    def filtered_comp(self, k, n, val, conds, sub, s):
        """[f(x) for x in xs if c(x)]: a fresh list characterised exactly as filter-then-map
        (trusted built-in contract of comprehensions): an order-preserving index map `src` from result
        positions to source positions whose image is exactly the positions satisfying the filter."""
        elem_sort = self.sort_of(val, sub)
        ez = self.U.z3sort(elem_sort)
        term = self.to_term(val, elem_sort, sub)
        cond = z3.And(*conds)
        body_facts = sub.pc[len(s.pc) + 1:]
        term, cond, *body_facts = skolemize(k, self._comp_start, [term, cond] + list(body_facts))
        arr = z3.Const(fresh_name("fcomp"), z3.ArraySort(z3.IntSort(), ez))
        # the selection (length and index maps) is a function of the filter and the range alone: two comprehensions with
        # the same filter over the same range share it (so `[f(x) for x in xs if c(x)]` and `[g(x) for x in xs if c(x)]`
        # have the same length and corresponding elements)
        K0 = z3.Int("k!canon")
        fkey = (z3.substitute(cond, (k, K0)).sexpr(), z3.simplify(n).sexpr())
        memo = getattr(self, "_filter_memo", None)
        if memo is None:
            memo = self._filter_memo = {}
        if fkey in memo:
            m, src, dst = memo[fkey]
        else:
            m = z3.Int(fresh_name("fcomp.len"))
            src = z3.Function(fresh_name("fsrc"), z3.IntSort(), z3.IntSort())
            dst = z3.Function(fresh_name("fdst"), z3.IntSort(), z3.IntSort())
            memo[fkey] = (m, src, dst)
        j, j2 = z3.Int(fresh_name("fj")), z3.Int(fresh_name("fj2"))
        s.assume(z3.And(0 <= m, m <= n))
        f_at = lambda idx: z3.substitute(term, (k, idx))
        c_at = lambda idx: z3.substitute(cond, (k, idx))
        facts_at = lambda idx: [z3.substitute(f, (k, idx)) for f in body_facts]
        # every result element comes from a source position that passes the filter
        s.assume(z3.ForAll([j], z3.Implies(z3.And(0 <= j, j < m),
                                          z3.And(0 <= src(j), src(j) < n, c_at(src(j)), arr[j] == f_at(src(j)), dst(src(j)) == j, *facts_at(src(j)))),
                           patterns=[arr[j]]))
        # order is preserved
        s.assume(z3.ForAll([j, j2], z3.Implies(z3.And(0 <= j, j < j2, j2 < m), src(j) < src(j2)), patterns=[z3.MultiPattern(src(j), src(j2))]))
        # every source position that passes the filter appears
        s.assume(z3.ForAll([k], z3.Implies(z3.And(0 <= k, k < n, cond), z3.And(0 <= dst(k), dst(k) < m, src(dst(k)) == k)), patterns=[dst(k)]))
        s.heap.update({r: o for r, o in sub.heap.items() if r not in s.heap})
        yield self.box_list(seqs.view(arr, z3.IntVal(0), m, elem_sort), s), s

    def ev_GeneratorExp(self, node, st):
        as_list = ast.ListComp(elt=node.elt, generators=node.generators)
        ast.copy_location(as_list, node)
        for v, s in self.ev_ListComp(as_list, st):
            yield v, s

    def minmax_gen(self, fname, gen, st):
        """max(e for x in it if c) / min(...): the result m bounds every selected element and is one of them (witness
        index); ValueError when nothing is selected (built-in contract of max/min on an empty iterable)."""
        k, n, vals, conds, sub, s = self._comp_body(gen, [gen.elt], st)
        if n is None:
            raise Unsupported("min/max over a dict or a direct range")
        val = self.deref(vals[0], sub)
        if not (isinstance(val, V) and val.sort.kind in ("int", "bool", "real")):
            raise Unsupported("min/max of non-numbers")
        is_real = val.sort.kind == "real"
        term = val.t if is_real else self.to_mathint(self.as_int(val))
        rng = z3.And(0 <= k, k < n, *conds)
        body_facts = list(sub.pc[len(s.pc) + 1:])
        term, rng, *body_facts = skolemize(k, self._comp_start, [term, rng] + body_facts)
        sel = z3.And(rng, *body_facts)
        w = z3.Int(fresh_name("mmw"))
        at = lambda t: z3.substitute(t, (k, w))
        for e, s2 in self.guard(s, z3.Exists([k], sel), "ValueError", f"{fname}() of an empty selection"):
            if e is not None:
                yield e, s2
                continue
            m = z3.Real(fresh_name(fname)) if is_real else z3.Int(fresh_name(fname))
            s2.assume(z3.ForAll([k], z3.Implies(sel, (term <= m) if fname == "max" else (term >= m))))
            s2.assume(z3.And(at(sel), at(term) == m))
            yield (V(REAL, m) if is_real else V(INT, self.from_mathint(m))), s2

    def quantified(self, fname, gen, st, extra_args):
        self._comp_direct = fname in ("all", "any")
        try:
            k, n, vals, conds, sub, s = self._comp_body(gen, [gen.elt], st)
        finally:
            self._comp_direct = False
        body_facts = [f for f in sub.pc[len(s.pc) + 1:] if not (z3.is_app(f) and f.eq(k >= 0))]
        if n is None:
            if fname == "sum":
                raise Unsupported("sum over a dict")
            rng = z3.And(self._comp_range, *conds)
        else:
            rng = z3.And(0 <= k, k < n, *conds)
        if fname in ("all", "any"):
            b = self.truthy(vals[0], sub)
            body_facts = sub.pc[len(s.pc) + 1:]
            b, rng, *body_facts = skolemize(k, self._comp_start, [b, rng] + list(body_facts))
            if fname == "all":
                bs = z3.simplify(b) if not z3.is_quantifier(b) else b
                if z3.is_quantifier(bs) and bs.is_forall() and not body_facts:
                    # all(all(P for j ...) for i ...): one quantifier over both variables
                    inner = [z3.Const(fresh_name(bs.var_name(ix)), bs.var_sort(ix)) for ix in range(bs.num_vars())]
                    ib = z3.substitute_vars(bs.body(), *reversed(inner))
                    q = z3.ForAll([k] + inner, z3.Implies(rng, ib))
                else:
                    q = z3.ForAll([k], z3.Implies(z3.And(rng, *body_facts), b))
            else:
                q = z3.Exists([k], z3.And(rng, *body_facts, b))
            yield V(BOOL, q), s
            return
        # sum(generator): materialise the summands into a fresh int array and take its prefix sum
        val = self.deref(vals[0], sub)
        if conds:
            raise Unsupported("filtered sum")
        if isinstance(val, V) and val.sort.kind == "real":
            term = val.t
            body_facts = sub.pc[len(s.pc) + 1:]
            term, *body_facts = skolemize(k, self._comp_start, [term] + list(body_facts))
            arr = z3.Const(fresh_name("rsummand"), seqs.RealArr)
            s.assume(z3.ForAll([k], z3.Implies(z3.And(0 <= k, k < n), z3.And(arr[k] == term, *body_facts)), patterns=[arr[k]]))
            nn = z3.simplify(n)
            s.assume(seqs.rpsum_nonneg_lemma(arr, z3.IntVal(0), nn))
            if extra_args:
                raise Unsupported("sum with start over generator")
            yield V(REAL, seqs.rpsum(arr, nn) - seqs.rpsum(arr, 0)), s
            return
        if not (isinstance(val, V) and val.sort.kind in ("int", "bool")):
            raise Unsupported("sum of non-numbers")
        term = self.to_mathint(self.as_int(val))
        body_facts = sub.pc[len(s.pc) + 1:]
        term, *body_facts = skolemize(k, self._comp_start, [term] + list(body_facts))
        # recognise sum(W(cp[lo+k])) == cells(...) : handled by the generic congruence below
        arr = z3.Const(fresh_name("summand"), seqs.IntArr)
        s.assume(z3.ForAll([k], z3.Implies(z3.And(0 <= k, k < n), z3.And(arr[k] == term, *body_facts)), patterns=[arr[k]]))
        total = seqs.psum(arr, z3.simplify(n)) - seqs.psum(arr, 0)
        cong = self.sum_congruence(term, k, n, arr)
        if cong is None:
            cong = self.sum_congruence_semantic(term, k, n, body_facts, s)
        if cong is not None:
            s.assume(total == cong)
        start = self.I(0)
        if extra_args:
            raise Unsupported("sum with start over generator")
        yield V(INT, self.from_mathint(total)), s

    def sum_congruence_semantic(self, term, k, n, body_facts, st):
        """Sum-congruence lemma with a *proved* pointwise premise: if, for the iterated single-view string
        (arr, lo, hi), the summand at k provably equals W(arr[lo+k]) then the sum is the cell-width prefix
        difference (lemma: equal summands, equal sums; induction on n)."""
        vs = getattr(self._comp_iter, "seq", None)
        if vs is None or len(vs.pieces) != 1 or vs.pieces[0].kind != "view":
            return None
        p = vs.pieces[0]
        cands = []
        if vs.is_str:
            cands.append((seqs.W(p.a[p.lo + k]), seqs.pcell(p.a, p.hi) - seqs.pcell(p.a, p.lo)))
        elif vs.elem == INT:
            cands.append((p.a[p.lo + k], seqs.psum(p.a, p.hi) - seqs.psum(p.a, p.lo)))
        elif vs.elem.kind == "rec" and vs.elem.name == "Segment":
            uf, measure = self.segcells()
            cands.append((measure(p.a[p.lo + k]), uf(p.a, p.hi) - uf(p.a, p.lo)))
        for pointwise, total in cands:
            from .solve import quick_check
            ax = seqs.global_axioms()
            fmls = [ax[nm] for nm in ("W.range", "W.ascii", "pcell.mono")] + list(self.global_facts) + list(st.pc)
            fmls += [z3.And(0 <= k, k < n)] + list(body_facts) + [term != pointwise]
            if str(quick_check(fmls, 20000000, 120000)) == "unsat":
                self.notes.append("sum-congruence lemma applied (pointwise premise proved by z3)")
                return total
        return None

    def sum_congruence(self, term, k, n, arr):
        """If the summand at index k is syntactically W(a[lo + k]) (resp. a[lo + k]) the sum over 0..n is the
        prefix-sum difference of `a` — the sum-congruence lemma (induction on n; DESIGN 4.6)."""
        t = z3.simplify(term)
        if z3.is_app(t) and t.decl().eq(seqs.W):
            inner = t.arg(0)
            if z3.is_select(inner):
                a, idx = inner.arg(0), inner.arg(1)
                lo = z3.simplify(idx - k)
                if not seqs.mentions(lo, k.decl()) and not _mentions_var(lo, k):
                    return seqs.pcell(a, z3.simplify(lo + n)) - seqs.pcell(a, lo)
        if z3.is_select(t):
            a, idx = t.arg(0), t.arg(1)
            lo = z3.simplify(idx - k)
            if not _mentions_var(lo, k) and a.sort() == seqs.IntArr:
                return seqs.psum(a, z3.simplify(lo + n)) - seqs.psum(a, lo)
        return None


def linear_sum(term, k, n):
    """term (an Int term in the bound index k) as  sum_i coef_i * A_i[k + c_i] + d  ->  the corresponding combination of
    prefix-sum differences over 0..n, or None when the term has another shape"""
    t = z3.simplify(term)
    parts = []  # (coef, array, offset) ; const

    def walk(x, coef):
        if z3.is_int_value(x):
            return [("const", coef * x.as_long())]
        if z3.is_select(x) and x.arg(0).sort() == seqs.IntArr:
            off = z3.simplify(x.arg(1) - k)
            if _mentions_var(off, k) or _mentions_var(x.arg(0), k):
                return None
            return [("sel", coef, x.arg(0), off)]
        if z3.is_add(x):
            out = []
            for c in x.children():
                r = walk(c, coef)
                if r is None:
                    return None
                out += r
            return out
        if z3.is_sub(x) and x.num_args() == 2:
            a, b = walk(x.arg(0), coef), walk(x.arg(1), -coef)
            return None if a is None or b is None else a + b
        if z3.is_mul(x) and x.num_args() == 2 and z3.is_int_value(x.arg(0)):
            return walk(x.arg(1), coef * x.arg(0).as_long())
        if z3.is_app(x) and x.decl().kind() == z3.Z3_OP_UMINUS:
            return walk(x.arg(0), -coef)
        return None

    r = walk(t, 1)
    if r is None or not any(p[0] == "sel" for p in r) or len(r) < 2:
        return None
    total = z3.IntVal(0)
    for p in r:
        if p[0] == "const":
            total = total + p[1] * n
        else:
            _, coef, a, off = p
            total = total + coef * (seqs.psum(a, z3.simplify(off + n)) - seqs.psum(a, off))
    return z3.simplify(total)


def fresh_mark() -> int:
    from .sorts import _counter
    import itertools
    # peek the shared counter without losing a value
    v = next(_counter)
    return v


def skolemize(k, start: int, terms):
    """Constants created while evaluating a comprehension / quantifier body at the symbolic index k
    (fresh results of callee contracts, materialised arrays, ...) depend on k: replace each by an
    uninterpreted function of k, otherwise `forall k. ... c ...` would wrongly share one value."""
    consts = {}
    stack = list(terms)
    seen = set()
    while stack:
        t = stack.pop()
        if t.get_id() in seen:
            continue
        seen.add(t.get_id())
        if z3.is_quantifier(t):
            stack.append(t.body())
            continue
        if z3.is_const(t) and t.decl().kind() == z3.Z3_OP_UNINTERPRETED and not t.eq(k):
            name = t.decl().name()
            if "!" in name:
                try:
                    idx = int(name.rsplit("!", 1)[1])
                except ValueError:
                    idx = -1
                if idx > start:
                    consts[name] = t
        stack.extend(t.children())
    if not consts:
        return list(terms)
    subs = []
    for name, c in consts.items():
        f = z3.Function(name + "@k", z3.IntSort(), c.sort())
        subs.append((c, f(k)))
    return [z3.substitute(t, *subs) for t in terms]


def _mentions_var(term, var) -> bool:
    stack = [term]
    seen = set()
    while stack:
        t = stack.pop()
        if t.get_id() in seen:
            continue
        seen.add(t.get_id())
        if t.eq(var):
            return True
        if z3.is_quantifier(t):
            stack.append(t.body())
        else:
            stack.extend(t.children())
    return False
