"""Reads /repo source text on every run and extracts the ASTs the contracts name.

Nothing is imported from /repo here: the prover works on the text of the working tree.
Extraction drops: docstrings, type annotations, `cast(...)` wrappers and decorators
(@classmethod/@staticmethod/@property decide the binding of the first parameter;
@lru_cache is treated as transparent and requires the contract to be `pure`).
"""
from __future__ import annotations

import ast
import hashlib
import os
from typing import Dict, Optional, Tuple

REPO = os.environ.get("VF_REPO", "/repo")


class ModuleInfo:
    def __init__(self, name: str):
        self.name = name
        rel = name.replace(".", "/")
        path = os.path.join(REPO, rel + ".py")
        if not os.path.exists(path):
            path = os.path.join(REPO, rel, "__init__.py")
        self.path = path
        with open(path, "r", encoding="utf-8") as f:
            self.source = f.read()
        self.tree = ast.parse(self.source)
        self.lines = self.source.splitlines()
        self.funcs: Dict[str, ast.FunctionDef] = {}
        self.classes: Dict[str, ast.ClassDef] = {}
        self.imports: Dict[str, Tuple[str, Optional[str]]] = {}
        self.consts: Dict[str, ast.expr] = {}
        self.class_consts: Dict[Tuple[str, str], ast.expr] = {}
        self.class_bases: Dict[str, list] = {}
        pkg = name.rsplit(".", 1)[0] if "." in name else name
        for node in self.tree.body:
            self._top(node, pkg)

    def _top(self, node, pkg):
        if isinstance(node, (ast.FunctionDef, ast.AsyncFunctionDef)):
            self.funcs[node.name] = node
        elif isinstance(node, ast.ClassDef):
            self.classes[node.name] = node
            self.class_bases[node.name] = [ast.unparse(b) for b in node.bases]
            for sub in node.body:
                if isinstance(sub, (ast.FunctionDef, ast.AsyncFunctionDef)):
                    # property setters share the getter's name: keep the getter under the plain
                    # name and the setter under "<name>.setter"
                    decos = [ast.unparse(d) for d in sub.decorator_list]
                    if any(d.endswith(".setter") for d in decos):
                        self.funcs[f"{node.name}.{sub.name}.setter"] = sub
                    else:
                        self.funcs[f"{node.name}.{sub.name}"] = sub
                elif isinstance(sub, ast.Assign) and len(sub.targets) == 1 and isinstance(sub.targets[0], ast.Name):
                    self.class_consts[(node.name, sub.targets[0].id)] = sub.value
                elif isinstance(sub, ast.AnnAssign) and isinstance(sub.target, ast.Name) and sub.value is not None:
                    self.class_consts[(node.name, sub.target.id)] = sub.value
        elif isinstance(node, ast.ImportFrom):
            mod = node.module or ""
            if node.level:
                base = pkg.split(".")
                if node.level > 1:
                    base = base[: -(node.level - 1)]
                mod = ".".join(base + ([mod] if mod else []))
            for a in node.names:
                self.imports[a.asname or a.name] = (mod, a.name)
        elif isinstance(node, ast.Import):
            for a in node.names:
                self.imports[a.asname or a.name.split(".")[0]] = (a.name, None)
        elif isinstance(node, ast.Assign) and len(node.targets) == 1 and isinstance(node.targets[0], ast.Name):
            self.consts[node.targets[0].id] = node.value
        elif isinstance(node, ast.AnnAssign) and isinstance(node.target, ast.Name) and node.value is not None:
            self.consts[node.target.id] = node.value
        elif isinstance(node, ast.If):
            # `if TYPE_CHECKING:` imports are irrelevant; other top-level ifs are not executed
            pass

    def func(self, qual: str) -> ast.FunctionDef:
        if qual not in self.funcs:
            raise KeyError(f"{self.name}.{qual} not found in {self.path}")
        return self.funcs[qual]

    def segment(self, node) -> str:
        return ast.get_source_segment(self.source, node) or ""

    def sha(self, node) -> str:
        return hashlib.sha256(self.segment(node).encode()).hexdigest()

    def decorators(self, node):
        return [ast.unparse(d) for d in node.decorator_list]


_cache: Dict[str, ModuleInfo] = {}


def load(name: str) -> ModuleInfo:
    if name not in _cache:
        _cache[name] = ModuleInfo(name)
    return _cache[name]


def reset():
    _cache.clear()
