"""developer tool: dump the SMT-LIB text of obligations whose name contains a pattern"""
import sys
from contracts import load_all
from vf.pyvc.verify import Exec
from vf.pyvc.solve import to_smt2
R = load_all()
fn, pat, out = sys.argv[1], sys.argv[2], sys.argv[3]
for c in R.contracts.values():
    if fn in c.qual and not c.inline and not c.trusted:
        obs = Exec(R, c).generate()
        k = 0
        for o in obs:
            if pat in o.name and not o.expect_sat:
                open(f"{out}.{k}.smt2", "w").write("(set-logic ALL)\n" + to_smt2(o))
                print(o.name, o.text, "->", f"{out}.{k}.smt2")
                k += 1
