"""Discharge obligations: per-path VCs, worker pool, z3 (API) -> cvc5 (CLI) -> z3-new (CLI) portfolio."""
from __future__ import annotations

import hashlib
import multiprocessing as mp
import os
import subprocess
import tempfile
import time
from typing import Any, Dict, List, Tuple

import z3

from . import seqs
from .state import Oblig

Z3_TIMEOUT_MS = int(os.environ.get("VF_Z3_TIMEOUT_MS", "30000"))
CVC5_TIMEOUT_S = int(os.environ.get("VF_CVC5_TIMEOUT_S", "40"))
Z3NEW_TIMEOUT_S = int(os.environ.get("VF_Z3NEW_TIMEOUT_S", "40"))


def _has_quant(t) -> bool:
    stack, seen = [t], set()
    while stack:
        x = stack.pop()
        if x.get_id() in seen:
            continue
        seen.add(x.get_id())
        if z3.is_quantifier(x):
            return True
        stack.extend(x.children())
    return False


def _pure_arith(t) -> bool:
    """no quantifier, no array-sorted subterm, no uninterpreted function application (constants and datatype
    accessors are fine): the part of a path condition that plain (non)linear arithmetic can use"""
    stack, seen = [t], set()
    while stack:
        x = stack.pop()
        if x.get_id() in seen:
            continue
        seen.add(x.get_id())
        if z3.is_quantifier(x) or z3.is_array(x):
            return False
        if z3.is_app(x) and x.num_args() > 0 and x.decl().kind() == z3.Z3_OP_UNINTERPRETED:
            return False
        stack.extend(x.children())
    return True


def _symbols(t, cache) -> frozenset:
    """names of the uninterpreted constants / functions of a term"""
    key = t.get_id()
    if key in cache:
        return cache[key]
    out = set()
    stack, seen = [t], set()
    while stack:
        x = stack.pop()
        if x.get_id() in seen:
            continue
        seen.add(x.get_id())
        if z3.is_quantifier(x):
            stack.append(x.body())
            continue
        if z3.is_app(x):
            if x.decl().kind() == z3.Z3_OP_UNINTERPRETED:
                out.add(x.decl().name())
            stack.extend(x.children())
    cache[key] = frozenset(out)
    return cache[key]


def _solve_relevant(ob: Oblig, depth: int, timeout_ms: int):
    """Sound weakening: keep only the assumptions connected to the goal through shared symbols in at most `depth` steps
    (fewer assumptions can only make `unsat` harder to reach, never wrong).  Simple goals (a length, a frame) sit in a
    path condition full of quantified facts about other things; without those facts z3 has nothing to diverge on."""
    cache: Dict[int, frozenset] = {}
    syms = set(_symbols(ob.goal, cache))
    chosen = set()
    for _ in range(depth):
        grew = False
        for i, a in enumerate(ob.assumptions):
            if i in chosen:
                continue
            sa = _symbols(a, cache)
            if sa & syms:
                chosen.add(i)
                grew = True
        for i in chosen:
            syms |= _symbols(ob.assumptions[i], cache)
        if not grew:
            break
    if len(chosen) == len(ob.assumptions):
        return None
    small = Oblig(ob.name, ob.kind, ob.fn, ob.line, [ob.assumptions[i] for i in sorted(chosen)], ob.goal, ob.text, ob.path, ob.serves, False)
    s = _build_solver(small, timeout_ms)
    try:
        return s.check() == z3.unsat
    except Exception:  # pragma: no cover
        return None


def _solve_arith_cone(ob: Oblig, timeout_ms: int):
    """sound weakening for nonlinear hints: drop every assumption that is not pure arithmetic; `unsat` of the smaller
    query is `unsat` of the full one (anything else is ignored)"""
    try:
        if not _pure_arith(ob.goal):
            return None
        s = z3.Solver()
        s.set("timeout", timeout_ms)
        for a in ob.assumptions:
            if _pure_arith(a):
                s.add(a)
        s.add(z3.Not(ob.goal))
        return s.check() == z3.unsat
    except Exception:  # pragma: no cover
        return None


def quick_check(formulas, rlimit: int, wall_ms: int = 60000):
    """Generation-time solver call (path pruning, entailment, proved lemma premises): in a context of its own and under a
    resource limit, so that the answer - and with it the generated VC - depends neither on what the process did before
    nor on how busy the machine is."""
    ctx = z3.Context()
    s = z3.Solver(ctx=ctx)
    s.set("rlimit", rlimit)
    s.set("timeout", wall_ms)
    for f in formulas:
        s.add(f.translate(ctx))
    try:
        return s.check()
    except z3.Z3Exception:
        return z3.unknown


def to_smt2_qf(ob: Oblig) -> str:
    """cover fallback: the quantifier-free part of the assumptions (necessary condition for reachability)"""
    s = z3.Solver()
    for a in ob.assumptions:
        if not _has_quant(a):
            s.add(a)
    return s.to_smt2()


def to_smt2(ob: Oblig) -> str:
    s = z3.Solver()
    terms = list(ob.assumptions) + [ob.goal]
    ax = seqs.global_axioms()
    need = set()
    for t in terms:
        if seqs.mentions(t, seqs.W):
            need.update(["W.range", "W.ascii"])
        if seqs.mentions(t, seqs.pcell):
            need.update(["pcell.unfold", "pcell.mono", "W.range", "W.ascii"])
        if seqs.mentions(t, seqs.psum):
            need.add("psum.unfold")
        if seqs.mentions(t, seqs.rpsum):
            need.add("rpsum.unfold")
    for n in sorted(need):
        s.add(ax[n])
    for a in ob.assumptions:
        s.add(a)
    if not ob.expect_sat:
        s.add(z3.Not(ob.goal))
    return s.to_smt2()


_OBLIGS: List[Oblig] = []


def _build_solver(ob: Oblig, timeout_ms: int, qf_only=False):
    """The query is copied into a context of its own: z3's behaviour on quantified queries depends on the ids (creation
    order) of the terms in the context, and in a worker that has built and solved other obligations before, a query
    that takes 0.0 s in a fresh process was seen to diverge under every configuration.  In a fresh context the ids are
    the traversal order of this query alone, whatever ran before."""
    ctx = z3.Context()
    s = _FreshSolver(ctx)
    s.set("timeout", timeout_ms)
    terms = list(ob.assumptions) + [ob.goal]
    ax = seqs.global_axioms()
    need = set()
    for t in terms:
        if seqs.mentions(t, seqs.W):
            need.update(["W.range", "W.ascii"])
        if seqs.mentions(t, seqs.pcell):
            need.update(["pcell.unfold", "pcell.mono", "W.range", "W.ascii"])
        if seqs.mentions(t, seqs.psum):
            need.add("psum.unfold")
        if seqs.mentions(t, seqs.rpsum):
            need.add("rpsum.unfold")
    if not qf_only:
        for n in sorted(need):
            s.add(ax[n])
    for a in ob.assumptions:
        if qf_only and _has_quant(a):
            continue
        s.add(a)
    if not ob.expect_sat:
        s.add(z3.Not(ob.goal))
    return s


class _FreshSolver(z3.Solver):
    """Solver in its own context; `add` translates the formula into it"""

    def __init__(self, ctx):
        super().__init__(ctx=ctx)
        self._ctx = ctx

    def add(self, *fs):
        for f in fs:
            super().add(f.translate(self._ctx))


def _solve_one(idx) -> Dict[str, Any]:
    """runs in a forked worker: the obligation objects are inherited from the parent's memory"""
    ob = _OBLIGS[idx]
    t0 = time.time()
    if ob.expect_sat:
        return _solve_cover(idx, ob, t0)
    out: Dict[str, Any] = {"idx": idx, "verdict": "unknown", "solver": None, "time": 0.0, "model": None, "reason": ""}
    if ob.kind == "hint" and _solve_arith_cone(ob, 5000):
        out.update(verdict="unsat", solver=f"z3 {z3.get_version_string()} (arithmetic cone)", time=time.time() - t0)
        return out
    # 1. the quantifier-free part of the path condition alone (sound weakening; a decidable fragment, so the answer is
    #    stable): lengths, frames and plain arithmetic are settled here without z3 ever looking at a quantifier
    try:
        sq = _build_solver(ob, 5000, qf_only=True)
        if sq.check() == z3.unsat:
            out.update(verdict="unsat", solver=f"z3 {z3.get_version_string()} qf", time=time.time() - t0)
            return out
    except Exception:  # pragma: no cover
        pass
    if getattr(ob, "hint", None) in (None, "rel1", "rel2"):
        for depth in ((2, 1) if getattr(ob, "hint", None) == "rel2" else (1, 2)):
            if _solve_relevant(ob, depth, 2000 if getattr(ob, "hint", None) is None else Z3_TIMEOUT_MS):
                out.update(verdict="unsat", solver=f"z3 {z3.get_version_string()} rel{depth}", time=time.time() - t0)
                return out
    if getattr(ob, "hint", None) == "cvc5":
        # this obligation class was discharged by cvc5 when the ledger was recorded: ask cvc5 first
        r = _external(ob, only="cvc5")
        if r is not None and r[0] == "unsat":
            out.update(verdict="unsat", solver=r[1], time=time.time() - t0)
            return out
    try:
        # A proof that exists is usually found in well under a second; when z3 diverges instead, the divergence depends on
        # the seed and on term order (the same query was seen to go 0.3 s / unknown / 15 s timeout across seeds).  So: a
        # few short attempts under different configurations first, then one long attempt.  For a class that was slow or
        # needed another configuration when the ledger was recorded, the ledger remembers the configuration (hint
        # "z3:cfg<i>") and that one runs first with the long budget: a pass does not turn into a timeout on a busy machine.
        cfgs = [{}, {"smt.mbqi": False}, {"smt.random_seed": 7}, {"smt.random_seed": 23, "smt.mbqi": False}, {"smt.random_seed": 101}]
        # E-matching alone (no model-based instantiation: cfg1, cfg3) is what finds these proofs; MBQI is where z3 diverges
        # on them, so the MBQI-free configurations go first and also get the long budget first
        short = [(1, 5000), (0, 3000), (3, 5000), (2, 3000), (4, 3000)]
        plan = short + [(1, Z3_TIMEOUT_MS), (0, Z3_TIMEOUT_MS)]
        h = getattr(ob, "hint", None) or ""
        if h.startswith("z3:cfg"):
            # the configuration that discharged this class when the ledger was recorded, with the long budget, first
            plan = [(int(h[6:]), Z3_TIMEOUT_MS)] + plan
        r, label = z3.unknown, ""
        for ci, tmo in plan:
            s = _build_solver(ob, tmo)
            for k_, v_ in cfgs[ci].items():
                s.set(k_, v_)
            t1 = time.time()
            r = s.check()
            if r != z3.unknown:
                label = f" cfg{ci}" + (" slow" if time.time() - t1 > 1.0 else "")
                break
        if r == z3.unsat:
            out.update(verdict="unsat", solver=f"z3 {z3.get_version_string()}" + label)
            if not h and time.time() - t0 > 5.0:
                # slow for z3 and nothing remembered yet (ledger run): note whether cvc5 is the better first choice
                t2 = time.time()
                ext = _external(ob, only="cvc5")
                if ext is not None and ext[0] == "unsat" and time.time() - t2 < 0.5 * (t2 - t0):
                    out["prefer"] = "cvc5"
        elif r == z3.sat:
            out.update(verdict="sat", solver=f"z3 {z3.get_version_string()}")
            try:
                m = s.model()
                out["model"] = {d.name(): str(m[d])[:400] for d in m.decls()}
            except Exception as e:  # pragma: no cover
                out["model"] = {"<error>": str(e)}
        else:
            out["reason"] = s.reason_unknown()
    except Exception as e:
        out["reason"] = f"z3 error: {e}"
    if out["verdict"] == "unknown":
        smt2 = to_smt2(ob)
        with tempfile.NamedTemporaryFile("w", suffix=".smt2", delete=False) as f:
            f.write("(set-logic ALL)\n" + smt2)
            path = f.name
        try:
            for cmd, name, tmo in (
                (["/usr/bin/cvc5", "--tlimit", str(CVC5_TIMEOUT_S * 1000), path], "cvc5 1.0.3", CVC5_TIMEOUT_S + 5),
                (["z3-new", f"-T:{Z3NEW_TIMEOUT_S}", path], "z3-new 5.1.0", Z3NEW_TIMEOUT_S + 5),
            ):
                try:
                    p = subprocess.run(cmd, capture_output=True, text=True, timeout=tmo)
                    first = (p.stdout.strip().splitlines() or [""])[0].strip()
                    if first in ("unsat", "sat"):
                        out.update(verdict=first, solver=name)
                        if first == "sat":
                            out["reason"] += f" | {name}: sat (model not extracted)"
                        break
                    out["reason"] += f" | {name}: {first or p.stderr.strip()[:80]}"
                except subprocess.TimeoutExpired:
                    out["reason"] += f" | {name}: timeout"
                except FileNotFoundError:
                    out["reason"] += f" | {name}: not installed"
        finally:
            os.unlink(path)
    if out["verdict"] == "unknown" and os.environ.get("VF_VC_DUMP"):
        # post-mortem material: the query no back end could decide, as text (the replay file points at it)
        try:
            import re as _re
            os.makedirs(os.environ["VF_VC_DUMP"], exist_ok=True)
            fn = os.path.join(os.environ["VF_VC_DUMP"], _re.sub(r"[^A-Za-z0-9_.]+", "_", ob.name) + f"_path{ob.path}.smt2")
            with open(fn, "w") as fh:
                fh.write("; " + ob.name + " path %d line %d: %s\n(set-logic ALL)\n" % (ob.path, ob.line, ob.text[:200]) + to_smt2(ob))
            out["vc_file"] = fn
        except Exception:  # pragma: no cover
            pass
    if out["verdict"] == "unknown":
        # no verdict on the full query: a model of its quantifier-free part is attached as a *candidate* input only
        # (the verdict stays unknown; the native replay decides whether the candidate really fails)
        try:
            s = _build_solver(ob, 3000, qf_only=True)
            if s.check() == z3.sat:
                m = s.model()
                out["model"] = {d.name(): str(m[d])[:400] for d in m.decls() if d.arity() == 0}
                out["reason"] += " | candidate model from the quantifier-free part"
        except Exception:  # pragma: no cover
            pass
    out["time"] = time.time() - t0
    return out


def _external(ob, only=None):
    smt2 = to_smt2(ob)
    with tempfile.NamedTemporaryFile("w", suffix=".smt2", delete=False) as f:
        f.write("(set-logic ALL)\n" + smt2)
        path = f.name
    try:
        for cmd, name, tmo in ((["/usr/bin/cvc5", "--tlimit", str(CVC5_TIMEOUT_S * 1000), path], "cvc5 1.0.3", CVC5_TIMEOUT_S + 5),):
            try:
                p = subprocess.run(cmd, capture_output=True, text=True, timeout=tmo)
                first = (p.stdout.strip().splitlines() or [""])[0].strip()
                if first in ("unsat", "sat"):
                    return first, name
            except (subprocess.TimeoutExpired, FileNotFoundError):
                pass
    finally:
        os.unlink(path)
    return None


def _solve_cover(idx, ob, t0):
    out = {"idx": idx, "verdict": "unknown", "solver": None, "time": 0.0, "model": None, "reason": ""}
    for qf, label, tmo in ((False, "z3 (full)", 2000), (True, "z3 (quantifier-free part)", 5000)):
        try:
            s = _build_solver(ob, tmo, qf_only=qf)
            r = s.check()
        except Exception as e:  # pragma: no cover
            out["reason"] += f" | {label}: {e}"
            continue
        if r == z3.unsat:
            out.update(verdict="unsat", solver=label)
            break
        if r == z3.sat:
            out.update(verdict="sat" if not qf else "qf-sat", solver=label)
            break
        out["reason"] += f" | {label}: unknown"
    out["time"] = time.time() - t0
    return out


def discharge(obligs: List[Oblig], procs: int = None, one_query_per_process: bool = False) -> List[Dict[str, Any]]:
    """Returns one result dict per obligation (same order)."""
    global _OBLIGS
    procs = procs or min(16, os.cpu_count() or 4)
    results: List[Dict[str, Any]] = [None] * len(obligs)  # type: ignore
    jobs = []
    seen: Dict[Any, int] = {}
    dup_of: Dict[int, int] = {}
    for i, ob in enumerate(obligs):
        if not ob.expect_sat and z3.is_true(ob.goal):
            results[i] = {"idx": i, "verdict": "unsat", "solver": "syntactic", "time": 0.0, "model": None, "reason": ""}
            continue
        h = (ob.expect_sat, ob.goal.get_id(), tuple(a.get_id() for a in ob.assumptions))
        if h in seen:
            dup_of[i] = seen[h]
            continue
        seen[h] = i
        jobs.append(i)
    _OBLIGS = obligs
    if jobs:
        if procs > 1 and len(jobs) > 1:
            # one_query_per_process: every query is solved in a child forked from *this* process as it is now
            with mp.get_context("fork").Pool(min(procs, len(jobs)), maxtasksperchild=1 if one_query_per_process else None) as pool:
                for r in pool.imap_unordered(_solve_one, jobs, chunksize=1):
                    results[r["idx"]] = r
        else:
            for j in jobs:
                r = _solve_one(j)
                results[r["idx"]] = r
    # second chance for "no verdict": such answers were seen only while several checks competed for the machine (the same
    # query is discharged in 0.0 s when run alone), so the few open ones are asked again, four at a time, after the pool
    # has drained.  A genuinely failing obligation is `sat` or stays unknown; nothing is ever upgraded to a violation here.
    again = [j for j in jobs if results[j] is not None and results[j]["verdict"] == "unknown" and not obligs[j].expect_sat]
    if 0 < len(again) <= 24 and procs > 1:
        with mp.get_context("fork").Pool(min(4, len(again)), maxtasksperchild=1 if one_query_per_process else None) as pool:
            for r in pool.imap_unordered(_solve_one, again, chunksize=1):
                if r["verdict"] != "unknown":
                    r["solver"] = (r["solver"] or "") + " (second pass)"
                    r["time"] += results[r["idx"]]["time"]
                    results[r["idx"]] = r
    for i, j in dup_of.items():
        results[i] = dict(results[j], idx=i, time=0.0, solver=(results[j]["solver"] or "") + " (shared)")
    return results
