"""Execution state, obligations, and value helpers shared by the executor mixins."""
from __future__ import annotations

import ast
from dataclasses import dataclass, field
from typing import Any, Dict, List, Optional

import z3

from .sorts import (
    BOOL, INT, NONE, REAL, STR, LIST, OPT, TUPLE, OPAQUE, Sort, V, VSeq, VRef, VTuple, VFunc,
    ObjState, Piece, Unsupported, fresh_name, BVW,
)


@dataclass
class Exc:
    name: str
    msg: str = ""
    line: int = 0


@dataclass
class Oblig:
    name: str  # stable class name: <module>.<func>::<kind>[<idx>]...
    kind: str
    fn: str
    line: int
    assumptions: List[Any]
    goal: Any
    text: str = ""
    path: int = 0
    serves: List[str] = field(default_factory=list)
    expect_sat: bool = False  # cover / reachability checks: `sat` is the good answer
    hint: Optional[str] = None  # back end that discharged this class when the ledger was recorded


class State:
    __slots__ = ("env", "heap", "pc", "old", "catching", "ghost_old_heap", "depth", "writebacks", "held")

    def __init__(self):
        self.env: Dict[str, Any] = {}
        self.heap: Dict[int, Any] = {}
        self.pc: List[Any] = []
        self.old: Optional["State"] = None
        self.catching: List[List[str]] = []  # stack of exception-name lists caught by enclosing try
        self.depth = 0
        self.writebacks: List[Any] = []  # (dict ref, key term, object ref): thawed container elements
        self.held: List[str] = []  # monitor locks currently held (outermost first)

    def copy(self) -> "State":
        s = State()
        s.env = dict(self.env)
        s.heap = {k: (ObjState(v.cls, dict(v.fields)) if isinstance(v, ObjState) else v) for k, v in self.heap.items()}
        s.pc = list(self.pc)
        s.old = self.old
        s.catching = [list(c) for c in self.catching]
        s.depth = self.depth
        s.writebacks = list(self.writebacks)
        s.held = list(self.held)
        return s

    def assume(self, t):
        if z3.is_true(t):
            return
        self.pc.append(t)

    def snapshot(self) -> "State":
        s = self.copy()
        s.old = None
        return s


_ref_counter = [0]


def reset_refs():
    _ref_counter[0] = 0


def new_ref() -> int:
    _ref_counter[0] += 1
    return _ref_counter[0]


# exception hierarchy (builtins relevant to rich + names parsed from rich.errors at load time)
EXC_PARENTS = {
    "BaseException": None,
    "Exception": "BaseException",
    "ArithmeticError": "Exception",
    "ZeroDivisionError": "ArithmeticError",
    "LookupError": "Exception",
    "IndexError": "LookupError",
    "KeyError": "LookupError",
    "ValueError": "Exception",
    "UnicodeError": "ValueError",
    "TypeError": "Exception",
    "AttributeError": "Exception",
    "AssertionError": "Exception",
    "StopIteration": "Exception",
    "RuntimeError": "Exception",
    "NotImplementedError": "RuntimeError",
    "OSError": "Exception",
    # rich
    "ConsoleError": "Exception",
    "StyleError": "Exception",
    "StyleSyntaxError": "ConsoleError",
    "MissingStyle": "StyleError",
    "StyleStackError": "ConsoleError",
    "NotRenderableError": "ConsoleError",
    "MarkupError": "ConsoleError",
    "LiveError": "ConsoleError",
    "ColorParseError": "Exception",
    "ThemeStackError": "Exception",
}


def exc_is(name: str, parent: str) -> bool:
    cur = name
    while cur is not None:
        if cur == parent:
            return True
        cur = EXC_PARENTS.get(cur, "Exception" if cur not in ("BaseException",) else None)
        if cur == name:
            break
    return False
