"""Machine check of the induction proofs behind the lemma schemas that the engine instantiates as facts.

Each schema  "forall a, lo, n >= 0.  P(a, lo, lo + n)"  is proved by induction on n; z3 will not do the induction
itself, so the two proof steps are discharged here as ordinary (quantifier-light) queries over skolem constants:

    base:  P(a, lo, lo)
    step:  P(a, lo, hi)  and  the one-step unfolding of the prefix-sum function at hi   =>   P(a, lo, hi + 1)

The induction principle over the naturals itself is the only thing left trusted.  `check_all()` returns one row per
schema; contracts/z_lemmas.py registers it as a data obligation, so a schema whose step no longer checks is a
violation of every property that relies on it.
"""
from __future__ import annotations

import z3

from . import seqs


def _unsat(*fmls, timeout=20000):
    s = z3.Solver()
    s.set("timeout", timeout)
    for f in fmls:
        s.add(f)
    return s.check() == z3.unsat


def _needs(*fmls):
    """vacuity guard: without the unfolding equation the step must NOT be provable (else the hypotheses are contradictory
    or the statement is trivial)"""
    s = z3.Solver()
    s.set("timeout", 5000)
    for f in fmls:
        s.add(f)
    return s.check() == z3.sat


def _psum_nonneg():
    a = z3.Const("a", seqs.IntArr)
    lo, hi = z3.Ints("lo hi")
    k, e = z3.Ints("k e")

    def P(h):
        nonneg = z3.ForAll([k], z3.Implies(z3.And(lo <= k, k < h), a[k] >= 0))
        total = seqs.psum(a, h) - seqs.psum(a, lo)
        return z3.Implies(nonneg, z3.And(total >= 0, z3.ForAll([e], z3.Implies(z3.And(lo <= e, e < h), a[e] <= total))))

    unfold = seqs.psum(a, hi + 1) == seqs.psum(a, hi) + a[hi]
    return _unsat(z3.Not(P(lo))), _unsat(lo <= hi, P(hi), unfold, z3.Not(P(hi + 1))), _needs(lo <= hi, P(hi), z3.Not(P(hi + 1)))


def _psum_nonpos():
    a = z3.Const("a", seqs.IntArr)
    lo, hi = z3.Ints("lo hi")
    k = z3.Int("k")

    def P(h):
        nonpos = z3.ForAll([k], z3.Implies(z3.And(lo <= k, k < h), a[k] <= 0))
        return z3.Implies(nonpos, seqs.psum(a, h) - seqs.psum(a, lo) <= 0)

    unfold = seqs.psum(a, hi + 1) == seqs.psum(a, hi) + a[hi]
    return _unsat(z3.Not(P(lo))), _unsat(lo <= hi, P(hi), unfold, z3.Not(P(hi + 1))), _needs(lo <= hi, P(hi), z3.Not(P(hi + 1)))


def _rpsum_nonneg():
    a = z3.Const("ra", seqs.RealArr)
    lo, hi = z3.Ints("lo hi")
    k = z3.Int("k")

    def P(h):
        nonneg = z3.ForAll([k], z3.Implies(z3.And(lo <= k, k < h), a[k] >= 0))
        return z3.Implies(nonneg, seqs.rpsum(a, h) - seqs.rpsum(a, lo) >= 0)

    unfold = seqs.rpsum(a, hi + 1) == seqs.rpsum(a, hi) + a[hi]
    return _unsat(z3.Not(P(lo))), _unsat(lo <= hi, P(hi), unfold, z3.Not(P(hi + 1))), _needs(lo <= hi, P(hi), z3.Not(P(hi + 1)))


def _pcell_mono():
    """0 <= pcell(a, j) - pcell(a, i) <= 2 (j - i) for i <= j, from the unfolding and 0 <= W <= 2 (induction on j)"""
    a = z3.Const("a", seqs.IntArr)
    i, j = z3.Ints("i j")

    def P(h):
        d = seqs.pcell(a, h) - seqs.pcell(a, i)
        return z3.And(d >= 0, d <= 2 * (h - i))

    unfold = seqs.pcell(a, j + 1) == seqs.pcell(a, j) + seqs.W(a[j])
    wr = z3.And(seqs.W(a[j]) >= 0, seqs.W(a[j]) <= 2)
    return _unsat(z3.Not(P(i))), _unsat(i <= j, P(j), unfold, wr, z3.Not(P(j + 1))), _needs(i <= j, P(j), wr, z3.Not(P(j + 1)))


def _sum_congruence():
    """pointwise equal summands on [lo, hi) => equal sums (the engine proves the pointwise premise per use)"""
    a, b = z3.Const("a", seqs.IntArr), z3.Const("b", seqs.IntArr)
    lo, hi = z3.Ints("lo hi")
    k = z3.Int("k")

    def P(h):
        same = z3.ForAll([k], z3.Implies(z3.And(lo <= k, k < h), a[k] == b[k]))
        return z3.Implies(same, seqs.psum(a, h) - seqs.psum(a, lo) == seqs.psum(b, h) - seqs.psum(b, lo))

    unfold = z3.And(seqs.psum(a, hi + 1) == seqs.psum(a, hi) + a[hi], seqs.psum(b, hi + 1) == seqs.psum(b, hi) + b[hi])
    return _unsat(z3.Not(P(lo))), _unsat(lo <= hi, P(hi), unfold, z3.Not(P(hi + 1))), _needs(lo <= hi, P(hi), z3.Not(P(hi + 1)))


def _cells_congruence():
    """summands equal to W of the code points => the sum is the cell-width prefix difference"""
    a, cp = z3.Const("a", seqs.IntArr), z3.Const("cp", seqs.IntArr)
    lo, hi = z3.Ints("lo hi")
    k = z3.Int("k")

    def P(h):
        same = z3.ForAll([k], z3.Implies(z3.And(lo <= k, k < h), a[k] == seqs.W(cp[k])))
        return z3.Implies(same, seqs.psum(a, h) - seqs.psum(a, lo) == seqs.pcell(cp, h) - seqs.pcell(cp, lo))

    unfold = z3.And(seqs.psum(a, hi + 1) == seqs.psum(a, hi) + a[hi], seqs.pcell(cp, hi + 1) == seqs.pcell(cp, hi) + seqs.W(cp[hi]))
    return _unsat(z3.Not(P(lo))), _unsat(lo <= hi, P(hi), unfold, z3.Not(P(hi + 1))), _needs(lo <= hi, P(hi), z3.Not(P(hi + 1)))


def _sum_linear():
    """c[k] == p * a[k + u] + q * b[k + v] + d on [0, n)  =>  sum c == p * sum a + q * sum b + d * n"""
    a, b, c = z3.Const("a", seqs.IntArr), z3.Const("b", seqs.IntArr), z3.Const("c", seqs.IntArr)
    p, q, d, u, v, n = z3.Ints("p q d u v n")
    k = z3.Int("k")
    # p, q concrete in every instance; 2 and -1 stand for "any numerals" here (the step is the same linear identity)
    P_ = lambda pp, qq: (lambda h: z3.Implies(
        z3.ForAll([k], z3.Implies(z3.And(0 <= k, k < h), c[k] == pp * a[k + u] + qq * b[k + v] + d)),
        seqs.psum(c, h) - seqs.psum(c, 0) == pp * (seqs.psum(a, u + h) - seqs.psum(a, u)) + qq * (seqs.psum(b, v + h) - seqs.psum(b, v)) + d * h))
    ok = []
    for pp, qq in ((1, 1), (1, -1), (2, 3), (1, 0)):
        P = P_(pp, qq)
        unfold = z3.And(seqs.psum(c, n + 1) == seqs.psum(c, n) + c[n], seqs.psum(a, u + n + 1) == seqs.psum(a, u + n) + a[u + n],
                        seqs.psum(b, v + n + 1) == seqs.psum(b, v + n) + b[v + n])
        ok.append((_unsat(z3.Not(P(z3.IntVal(0)))), _unsat(0 <= n, P(n), unfold, z3.Not(P(n + 1))), _needs(0 <= n, P(n), z3.Not(P(n + 1)))))
    return all(x[0] for x in ok), all(x[1] for x in ok), all(x[2] for x in ok)


def _prefix_mono():
    """any prefix-sum function f(i + 1) = f(i) + m(i) with m >= 0 is monotone (segcells, joinlen, joincells)"""
    f = z3.Function("f", z3.IntSort(), z3.IntSort())
    m = z3.Function("m", z3.IntSort(), z3.IntSort())
    i, j = z3.Ints("i j")
    P = lambda h: f(i) <= f(h)
    unfold = z3.And(f(j + 1) == f(j) + m(j), m(j) >= 0)
    return _unsat(z3.Not(P(i))), _unsat(i <= j, P(j), unfold, z3.Not(P(j + 1))), _needs(i <= j, P(j), z3.Not(P(j + 1)))


SCHEMAS = {
    "sum linearity (sum of a pointwise linear combination of arrays)": _sum_linear,
    "prefix sums of a non-negative measure are monotone (segcells / joinlen / joincells)": _prefix_mono,
    "psum_nonneg (sum of non-negatives is non-negative and bounds its elements)": _psum_nonneg,
    "psum_nonpos (sum of non-positives is non-positive)": _psum_nonpos,
    "rpsum_nonneg (real-valued sums)": _rpsum_nonneg,
    "pcell.mono (cell-width prefix sums are monotone with slope <= 2)": _pcell_mono,
    "sum congruence (pointwise equal summands, equal sums)": _sum_congruence,
    "cells congruence (summands W(cp[k]) sum to the cell width)": _cells_congruence,
}


def check_all():
    rows = []
    for name, fn in SCHEMAS.items():
        base, step, needs_unfolding = fn()
        rows.append((name, base, step, needs_unfolding))
    return rows


if __name__ == "__main__":
    for name, base, step, nv in check_all():
        print(("ok  " if base and step and nv else "FAIL"), name, "base" if base else "BASE-FAILS", "step" if step else "STEP-FAILS", "non-vacuous" if nv else "VACUOUS")
