"""Top-level: generate the verification conditions of one contract / lemma from the real source."""
from __future__ import annotations

import ast
import time
from typing import Any, Dict, List

import z3

from . import seqs, source
from .contracts import Contract, Lemma, Registry, parse_expr
from .exec_builtin import BuiltinMixin
from .exec_call import CallMixin
from .exec_core import Core
from .exec_expr import ExprMixin
from .exec_stmt import StmtMixin
from .sorts import *  # noqa
from .state import Exc, Oblig, State, exc_is, new_ref

try:
    from .exec_dict import DictMixin
except ImportError:  # pragma: no cover
    class DictMixin:  # type: ignore
        pass

try:
    from .exec_monitor import MonitorMixin
except ImportError:  # pragma: no cover
    class MonitorMixin:  # type: ignore
        pass


def c_qual(ex):
    return ex.c.qual


class Exec(MonitorMixin, DictMixin, StmtMixin, CallMixin, BuiltinMixin, ExprMixin, Core):
    def __init__(self, registry: Registry, contract: Contract):
        from . import sorts as _sorts, state as _state
        _sorts.reset_counter()
        _state.reset_refs()
        Core.__init__(self, registry, contract)
        self.cur_mod = self.mod
        self.cur_loopbase = None
        self.contract_stack = [contract]
        self.loop_ordinals: Dict[int, int] = {}
        self._mods_seen: set = set()

    def index_loops(self, fn):
        loops = [n for n in ast.walk(fn) if isinstance(n, (ast.For, ast.While))]
        loops.sort(key=lambda n: (n.lineno, n.col_offset))
        for k, n in enumerate(loops):
            self.loop_ordinals[id(n)] = k

    # calls into inlined functions need that function's loop table
    def call_function(self, mod, qual, args, kwargs, st):
        c = self.reg.contracts.get((mod.name, qual))
        if c is not None and c.inline:
            fn = mod.funcs.get(qual)
            self.index_loops(fn)
            self.contract_stack.append(c)
            try:
                outs = list(CallMixin.call_function(self, mod, qual, args, kwargs, st))
            finally:
                self.contract_stack.pop()
            yield from outs
        else:
            yield from CallMixin.call_function(self, mod, qual, args, kwargs, st)

    # ------------------------------------------------------------------ function contracts
    def entry_states(self, fn) -> List[State]:
        c = self.c
        names = [a.arg for a in fn.args.posonlyargs + fn.args.args + fn.args.kwonlyargs]
        if fn.args.vararg is not None:
            names.append(fn.args.vararg.arg)
        if fn.args.kwarg is not None:
            names.append(fn.args.kwarg.arg)
        alts: List[Dict[str, str]] = [{}]
        for n in names:
            if n not in c.params:
                if n == "cls":
                    continue
                raise Unsupported(f"parameter {n} of {c.qual} has no declared sort")
            so = c.params[n]
            options = so if isinstance(so, (list, tuple)) else [so]
            alts = [dict(a, **{n: o}) for a in alts for o in options]
        states = []
        for alt in alts:
            st = State()
            for n, stext in alt.items():
                st.env[n] = self.fresh(self.parse_sort(stext), n, st, as_ref=True)
            if "cls" in names and "cls" not in alt:
                st.env["cls"] = VFunc("class", c.func.split(".")[0], data=c.module)
            for g, stext in c.ghost.items():
                if g == "yields":
                    r = new_ref()
                    st.heap[r] = VSeq(self.parse_sort(stext), [])
                    st.env["__yielded__"] = VRef(r)
                else:
                    st.env[g] = self.fresh(self.parse_sort(stext), g, st, as_ref=False)
            states.append(st)
        return states

    def generate(self) -> List[Oblig]:
        c = self.c
        fn = self.mod.func(c.func)
        self.index_loops(fn)
        decos = self.mod.decorators(fn)
        if any("lru_cache" in d for d in decos) and not c.pure:
            raise Unsupported("@lru_cache on a function whose contract is not declared pure")
        if c.pure:
            self.check_pure(fn)
        body = self.body_of(fn)
        n_returns = 0
        for st in self.entry_states(fn):
            for r in c.requires:
                st.assume(self.spec_bool(r, {}, st))
            for r in c.scope:
                st.assume(self.spec_bool(r, {}, st))
                self.trusted_used.add(f"{c.qual}: scope restriction `{r}` (paths outside it are not verified)")
            st.old = st.snapshot()
            if c.cover:
                self.obligs.append(Oblig(f"{c.qual}::cover.requires", "cover", c.qual, fn.lineno, list(self.global_facts) + list(st.pc), z3.BoolVal(True), "precondition is satisfiable", 0, list(c.serves), True))
            for sig, s in self.exec_block(body, st):
                self.path_counter += 1
                if sig[0] in ("next", "return"):
                    n_returns += 1
                    val = sig[1] if sig[0] == "return" else V(NONE, None)
                    if "__yielded__" in s.env:
                        val = s.env["__yielded__"]
                    self.check_post(val, s)
                elif sig[0] == "raise":
                    self.check_raise(sig[1], s)
                else:
                    raise Unsupported("break/continue outside a loop")
        if n_returns == 0 and not c.raises:
            raise Unsupported("no normal return path found")
        return self.obligs

    def check_pure(self, fn):
        """syntactic purity (needed for @lru_cache transparency): no global/nonlocal, no store through a
        parameter or a module-level name"""
        params = {a.arg for a in fn.args.posonlyargs + fn.args.args + fn.args.kwonlyargs}
        local = set()
        for n in ast.walk(fn):
            if isinstance(n, ast.Name) and isinstance(n.ctx, ast.Store):
                local.add(n.id)
        for n in ast.walk(fn):
            if isinstance(n, (ast.Global, ast.Nonlocal)):
                raise Unsupported("pure contract: global/nonlocal statement")
            if isinstance(n, (ast.Attribute, ast.Subscript)) and isinstance(n.ctx, (ast.Store, ast.Del)):
                root = n
                while isinstance(root, (ast.Attribute, ast.Subscript)):
                    root = root.value
                if not (isinstance(root, ast.Name) and root.id in local and root.id not in params):
                    self.oblige(State(), z3.BoolVal(False), "pure", f"store through non-local {ast.unparse(n)[:40]} in a pure function", name=f"{self.c.qual}::pure")
        self.oblige(State(), z3.BoolVal(True), "pure", "no store to non-local state", name=f"{self.c.qual}::pure")

    def check_post(self, val, st: State):
        c = self.c
        if hasattr(self, "flush_writebacks"):
            self.flush_writebacks(st)
        if c.monitor:
            self.oblige(st, z3.BoolVal(True), "lock-discipline", "protected state only touched under its lock", name=f"{c.qual}::lock-discipline")
        if c.returns:
            try:
                rs = self.parse_sort(c.returns)
                if rs.kind in ("opt", "real"):
                    val = self.coerce_arg(val, rs, st)
            except Unsupported:
                pass
        env = {"result": val}
        if st.old is not None:
            # parameter names in postconditions denote the values / references passed in
            for p_ in c.params:
                if p_ in st.old.env:
                    env[p_] = st.old.env[p_]
        self.check_frame(st, "normal return")
        for k, h in enumerate(c.hints):
            g = self.spec_bool(h, env, st)
            self.oblige(st, g, "hint", f"hint {h}", name=f"{c.qual}::hint[{k}]")
        for k, e in enumerate(c.ensures):
            g = self.spec_bool(e, env, st)
            self.oblige(st, g, "ensures", e, name=f"{c.qual}::ensures[{k}]")
        if c.cover:
            self.obligs.append(Oblig(f"{c.qual}::cover.return", "cover", c.qual, self.cur_line, list(self.global_facts) + list(st.pc), z3.BoolVal(True), "some normal return is reachable", self.path_counter, list(c.serves), True))

    # ------------------------------------------------------------------ frame conditions
    def check_frame(self, st: State, where: str):
        """Every field of every mutable parameter that the contract's `modifies` does not list is unchanged (callers
        havoc exactly the `modifies` list at a call, so an undeclared effect would make them unsound)."""
        c = self.c
        if st.old is None:
            return
        mods = set(c.modifies or [])
        if c.monitor:
            # monitor-protected fields are shared with other threads: what they hold at return is governed by the monitor
            # invariant, not by this function's frame
            for p_ in c.params:
                ov = st.old.env.get(p_)
                o = st.old.heap.get(ov.ref) if isinstance(ov, VRef) else None
                if isinstance(o, ObjState) and o.cls == c.monitor.get("cls"):
                    mods.update(f"{p_}.{f}" for f in c.monitor.get("protects", []))
        seen = set()
        for p_ in c.params:
            ov = st.old.env.get(p_)
            if isinstance(ov, VRef) and p_ not in mods:
                self._frame_ref(p_, ov.ref, st, mods, seen, where)

    def _frame_ref(self, path, ref, st, mods, seen, where):
        if ref in seen or ref not in st.heap or ref not in st.old.heap:
            return
        seen.add(ref)
        old, new = st.old.heap[ref], st.heap[ref]
        if isinstance(old, VSeq) and isinstance(new, VSeq):
            if old is new or old.elem.kind in ("str", "list") or (old.elem.kind == "rec" and self.U.records[old.elem.name].mutable):
                return
            self.oblige(st, seqs.seq_eq(new, old), "frame", f"{path} is not modified ({where})", name=f"{c_qual(self)}::frame[{path}]")
            return
        if not (isinstance(old, ObjState) and isinstance(new, ObjState)) or old.cls != new.cls:
            return
        decl = self.U.records[old.cls]
        for f, fs in decl.fields:
            q = f"{path}.{f}"
            if q in mods:
                continue
            ov, nv = old.fields[f], new.fields[f]
            if ov is nv and not isinstance(ov, VRef):
                continue
            if isinstance(ov, VRef) and isinstance(nv, VRef) and ov.ref == nv.ref:
                self._frame_ref(q, ov.ref, st, mods, seen, where)
                continue
            try:
                a, b = self.deref(nv, st), self.deref(ov, st.old)
                if isinstance(a, VSeq) and isinstance(b, VSeq):
                    if a.elem.kind in ("str", "list"):
                        continue
                    goal = seqs.seq_eq(a, b)
                else:
                    goal = self.to_term(nv, fs, st) == self.to_term(ov, fs, st.old)
            except Unsupported:
                continue
            self.oblige(st, goal, "frame", f"{q} is not modified ({where})", name=f"{c_qual(self)}::frame[{q}]")

    def check_raise(self, exc: Exc, st: State):
        c = self.c
        allowed = [a for a in c.raises if exc_is(exc.name, a)]
        if not allowed:
            # the path must be infeasible
            self.cur_line = exc.line or self.cur_line
            self.oblige(st, z3.BoolVal(False), "raises", f"{exc.name} must not escape ({exc.msg})", name=f"{c.qual}::raises.none-but-declared")
            return
        cond = c.raises[allowed[0]]
        if cond != "*":
            saved = st.old
            g = self.spec_bool(cond, {}, st.old.copy()) if st.old is not None else z3.BoolVal(True)
            # evaluated on the pre-state
            self.oblige(st, g, "raises", f"{exc.name} only when {cond}", name=f"{c.qual}::raises.{allowed[0]}.when")
        self.check_frame(st, f"{allowed[0]} raised")
        env = {}
        if st.old is not None:
            for p_ in c.params:
                if p_ in st.old.env:
                    env[p_] = st.old.env[p_]
        for k, e in enumerate(c.ensures_raise.get(allowed[0], [])):
            g = self.spec_bool(e, env, st)
            self.oblige(st, g, "ensures_raise", e, name=f"{c.qual}::ensures_raise.{allowed[0]}[{k}]")


def generate_lemma(reg: Registry, lem: Lemma) -> List[Oblig]:
    c = Contract(module="<lemma>", func=lem.name, serves=lem.serves, bv=lem.bv, kind="lemma")
    ex = Exec(reg, c)
    ex.cur_fn = f"lemma.{lem.name}"
    st = State()
    for n, stext in lem.vars.items():
        st.env[n] = ex.fresh(ex.parse_sort(stext), n, st, as_ref=False)
    for a in lem.assumes:
        st.assume(ex.spec_bool(a, {}, st))
    ex.obligs.append(Oblig(f"lemma.{lem.name}::cover", "cover", ex.cur_fn, 0, list(st.pc), z3.BoolVal(True), "lemma hypotheses are satisfiable", 0, list(lem.serves), True))
    for k, cl in enumerate(lem.claims):
        s2 = st.copy()
        g = ex.spec_bool(cl, {}, s2)
        ex.oblige(s2, g, "lemma", cl, name=f"lemma.{lem.name}::claim[{k}]")
    return ex.obligs, ex
