"""Sorts and values of the pyvc symbolic executor.

Every Python value met while executing a function body symbolically is one of

  V(sort, term)   a z3 term of the z3 sort that `sort` maps to (int, bool, float-as-real,
                  None, Optional[T], records (NamedTuple / slotted classes seen as values),
                  tuples stored inside containers, sequences stored inside containers)
  VSeq            a *rope*: Python-level list of pieces over z3 arrays; used for `str`
                  (elements are code points) and for lists while they are manipulated
  VRef            reference to a mutable heap cell (list or object under construction)
  VTuple          Python-level tuple (fixed arity)
  VFunc           function / bound method / class / builtin reference (resolved at call time)

Integers are mathematical (z3 Int) unless the function is executed in `bv` mode, in which
every int is a 64-bit vector (used for the bit-mask code of rich.style, where ~ & | << occur).
Floats are z3 Reals: machine rounding is *not* modelled (assumption A5 in DESIGN.md).
"""
from __future__ import annotations

import itertools
from dataclasses import dataclass, field
from typing import Any, Callable, Dict, List, Optional, Sequence, Tuple

import z3

BVW = 64


class Unsupported(Exception):
    """A construct outside the modelled subset; the function's obligations become undecided."""


# --------------------------------------------------------------------------- sorts


@dataclass(frozen=True)
class Sort:
    kind: str  # int bool real none str list opt rec tuple opaque any
    args: Tuple[Any, ...] = ()
    name: str = ""

    def __str__(self) -> str:
        if self.kind in ("int", "bool", "real", "none", "str", "any", "ostr"):
            return self.kind
        if self.kind == "list":
            return f"list[{self.args[0]}]"
        if self.kind == "opt":
            return f"Optional[{self.args[0]}]"
        if self.kind == "tuple":
            return "tuple[" + ",".join(str(a) for a in self.args) + "]"
        if self.kind == "dict":
            return f"dict[{self.args[0]},{self.args[1]}]"
        return self.name or self.kind


INT = Sort("int")
BOOL = Sort("bool")
REAL = Sort("real")
NONE = Sort("none")
STR = Sort("str")
OSTR = Sort("ostr")  # strings of which only the identity matters (names, links): uninterpreted sort


def LIST(t: Sort) -> Sort:
    return Sort("list", (t,))


def OPT(t: Sort) -> Sort:
    if t.kind == "opt":
        return t
    return Sort("opt", (t,))


def TUPLE(*ts: Sort) -> Sort:
    return Sort("tuple", tuple(ts))


def OPAQUE(name: str) -> Sort:
    return Sort("opaque", (), name)


class RecordDecl:
    """Declared record / class sort: ordered (field, sort) pairs."""

    def __init__(self, name: str, fields: Sequence[Tuple[str, Sort]], mutable=False, positional=None, pyclass=None, bases=()):
        self.name = name
        self.pyclass = pyclass
        self.bases = list(bases)
        self.fields = list(fields)
        self.mutable = mutable
        # fields that tuple-unpacking / positional construction sees (NamedTuple order)
        self.positional = positional if positional is not None else [f for f, _ in fields]

    def field_sort(self, name: str) -> Sort:
        for f, s in self.fields:
            if f == name:
                return s
        raise KeyError(name)

    def has(self, name):
        return any(f == name for f, _ in self.fields)


class SortUniverse:
    """Maps Sorts to z3 sorts (datatypes are created on demand and cached)."""

    def __init__(self, bv: bool = False):
        self.bv = bv
        self.records: Dict[str, RecordDecl] = {}
        self._z3: Dict[Sort, Any] = {}
        self._opaque: Dict[str, Any] = {}
        self._seqdt: Dict[Any, Any] = {}

    # ---- declarations
    def declare_record(self, decl: RecordDecl) -> Sort:
        self.records[decl.name] = decl
        return Sort("rec", (), decl.name)

    def rec(self, name: str) -> Sort:
        if name not in self.records:
            raise Unsupported(f"undeclared record sort {name}")
        return Sort("rec", (), name)

    # ---- z3 sorts
    def intsort(self):
        return z3.BitVecSort(BVW) if self.bv else z3.IntSort()

    def z3sort(self, s: Sort):
        if s in self._z3:
            return self._z3[s]
        k = s.kind
        if k == "int":
            r = self.intsort()
        elif k == "bool":
            r = z3.BoolSort()
        elif k == "real":
            r = z3.RealSort()
        elif k == "none":
            r = self._unit()
        elif k == "ostr":
            if "ostr" not in self._opaque:
                self._opaque["ostr"] = z3.DeclareSort("OStr")
            r = self._opaque["ostr"]
        elif k == "str":
            r = self.seqdt(z3.IntSort())
        elif k == "list":
            r = self.seqdt(self.z3sort(s.args[0]))
        elif k == "opt":
            inner = self.z3sort(s.args[0])
            sn = _sname(s.args[0]) + self._sfx()
            dt = z3.Datatype(f"Opt_{sn}")
            dt.declare(f"none_{sn}")
            dt.declare(f"some_{sn}", (f"val_{sn}", inner))
            r = dt.create()
            r.none, r.some, r.val = r.constructor(0)(), r.constructor(1), r.accessor(1, 0)
            r.is_none, r.is_some = r.recognizer(0), r.recognizer(1)
        elif k == "tuple":
            tn = "Tup_" + "_".join(_sname(a) for a in s.args) + self._sfx()
            dt = z3.Datatype(tn)
            dt.declare(f"mk_{tn}", *[(f"{tn}_f{i}", self.z3sort(a)) for i, a in enumerate(s.args)])
            r = dt.create()
            r.mk = r.constructor(0)
        elif k == "rec":
            decl = self.records[s.name]
            rn = s.name + self._sfx()
            dt = z3.Datatype(f"Rec_{rn}")
            dt.declare(f"mk_{rn}", *[(f"{rn}__{f}", self.z3sort(fs)) for f, fs in decl.fields])
            r = dt.create()
            r.mk = r.constructor(0)
        elif k == "dict":
            r = z3.ArraySort(self.z3sort(s.args[0]), self.z3sort(OPT(s.args[1])))
        elif k == "opaque":
            if s.name not in self._opaque:
                self._opaque[s.name] = z3.DeclareSort(f"Opq_{s.name}")
            r = self._opaque[s.name]
        else:
            raise Unsupported(f"no z3 sort for {s}")
        self._z3[s] = r
        return r

    def _sfx(self):
        # datatypes of the 64-bit-vector universe get their own names: z3 keeps one global table of datatype names, and
        # a Rec_Style over Int next to a Rec_Style over BitVec in one process trips an internal assertion
        return "_bv" if self.bv else ""

    def _unit(self):
        if "unit" not in self._opaque:
            dt = z3.Datatype("Unit")
            dt.declare("unit")
            r = dt.create()
            r.unit = r.constructor(0)()
            self._opaque["unit"] = r
        return self._opaque["unit"]

    def seqdt(self, elem_z3):
        key = str(elem_z3)
        if key not in self._seqdt:
            kn = key.replace(' ', '_').replace('(', '').replace(')', '')
            dt = z3.Datatype(f"SeqV_{kn}")
            dt.declare(f"mkseq_{kn}", (f"arr_{kn}", z3.ArraySort(z3.IntSort(), elem_z3)), (f"len_{kn}", z3.IntSort()))
            r = dt.create()
            r.mk, r.arr, r.len = r.constructor(0), r.accessor(0, 0), r.accessor(0, 1)
            self._seqdt[key] = r
        return self._seqdt[key]


def _sname(s: Sort) -> str:
    return str(s).replace("[", "_").replace("]", "").replace(",", "_").replace(" ", "")


# --------------------------------------------------------------------------- values


@dataclass
class V:
    sort: Sort
    t: Any  # z3 term

    def __repr__(self):
        return f"V({self.sort},{self.t})"


@dataclass
class Piece:
    """A rope piece.  kind: 'view' (arr, lo, hi) / 'rep' (elem term, n) / 'lit' ([elem terms])"""

    kind: str
    a: Any = None
    lo: Any = None
    hi: Any = None
    items: Any = None

    def length(self):
        if self.kind == "view":
            return self.hi - self.lo
        if self.kind == "rep":
            return self.hi
        if self.kind == "reps":  # a literal unit of several elements repeated `hi` times
            return self.hi * len(self.items)
        return z3.IntVal(len(self.items))


@dataclass
class VSeq:
    elem: Sort  # element sort (INT code points for str)
    pieces: List[Piece]
    is_str: bool = False
    is_tuple: bool = False

    @property
    def sort(self) -> Sort:
        return STR if self.is_str else LIST(self.elem)

    def length(self):
        if not self.pieces:
            return z3.IntVal(0)
        r = self.pieces[0].length()
        for p in self.pieces[1:]:
            r = r + p.length()
        return z3.simplify(r)


@dataclass
class VRef:
    ref: int


@dataclass
class VTuple:
    items: List[Any]


@dataclass
class VFunc:
    kind: str  # 'contract' 'builtin' 'bound' 'class' 'local' 'specfn'
    name: str = ""
    obj: Any = None  # bound receiver
    data: Any = None


@dataclass
class ObjState:
    cls: str
    fields: Dict[str, Any]


_counter = itertools.count()


def reset_counter():
    """fresh names restart at 0 for every contract: the symbols of a VC (and with them z3's behaviour on it) then do not
    depend on which other contracts were processed before in the same run"""
    global _counter
    _counter = itertools.count()


def fresh_name(base: str) -> str:
    return f"{base}!{next(_counter)}".replace("'", "_p")
