"""Contract data model and registry (sidecar contracts: nothing in /repo is edited).

A contract is plain data.  Clause texts are Python expressions (parsed with `ast`) over the
function's parameters, `result`, `old(e)`, spec functions and quantifiers written as
`all(body for i in range(lo, hi))` / `any(...)`, so that the same text can also be evaluated
natively on concrete values (vf.rtc) — see DESIGN.md section 3.
"""
from __future__ import annotations

import ast
from dataclasses import dataclass, field
from typing import Any, Dict, List, Optional, Tuple


@dataclass
class Loop:
    header: str  # text the loop header must start with (moved/rewritten loops are noticed)
    invariant: List[str] = field(default_factory=list)
    index: Optional[str] = None  # name for the hidden iteration index of a `for` loop
    decreases: Optional[str] = None  # termination measure for `while`
    unroll: bool = False  # unroll a loop over a literal / constant range completely
    modifies: Optional[List[str]] = None  # extra names to havoc (default: syntactic analysis)


@dataclass
class Contract:
    module: str
    func: str  # qualified name inside the module, e.g. "Measurement.normalize"
    serves: List[str]
    params: Dict[str, Any] = field(default_factory=dict)  # name -> sort text (or list of alternatives)
    returns: Optional[str] = None
    requires: List[str] = field(default_factory=list)
    ensures: List[str] = field(default_factory=list)
    # exceptional postconditions: exception class -> condition text on the *pre* state under which
    # it may be raised ("*" = may be raised non-deterministically); anything not listed must not escape
    raises: Dict[str, str] = field(default_factory=dict)
    # for each allowed exception an optional list of clauses that must hold when it is raised
    ensures_raise: Dict[str, List[str]] = field(default_factory=dict)
    loops: Dict[int, Loop] = field(default_factory=dict)
    modifies: List[str] = field(default_factory=list)  # params / self fields the function may change
    pure: bool = False
    trusted: Optional[str] = None  # reason; a trusted contract is assumed at call sites and NOT verified
    inline: bool = False  # no contract of its own: body executed at every call site
    bv: bool = False  # execute with 64-bit vector integers
    ghost: Dict[str, str] = field(default_factory=dict)
    # scope restrictions: assumed at entry of the verified body, NOT required of callers (reported as an unchecked
    # assumption): paths outside the property's domain, e.g. "not self.console.is_jupyter"
    scope: List[str] = field(default_factory=list)
    lemmas: List[str] = field(default_factory=list)  # optional lemma schemas to instantiate ("psum_nonpos")
    hints: List[str] = field(default_factory=list)  # extra facts proved then assumed before `ensures`
    self_sort: Optional[str] = None
    cover: bool = True  # vacuity guard: at least one normal return path must be satisfiable
    notes: str = ""
    verify: bool = True
    max_paths: int = 4000
    kind: str = "function"  # or "lemma": body-less obligation over spec functions
    # parameters whose default is a module-private shared object (e.g. cell_len's `_cache`): when a call
    # omits them, a fresh object of the declared sort is used and the listed global-invariant clauses are
    # assumed for it (they hold initially and are preserved by the only function that can reach the object)
    shared_defaults: Dict[str, List[str]] = field(default_factory=dict)
    # monitor contract for `with self.<lock>:` regions (DESIGN 4.9):
    #   {"lock": "_lock", "cls": "Progress", "protects": [fields of self], "invariant": [clauses],
    #    "ghost_monotone": [ghost names that other threads may only increase]}
    monitor: Dict[str, Any] = field(default_factory=dict)
    # ghost globals updated by a call: name -> expression over params/result (e.g. a clock reading)
    ghost_update: Dict[str, str] = field(default_factory=dict)
    native_gen: Dict[str, Any] = field(default_factory=dict)  # param -> callable(rng) -> list of real values
    native: bool = True  # evaluate the clauses natively on the real function (bounded cross-check)
    native_budget: int = 3000

    @property
    def key(self) -> Tuple[str, str]:
        return (self.module, self.func)

    @property
    def qual(self) -> str:
        return f"{self.module}.{self.func}"


@dataclass
class Lemma:
    """A named proof obligation over spec functions only: forall vars. assumes ==> claims."""

    name: str
    serves: List[str]
    vars: Dict[str, str]
    assumes: List[str] = field(default_factory=list)
    claims: List[str] = field(default_factory=list)
    bv: bool = False
    notes: str = ""


@dataclass
class SpecFn:
    """Spec function defined by a Python expression; inlined (macro-expanded) at each use."""

    name: str
    params: List[str]
    body: str
    doc: str = ""


@dataclass
class DataObligation:
    """A ground fact about constant tables of /repo, evaluated natively and exhaustively."""

    name: str
    serves: List[str]
    check: Any  # callable() -> (ok: bool, detail: str, count: int)
    doc: str = ""


class Registry:
    def __init__(self):
        self.contracts: Dict[Tuple[str, str], Contract] = {}
        self.lemmas: Dict[str, Lemma] = {}
        self.specfns: Dict[str, SpecFn] = {}
        self.records: List[Any] = []  # (name, fields, opts)
        self.data: Dict[str, DataObligation] = {}
        self.axioms: List[Tuple[str, str]] = []
        self.const_overrides: Dict[Tuple[str, str], Any] = {}
        self.natives: Dict[str, Any] = {}  # native implementations of ufuns / overrides of spec macros
        self.native_factories: Dict[str, Any] = {}
        self.opaque_classes: Dict[Tuple[str, str], str] = {}  # (module, class) -> opaque sort its constructor yields
        self.ufuns: Dict[str, str] = {}  # uninterpreted spec functions: name -> result sort text  # (name, reason) — listed in evidence as assumptions

    def contract(self, module, func, **kw) -> Contract:
        c = Contract(module=module, func=func, **kw)
        self.contracts[c.key] = c
        return c

    def lemma(self, name, **kw) -> Lemma:
        l = Lemma(name=name, **kw)
        self.lemmas[name] = l
        return l

    def specfn(self, name, params, body, doc=""):
        self.specfns[name] = SpecFn(name, list(params), body, doc)

    def ufun(self, name, result="bool"):
        self.ufuns[name] = result

    def record(self, name, fields, **opts):
        self.records.append((name, fields, opts))

    def data_obligation(self, name, serves, check, doc=""):
        self.data[name] = DataObligation(name, serves, check, doc)

    def for_property(self, pid):
        cs = [c for c in self.contracts.values() if pid in c.serves]
        ls = [l for l in self.lemmas.values() if pid in l.serves]
        ds = [d for d in self.data.values() if pid in d.serves]
        return cs, ls, ds


def parse_expr(text: str) -> ast.expr:
    return ast.parse(text.strip(), mode="eval").body
