"""Statement execution: assignments, control flow, loops cut by invariants, try/except/finally, with."""
from __future__ import annotations

import ast
from typing import Any, Dict, List, Optional, Set, Tuple

import z3

from . import seqs, source
from .contracts import parse_expr
from .sorts import *  # noqa
from .state import Exc, State, new_ref, exc_is, EXC_PARENTS

MUTATORS = {"append", "extend", "pop", "insert", "clear", "remove", "sort", "reverse", "update", "popitem", "setdefault", "appendleft", "popleft"}


class StmtMixin:
    # ------------------------------------------------------------------ blocks
    def exec_block(self, stmts, st: State):
        """yields (signal, state); signal = ('next',) | ('return', val) | ('raise', Exc) | ('break',) | ('continue',)"""
        if not stmts:
            yield ("next",), st
            return
        for sig, s in self.exec_stmt(stmts[0], st):
            if sig[0] == "next":
                yield from self.exec_block(stmts[1:], s)
            else:
                yield sig, s

    def exec_stmt(self, node, st: State):
        self.cur_line = getattr(node, "lineno", self.cur_line)
        self.path_budget()
        m = getattr(self, "st_" + type(node).__name__, None)
        if m is None:
            raise Unsupported(f"statement {type(node).__name__}@{getattr(node, 'lineno', '?')}")
        yield from m(node, st)

    def path_budget(self):
        self.steps = getattr(self, "steps", 0) + 1
        if self.steps > 400000:
            raise Unsupported("path explosion (step budget)")

    # ------------------------------------------------------------------ simple statements
    def st_Pass(self, node, st):
        yield ("next",), st

    def st_Expr(self, node, st):
        if isinstance(node.value, (ast.Yield, ast.YieldFrom)):
            yield from self.do_yield(node.value, st)
            return
        for v, s in self.ev(node.value, st):
            yield (("raise", v) if isinstance(v, Exc) else ("next",)), s

    def st_Return(self, node, st):
        if node.value is None:
            yield ("return", V(NONE, None)), st
            return
        for v, s in self.ev(node.value, st):
            yield (("raise", v) if isinstance(v, Exc) else ("return", v)), s

    def st_Break(self, node, st):
        yield ("break",), st

    def st_Continue(self, node, st):
        yield ("continue",), st

    def st_Import(self, node, st):
        yield ("next",), st

    def st_ImportFrom(self, node, st):
        # local import: bind names through the module tables
        mod = node.module or ""
        if node.level:
            pkg = self.cur_mod.name.rsplit(".", 1)[0]
            mod = pkg + ("." + mod if mod else "")
        for a in node.names:
            try:
                sub = source.load(mod)
                st.env[a.asname or a.name] = self.lookup_module(sub, a.name)
            except (FileNotFoundError, Unsupported):
                st.env[a.asname or a.name] = VFunc("external", f"{mod}.{a.name}")
        yield ("next",), st

    def st_FunctionDef(self, node, st):
        st.env[node.name] = VFunc("local", node.name, data=(node, None))
        yield ("next",), st

    def st_Global(self, node, st):
        raise Unsupported("global statement")

    def st_Nonlocal(self, node, st):
        yield ("next",), st

    def st_Assert(self, node, st):
        for v, s in self.ev(node.test, st):
            if isinstance(v, Exc):
                yield ("raise", v), s
                continue
            ok = self.truthy(v, s)
            for e, s2 in self.guard(s, ok, "AssertionError", "assert " + ast.unparse(node.test)[:60]):
                yield (("raise", e) if e is not None else ("next",)), s2

    def st_Raise(self, node, st):
        if node.exc is None:
            cur = st.env.get("__current_exc__")
            if cur is None:
                raise Unsupported("bare raise outside handler")
            yield ("raise", cur), st
            return
        for v, s in self.ev(node.exc, st):
            if isinstance(v, Exc):
                yield ("raise", v), s
                continue
            v = self.deref(v, s)
            if isinstance(v, VFunc) and v.kind in ("excinst", "excclass"):
                yield ("raise", Exc(v.name, "raise statement", node.lineno)), s
            elif isinstance(v, VFunc) and v.kind == "class":
                yield ("raise", Exc(v.name, "raise statement", node.lineno)), s
            else:
                raise Unsupported("raise of non-exception value")

    def st_Delete(self, node, st):
        for t in node.targets:
            if isinstance(t, ast.Subscript) and isinstance(t.slice, ast.Slice) and t.slice.lower is None and t.slice.upper is None:
                outs = list(self.ev(t.value, st))
                if len(outs) != 1 or not isinstance(outs[0][0], VRef):
                    raise Unsupported("del target")
                ref = outs[0][0]
                cur = st.heap[ref.ref]
                st.heap[ref.ref] = VSeq(cur.elem, [])
            elif isinstance(t, ast.Name):
                st.env.pop(t.id, None)
            elif hasattr(self, "dict_delitem") and isinstance(t, ast.Subscript):
                self.dict_delitem(t, st)
            else:
                raise Unsupported("del statement form")
        yield ("next",), st

    # ------------------------------------------------------------------ assignment
    def st_Assign(self, node, st):
        for v, s in self.ev(node.value, st):
            if isinstance(v, Exc):
                yield ("raise", v), s
                continue
            ok = True
            for t in node.targets:
                if isinstance(t, ast.Name) and t.id in getattr(self, "annotations", {}):
                    self.annotate_empty(self.annotations[t.id], v, s)
            cur = [(s, None)]
            for t in node.targets:
                nxt = []
                for s1, e in cur:
                    if e is not None:
                        nxt.append((s1, e))
                        continue
                    nxt.extend(self.assign(t, v, s1))
                cur = nxt
            for s1, e in cur:
                yield (("raise", e) if e is not None else ("next",)), s1

    def st_AnnAssign(self, node, st):
        if node.value is None:
            if isinstance(node.target, ast.Name):
                self.annotations = getattr(self, "annotations", {})
                self.annotations[node.target.id] = node.annotation
            yield ("next",), st
            return
        self._ann_hint = None
        if isinstance(node.value, ast.List):
            try:
                txt = ast.unparse(node.annotation).replace("typing.", "").replace("'", "").replace('"', "")
                self._ann_hint = self.parse_sort(txt.replace("List[", "list[").replace("Tuple[", "tuple["))
            except Unsupported:
                self._ann_hint = None
        outs = list(self.ev(node.value, st))
        self._ann_hint = None
        for v, s in outs:
            if isinstance(v, Exc):
                yield ("raise", v), s
                continue
            self.annotate_empty(node.annotation, v, s)
            for s1, e in self.assign(node.target, v, s):
                yield (("raise", e) if e is not None else ("next",)), s1

    def annotate_empty(self, ann, v, st):
        """`x: List[T] = []` — take the element sort of an empty list from the annotation"""
        if isinstance(v, VRef) and isinstance(st.heap[v.ref], VSeq) and st.heap[v.ref].elem.kind == "any":
            try:
                txt = ast.unparse(ann).replace("typing.", "").replace("'", "").replace('"', "")
                so = self.parse_sort(txt.replace("List[", "list[").replace("Tuple[", "tuple["))
                if so.kind == "list":
                    st.heap[v.ref] = VSeq(so.args[0], [])
            except Unsupported:
                pass

    def st_AugAssign(self, node, st):
        load = _as_load(node.target)
        for vals, s in self.ev_list([load, node.value], st):
            if isinstance(vals, Exc):
                yield ("raise", vals), s
                continue
            cur = self.deref(vals[0], s)
            if isinstance(vals[0], VRef) and isinstance(cur, VSeq) and isinstance(node.op, ast.Add):
                # list += iterable mutates in place
                other = self.as_seq(vals[1], s, "+=")
                s.heap[vals[0].ref] = VSeq(cur.elem if cur.elem.kind != "any" else other.elem, cur.pieces + list(other.pieces))
                yield ("next",), s
                continue
            for r, s2 in self.binop(node.op, vals[0], vals[1], s):
                if isinstance(r, Exc):
                    yield ("raise", r), s2
                    continue
                for s3, e in self.assign(node.target, r, s2):
                    yield (("raise", e) if e is not None else ("next",)), s3

    def assign(self, target, val, st: State):
        """returns list of (state, Exc|None)"""
        if isinstance(target, ast.Name):
            st.env[target.id] = val
            return [(st, None)]
        if isinstance(target, (ast.Tuple, ast.List)):
            if any(isinstance(e, ast.Starred) for e in target.elts):
                raise Unsupported("starred assignment")
            items = self.unpack(val, len(target.elts), st)
            cur = [(st, None)]
            for t, x in zip(target.elts, items):
                nxt = []
                for s1, e in cur:
                    nxt.extend(self.assign(t, x, s1) if e is None else [(s1, e)])
                cur = nxt
            return cur
        if isinstance(target, ast.Attribute):
            outs = list(self.ev(target.value, st))
            res = []
            for base, s in outs:
                if isinstance(base, Exc):
                    res.append((s, base))
                    continue
                if isinstance(base, VFunc) and base.kind == "module" and base.name == "sys" and target.attr in ("stdout", "stderr"):
                    s.env[f"ghost_sys_{target.attr}"] = val
                    res.append((s, None))
                    continue
                if not (isinstance(base, VRef) and isinstance(s.heap[base.ref], ObjState)):
                    raise Unsupported(f"attribute assignment on {type(self.deref(base, s)).__name__}")
                obj = s.heap[base.ref]
                # property with a setter: the assignment is a call of the setter
                mod_, cls_ = self.class_of_record(obj.cls) if obj.cls in self.U.records else (None, None)
                if mod_ is not None and f"{cls_}.{target.attr}.setter" in mod_.funcs and not self.U.records[obj.cls].has(target.attr):
                    for r_, s3 in self.call_function(mod_, f"{cls_}.{target.attr}.setter", [base, val], {}, s):
                        res.append((s3, r_ if isinstance(r_, Exc) else None))
                    continue
                self.check_field_write(obj, target.attr, s)
                if obj.cls in self.U.records and self.U.records[obj.cls].has(target.attr):
                    fs = self.U.records[obj.cls].field_sort(target.attr)
                    val2 = self.coerce_field(val, fs, s)
                else:
                    if obj.cls in self.U.records and obj.cls != "__iterator__":
                        # a field the record declaration does not model: ignored (reported)
                        self.notes.append(f"write to unmodelled field {obj.cls}.{target.attr} ignored")
                        res.append((s, None))
                        continue
                    val2 = val
                obj.fields[target.attr] = val2
                res.append((s, None))
            return res
        if isinstance(target, ast.Subscript) and isinstance(target.slice, ast.Slice):
            sl = target.slice
            if sl.lower is not None or sl.upper is not None or sl.step is not None:
                raise Unsupported("slice assignment other than x[:] = ...")
            res = []
            for base, s in self.ev(target.value, st):
                if isinstance(base, Exc):
                    res.append((s, base))
                    continue
                if not (isinstance(base, VRef) and isinstance(s.heap[base.ref], VSeq)):
                    raise Unsupported("x[:] = ... on a non-list")
                new = self.as_seq(val, s, "slice assignment")
                cur = s.heap[base.ref]
                s.heap[base.ref] = VSeq(new.elem if new.elem.kind != "any" else cur.elem, list(new.pieces))
                res.append((s, None))
            return res
        if isinstance(target, ast.Subscript):
            res = []
            for vals, s in self.ev_list([target.value, target.slice], st):
                if isinstance(vals, Exc):
                    res.append((s, vals))
                    continue
                base, idx = vals
                if hasattr(self, "dict_setitem"):
                    r = self.dict_setitem(base, idx, val, s)
                    if r is not None:
                        res.extend(r)
                        continue
                if not isinstance(base, VRef):
                    raise Unsupported("item assignment on immutable value")
                vs = s.heap[base.ref]
                if isinstance(vs, ObjState):
                    c = self.reg.contracts.get(("<builtin>", f"{vs.cls}.__setitem__"))
                    if c is None:
                        m_, cls_ = self.class_of_record(vs.cls)
                        c = self.reg.contracts.get((m_.name, f"{cls_}.__setitem__")) if m_ is not None else None
                    if c is None:
                        raise Unsupported(f"{vs.cls}.__setitem__ has no contract")
                    for r_, s3 in self.apply_contract(c, None, [base, idx, val], {}, s):
                        res.append((s3, r_ if isinstance(r_, Exc) else None))
                    continue
                i = self.to_mathint(self.as_int(self.deref(idx, s)))
                n = vs.length()
                j = z3.simplify(z3.If(i < 0, i + n, i))
                for e, s2 in self.guard(s, z3.And(0 <= j, j < n), "IndexError", "item assignment in range"):
                    if e is not None:
                        res.append((s2, e))
                        continue
                    ez = self.U.z3sort(vs.elem)
                    facts: list = []
                    arr, ln = seqs.materialize(vs, facts, ez)
                    for f in facts:
                        s2.assume(f)
                    s2.heap[base.ref] = seqs.view(z3.Store(arr, j, self.to_term(val, vs.elem, s2)), z3.IntVal(0), ln, vs.elem)
                    res.append((s2, None))
            return res
        raise Unsupported(f"assignment target {type(target).__name__}")

    def coerce_field(self, val, fs: Sort, st):
        v0 = self.deref(val, st)
        if fs.kind == "dict" and isinstance(v0, VFunc):
            return V(fs, self.to_term(v0, fs, st))
        if fs.kind == "opt":
            if isinstance(v0, V) and v0.sort == fs:
                return val
            return V(fs, self.to_term(val, fs, st))
        if fs.kind in ("int", "real", "bool") and isinstance(v0, V) and v0.sort.kind != fs.kind:
            return V(fs, self.to_term(v0, fs, st))
        if fs.kind == "rec" and isinstance(v0, ObjState) and not self.U.records[fs.name].mutable:
            return V(fs, self.to_term(v0, fs, st))
        return val

    def check_field_write(self, obj, attr, st):
        pass  # lock-discipline hook (monitor contracts) — overridden in exec_monitor

    # ------------------------------------------------------------------ if
    def st_If(self, node, st):
        for c, s in self.ev(node.test, st):
            if isinstance(c, Exc):
                yield ("raise", c), s
                continue
            tv = z3.simplify(self.truthy(c, s))
            if z3.is_true(tv):
                yield from self.exec_block(node.body, s)
            elif z3.is_false(tv):
                yield from self.exec_block(node.orelse, s)
            elif self.if_convert(node, tv, s):
                # `if c: x = e` with side-effect-free e: executed as x = (e if c else x), no path split
                yield ("next",), s
            else:
                s2 = s.copy()
                s.assume(tv)
                self.path_counter += 1
                if self.feasible(s):
                    yield from self.exec_block(node.body, s)
                s2.assume(z3.Not(tv))
                self.path_counter += 1
                if self.feasible(s2):
                    yield from self.exec_block(node.orelse, s2)

    def if_convert(self, node, tv, st: State) -> bool:
        from .exec_expr import is_simple

        if node.orelse or len(node.body) != 1:
            return False
        stmt = node.body[0]
        if isinstance(stmt, ast.Assign) and len(stmt.targets) == 1:
            target, value = stmt.targets[0], stmt.value
        elif isinstance(stmt, ast.AugAssign) and isinstance(stmt.op, (ast.Add, ast.Sub)):
            target = stmt.target
            value = ast.BinOp(left=_as_load(stmt.target), op=stmt.op, right=stmt.value)
            ast.copy_location(value, stmt)
            ast.fix_missing_locations(value)
        else:
            return False
        if not (isinstance(target, ast.Name) or (isinstance(target, ast.Attribute) and isinstance(target.value, ast.Name))):
            return False
        if not (is_simple(value) or (isinstance(value, ast.BinOp) and is_simple(value.left) and is_simple(value.right))
                or (isinstance(value, ast.Attribute) and isinstance(value.value, ast.Name))):
            return False
        try:
            trial = st.copy()
            trial.assume(tv)
            base_len = len(trial.pc)
            n0 = len(self.obligs)
            outs = list(self.ev(value, trial))
            olds = list(self.ev(_as_load(target), st.copy()))
            if len(outs) != 1 or len(olds) != 1 or isinstance(outs[0][0], Exc) or isinstance(olds[0][0], Exc) or len(self.obligs) != n0:
                del self.obligs[n0:]
                return False
            if isinstance(self.deref(outs[0][0], outs[0][1]), (VSeq, VTuple, ObjState)):
                return False  # keep the rope structure of strings / lists: split the path instead
            merged = self.merge(tv, outs[0][0], olds[0][0], st)
        except (Unsupported, KeyError):
            return False
        s_val = outs[0][1]
        for f in s_val.pc[base_len:]:
            st.assume(z3.Implies(tv, f))
        for r_, o_ in s_val.heap.items():
            if r_ not in st.heap:
                st.heap[r_] = o_
        for g_, v_ in s_val.env.items():
            if g_.startswith("ghost_") and not (g_ in st.env and st.env[g_] is v_):
                try:
                    st.env[g_] = self.merge(tv, v_, st.env[g_], st)
                except Unsupported:
                    return False
        res = self.assign(target, merged, st)
        return len(res) == 1 and res[0][1] is None

    def feasible(self, st: State) -> bool:
        """path pruning: a branch whose path condition is unsatisfiable is dropped (sound: only
        `unsat` prunes; unknown / timeout keeps the path)"""
        from .solve import quick_check, _has_quant
        # Only the quantifier-free part of the path condition decides: that fragment is decidable, so the same paths are
        # pruned on every run.  (With the quantified facts included the answer was `unsat` in one run and `unknown` in the
        # next, and obligations on a sometimes-surviving infeasible path came and went.)
        return str(quick_check([f for f in list(self.global_facts) + list(st.pc) if not _has_quant(f)], 5000000)) != "unsat"

    # ------------------------------------------------------------------ try / with
    def st_Try(self, node, st):
        caught_names: List[str] = []
        for h in node.handlers:
            caught_names.extend(self.handler_names(h))
        st.catching.append(caught_names)
        body_outs = []
        for sig, s in self.exec_block(node.body, st):
            s.catching = s.catching[:-1] if s.catching and s.catching[-1] == caught_names else s.catching
            body_outs.append((sig, s))
        after = []
        for sig, s in body_outs:
            if sig[0] == "raise":
                exc = sig[1]
                handled = False
                for h in node.handlers:
                    names = self.handler_names(h)
                    if any(exc_is(exc.name, n) for n in names):
                        handled = True
                        if h.name:
                            s.env[h.name] = VFunc("excinst", exc.name)
                        s.env["__current_exc__"] = exc
                        for sig2, s2 in self.exec_block(h.body, s):
                            s2.env.pop("__current_exc__", None)
                            after.append((sig2, s2))
                        break
                if not handled:
                    after.append((sig, s))
            elif sig[0] == "next" and node.orelse:
                after.extend(self.exec_block(node.orelse, s))
            else:
                after.append((sig, s))
        if not node.finalbody:
            yield from after
            return
        for sig, s in after:
            for sig2, s2 in self.exec_block(node.finalbody, s):
                if sig2[0] == "next":
                    yield sig, s2
                else:
                    yield sig2, s2  # finally overrides

    def handler_names(self, h) -> List[str]:
        if h.type is None:
            return ["BaseException"]
        nodes = h.type.elts if isinstance(h.type, ast.Tuple) else [h.type]
        out = []
        for n in nodes:
            out.append(n.attr if isinstance(n, ast.Attribute) else n.id)
        return out

    def st_With(self, node, st):
        item = node.items[0]
        if len(node.items) > 1:
            # `with a, b: body` is `with a: with b: body` (language reference 8.5)
            inner = ast.With(items=node.items[1:], body=node.body)
            ast.copy_location(inner, node)
            ast.fix_missing_locations(inner)
            node = ast.With(items=[item], body=[inner])
        for cm, s in self.ev(item.context_expr, st):
            if isinstance(cm, Exc):
                yield ("raise", cm), s
                continue
            yield from self.exec_with(cm, item.optional_vars, node.body, s)

    def exec_with(self, cm, target, body, st):
        c0 = self.deref(cm, st)
        if isinstance(c0, VFunc) and c0.kind == "suppress":
            names = c0.data
            st.catching.append(list(names))
            for sig, s in self.exec_block(body, st):
                if s.catching and s.catching[-1] == list(names):
                    s.catching = s.catching[:-1]
                if sig[0] == "raise" and any(exc_is(sig[1].name, n) for n in names):
                    yield ("next",), s
                else:
                    yield sig, s
            return
        if hasattr(self, "with_lock"):
            r = self.with_lock(cm, c0, target, body, st)
            if r is not None:
                yield from r
                return
        cls = c0.cls if isinstance(c0, ObjState) else (c0.sort.name if isinstance(c0, V) and c0.sort.kind == "rec" else None)
        if cls is not None:
            mod, pycls = self.class_of_record(cls)
            if mod is not None and f"{pycls}.__enter__" in mod.funcs and f"{pycls}.__exit__" in mod.funcs:
                yield from self.with_object(mod, pycls, cm, target, body, st)
                return
        raise Unsupported("with statement on this context manager")

    def with_object(self, mod, pycls, cm, target, body, st):
        """`with obj [as t]: body` for an object whose class has __enter__/__exit__ under contract (language reference 8.5):
        __enter__ runs first; __exit__ runs on every way out of the body; an exception propagates unless __exit__
        returns a true value."""
        for ev, s1 in self.call_function(mod, f"{pycls}.__enter__", [cm], {}, st):
            if isinstance(ev, Exc):
                yield ("raise", ev), s1
                continue
            if target is not None:
                if not isinstance(target, ast.Name):
                    raise Unsupported("with ... as <non-name>")
                s1.env[target.id] = ev
            for sig, s2 in self.exec_block(body, s1):
                dummy = [self.fresh(Sort("opaque", (), "Any"), "exc", s2) for _ in range(3)]
                for xv, s3 in self.call_function(mod, f"{pycls}.__exit__", [cm] + dummy, {}, s2):
                    if isinstance(xv, Exc):
                        yield ("raise", xv), s3
                    elif sig[0] == "raise":
                        swallow = self.truthy(xv, s3) if not (isinstance(xv, V) and xv.sort.kind == "none") else z3.BoolVal(False)
                        if z3.is_false(z3.simplify(swallow)):
                            yield sig, s3
                        else:
                            sa, sb = s3.copy(), s3
                            sa.assume(swallow)
                            yield ("next",), sa
                            sb.assume(z3.Not(swallow))
                            yield sig, sb
                    else:
                        yield sig, s3

    # ------------------------------------------------------------------ loops
    def loop_spec(self, node):
        c = self.contract_stack[-1]
        ordinal = self.loop_ordinals.get(id(node))
        if ordinal is None:
            return None, None
        sp = c.loops.get(ordinal)
        if sp is not None:
            head = " ".join(ast.unparse(node).split("\n")[0].split())
            want = " ".join(sp.header.split())
            # the loop is identified by its kind and (for `for`) its targets; a changed condition or
            # iterable is a semantic change and is checked against the invariant, not rejected here
            def key(h):
                return h.split(" in ")[0] if h.startswith("for ") else "while"
            if key(head) != key(want):
                raise Unsupported(f"loop {ordinal} header changed: expected {sp.header!r}, found {head!r}")
        return ordinal, sp

    def st_While(self, node, st):
        if node.orelse:
            raise Unsupported("while-else")
        ordinal, sp = self.loop_spec(node)
        if sp is None:
            raise Unsupported(f"while loop without invariant (loop {ordinal} in {self.cur_fn})")
        yield from self.run_loop(node, st, sp, ordinal, None)

    def st_For(self, node, st):
        if node.orelse:
            raise Unsupported("for-else")
        ordinal, sp = self.loop_spec(node)
        for itv, s in self.ev(node.iter, st):
            if isinstance(itv, Exc):
                yield ("raise", itv), s
                continue
            it = self.make_iter(itv, s)
            n = z3.simplify(it.length)
            if (sp is None or sp.unroll) and z3.is_int_value(n) and n.as_long() <= 32:
                yield from self.unroll(node, it, n.as_long(), 0, s)
                continue
            if sp is None:
                raise Unsupported(f"for loop without invariant (loop {ordinal} in {self.cur_fn}, line {node.lineno})")
            yield from self.run_loop(node, s, sp, ordinal, it)

    def unroll(self, node, it, n, k, st):
        if k >= n:
            yield ("next",), st
            return
        self.bind_target(node.target, it.get(z3.IntVal(k), st), st)
        for sig, s in self.exec_block(node.body, st):
            if sig[0] in ("next", "continue"):
                yield from self.unroll(node, it, n, k + 1, s)
            elif sig[0] == "break":
                yield ("next",), s
            else:
                yield sig, s

    def run_loop(self, node, st: State, sp, ordinal, it):
        base = f"{self.cur_fn}::loop{ordinal}"
        idx_name = sp.index or f"__i{ordinal}"
        is_for = it is not None
        # ---- entry
        if is_for:
            st.env[idx_name] = V(INT, self.I(0))
            st.env[f"__n{ordinal}"] = V(INT, self.from_mathint(it.length))
        entry_snapshot = st.snapshot()
        st.env["__loop_entry__"] = None
        saved_old = st.old
        st.old = st.old  # invariants may use old() for function-entry values
        for k, inv in enumerate(sp.invariant):
            g = self.spec_bool(inv, {}, st)
            self.oblige(st, g, "loop.entry", f"invariant holds on entry: {inv}", name=f"{base}.inv[{k}].entry")
        # ---- havoc
        head = st.copy()
        mods = self.modified(node.body + ([] if not is_for else []), head)
        if sp.modifies:
            for m in sp.modifies:
                mods.add(("name", m))
        if is_for:
            for n_ in _target_names(node.target):
                mods.discard(("name", n_))
        self.havoc(mods, head, ordinal)
        if is_for:
            kk = z3.Int(fresh_name(idx_name))
            head.assume(z3.And(0 <= kk, kk <= it.length))
            head.env[idx_name] = V(INT, self.from_mathint(kk))
        import re as _re
        for inv in sp.invariant:
            m_ = _re.fullmatch(r"tail_alias\((\w+),\s*(\w+)\)", inv.strip())
            if m_:
                # aliasing invariant (proved at entry and at every back edge): re-establish the alias on the havocked heap
                fv_, xs_ = head.env.get(m_.group(1)), head.env.get(m_.group(2))
                if isinstance(fv_, VFunc) and fv_.kind == "tailappend" and isinstance(xs_, VRef) and head.heap.get(fv_.obj.ref) == ("havocked",):
                    head.heap[fv_.obj.ref] = ("tailalias", xs_.ref, head.heap[xs_.ref])
        for inv in sp.invariant:
            head.assume(self.spec_bool(inv, {}, head))
        # ---- exit path(s) and body path(s)
        if is_for:
            exit_st = head.copy()
            exit_st.assume(kk == it.length)
            body_st = head
            body_st.assume(kk < it.length)
            self.bind_target(node.target, it.get(kk, body_st), body_st)
            yield from self.loop_body(node, sp, base, body_st, idx_name, kk, None)
            yield ("next",), exit_st
        else:
            for c, s in self.ev(node.test, head):
                if isinstance(c, Exc):
                    yield ("raise", c), s
                    continue
                tv = z3.simplify(self.truthy(c, s))
                if not z3.is_true(tv):
                    ex = s.copy()
                    ex.assume(z3.Not(tv))
                    yield ("next",), ex
                if not z3.is_false(tv):
                    s.assume(tv)
                    yield from self.loop_body(node, sp, base, s, idx_name, None, sp.decreases)

    def loop_body(self, node, sp, base, st, idx_name, kk, decreases):
        m0 = None
        if decreases:
            m0v = self.eval_spec_text(decreases, {}, st)
            m0 = self.to_mathint(self.as_int(self.deref(m0v, st)))
            self.oblige(st, m0 >= 0, "loop.decreases", f"measure {decreases} is non-negative", name=f"{base}.decreases.bounded")
        self.path_counter += 1
        for sig, s in self.exec_block(node.body, st):
            if sig[0] in ("next", "continue"):
                if kk is not None:
                    s.env[idx_name] = V(INT, self.from_mathint(z3.simplify(kk + 1)))
                for k, inv in enumerate(sp.invariant):
                    g = self.spec_bool(inv, {}, s)
                    self.oblige(s, g, "loop.preserve", f"invariant preserved: {inv}", name=f"{base}.inv[{k}].preserve")
                if m0 is not None:
                    m1 = self.to_mathint(self.as_int(self.deref(self.eval_spec_text(decreases, {}, s), s)))
                    self.oblige(s, m1 < m0, "loop.decreases", f"measure {decreases} decreases", name=f"{base}.decreases.strict")
                # back edge: path ends here
            elif sig[0] == "break":
                yield ("next",), s
            else:
                yield sig, s

    # ------------------------------------------------------------------ havoc analysis
    def modified(self, body, st: State) -> Set[Tuple[str, Any]]:
        mods: Set[Tuple[str, Any]] = set()
        self._mods_block(body, st, mods, {}, 0)
        return mods

    def _mods_block(self, body, st, mods, rename, depth):
        for node in body:
            for sub in ast.walk(node):
                if isinstance(sub, ast.Name) and isinstance(sub.ctx, (ast.Store, ast.Del)):
                    mods.add(("name", rename.get(sub.id, sub.id)))
                elif isinstance(sub, (ast.Attribute,)) and isinstance(sub.ctx, (ast.Store, ast.Del)):
                    if isinstance(sub.value, ast.Name):
                        mods.add(("field", (rename.get(sub.value.id, sub.value.id), sub.attr)))
                    else:
                        raise Unsupported("attribute store on a complex target inside a loop")
                elif isinstance(sub, ast.Subscript) and isinstance(sub.ctx, (ast.Store, ast.Del)):
                    root = _root_name(sub.value)
                    if root is None:
                        raise Unsupported("subscript store on a complex target inside a loop")
                    mods.add(("content", rename.get(root, root)))
                elif isinstance(sub, ast.AugAssign) and isinstance(sub.target, ast.Name):
                    mods.add(("content", rename.get(sub.target.id, sub.target.id)))
                elif isinstance(sub, ast.Call):
                    f = sub.func
                    if isinstance(f, ast.Attribute) and f.attr in MUTATORS:
                        root = _root_name(f.value)
                        if root is not None:
                            mods.add(("content", rename.get(root, root)))
                            if not isinstance(f.value, ast.Name):
                                mods.add(("deep", rename.get(root, root)))
                    elif isinstance(f, ast.Name):
                        fv = st.env.get(rename.get(f.id, f.id))
                        if isinstance(fv, VFunc) and fv.kind == "bound" and fv.name in MUTATORS and isinstance(fv.obj, VRef):
                            mods.add(("ref", fv.obj.ref))
                        elif isinstance(fv, VFunc) and fv.kind == "tailappend":
                            cell = st.heap.get(fv.obj.ref)
                            if isinstance(cell, tuple) and cell[0] == "tailalias":
                                mods.add(("ref", cell[1]))
                            mods.add(("name", rename.get(f.id, f.id)))
                        elif isinstance(fv, VFunc) and fv.kind == "local" and depth < 3:
                            fn = fv.data[0]
                            self._mods_block(fn.body, st, mods, {}, depth + 1)
                    self._mods_call_contract(sub, st, mods, rename)
                elif isinstance(sub, (ast.Yield, ast.YieldFrom)):
                    mods.add(("name", "__yielded__"))

    def _mods_call_contract(self, call, st, mods, rename):
        """callee contracts with a `modifies` clause: the argument names bound to those params are havocked"""
        f = call.func
        c = None
        fn = None
        try:
            if isinstance(f, ast.Name) and f.id not in st.env:
                fv = self.lookup_module(self.cur_mod, f.id)
                if isinstance(fv, VFunc) and fv.kind == "func":
                    c = self.reg.contracts.get((fv.data, fv.name))
                    fn = source.load(fv.data).funcs.get(fv.name)
            elif isinstance(f, ast.Attribute) and isinstance(f.value, ast.Name):
                recv = st.env.get(f.value.id)
                r0 = self.deref(recv, st) if recv is not None else None
                cls = r0.cls if isinstance(r0, ObjState) else (r0.sort.name if isinstance(r0, V) and r0.sort.kind == "rec" else None)
                if cls:
                    mod, pycls = self.class_of_record(cls)
                    if mod is not None:
                        c = self.reg.contracts.get((mod.name, f"{pycls}.{f.attr}"))
                        fn = mod.funcs.get(f"{pycls}.{f.attr}")
                        if c is not None and c.inline and fn is not None and len(self._mods_seen) < 12 and (mod.name, fn.name) not in self._mods_seen:
                            self._mods_seen.add((mod.name, fn.name))
                            pname = fn.args.args[0].arg if fn.args.args else "self"
                            self._mods_block(fn.body, st, mods, {pname: f.value.id}, 1)
                            self._mods_seen.discard((mod.name, fn.name))
                        if c is not None:
                            for m in c.modifies:
                                parts = m.split(".")
                                if fn is not None and fn.args.args and parts[0] == fn.args.args[0].arg:
                                    if len(parts) > 1:
                                        mods.add(("field", (f.value.id, parts[1])))
                                    else:
                                        mods.add(("content", f.value.id))
        except Unsupported:
            return
        if c is None or not c.modifies or fn is None:
            return
        names = [a.arg for a in fn.args.args]
        if names and names[0] in ("self", "cls") and isinstance(f, ast.Attribute):
            names = names[1:]
        for pname, anode in zip(names, call.args):
            if any(m.split(".")[0] == pname for m in c.modifies):
                root = _root_name(anode)
                if root is not None:
                    mods.add(("content", rename.get(root, root)))

    def havoc(self, mods, st: State, ordinal):
        for kind, what in sorted(mods, key=lambda x: (x[0], str(x[1]))):
            if kind == "name":
                if what in st.env:
                    cur = st.env[what]
                    c0 = self.deref(cur, st)
                    if isinstance(cur, VFunc):
                        if cur.kind in ("local",):
                            continue
                        if cur.kind == "tailappend":
                            # re-bound inside the loop: unusable until an invariant tail_alias(f, xs) re-establishes it
                            from .state import new_ref
                            ar = new_ref()
                            st.heap[ar] = ("havocked",)
                            st.env[what] = VFunc("tailappend", "append", obj=VRef(ar))
                            continue
                        raise Unsupported(f"loop re-binds function-valued name {what!r}")
                    if isinstance(cur, VRef):
                        # the name may be re-bound to another object: give it a fresh object of the same sort
                        st.env[what] = self.fresh(self.sort_of(c0, st), what + "'", st, as_ref=True) if not isinstance(c0, ObjState) else self._fresh_obj(c0, what, st)
                    elif isinstance(cur, VSeq) or isinstance(cur, (V, VTuple)):
                        so = self.sort_of(cur, st)
                        if so.kind == "none":
                            raise Unsupported(f"cannot havoc {what!r}: its sort at loop entry is None (declare it in Loop.modifies with a typed initial value)")
                        st.env[what] = self.fresh(so, what + "'", st, as_ref=False)
            elif kind in ("content", "deep"):
                cur = st.env.get(what)
                if isinstance(cur, VRef):
                    self._havoc_ref(cur.ref, what, st)
                elif isinstance(cur, VFunc) and cur.kind == "bound" and isinstance(cur.obj, VRef):
                    self._havoc_ref(cur.obj.ref, what, st)
            elif kind == "ref":
                self._havoc_ref(what, f"ref{what}", st)
            elif kind == "field":
                oname, attr = what
                cur = st.env.get(oname)
                if isinstance(cur, VRef) and isinstance(st.heap[cur.ref], ObjState):
                    obj = st.heap[cur.ref]
                    if attr in obj.fields:
                        f0 = obj.fields[attr]
                        if isinstance(f0, VRef):
                            self._havoc_ref(f0.ref, f"{oname}.{attr}", st)
                        else:
                            decl = self.U.records.get(obj.cls)
                            so = decl.field_sort(attr) if decl is not None and decl.has(attr) else self.sort_of(f0, st)
                            obj.fields[attr] = self.fresh(so, f"{oname}.{attr}'", st)

    def _havoc_ref(self, ref, label, st):
        cur = st.heap[ref]
        if isinstance(cur, VSeq):
            if cur.elem.kind == "any":
                raise Unsupported(f"cannot havoc list {label!r}: element sort unknown at loop entry")
            st.heap[ref] = self.deref(self.fresh(cur.sort, label + "'", st, as_ref=False), st)
        elif isinstance(cur, ObjState):
            decl = self.U.records.get(cur.cls)
            if decl is None:
                raise Unsupported(f"cannot havoc object of class {cur.cls}")
            for f, fs in decl.fields:
                cur.fields[f] = self.fresh(fs, f"{label}.{f}'", st)

    def _fresh_obj(self, obj, label, st):
        return self.fresh(Sort("rec", (), obj.cls), label + "'", st, as_ref=True)

    # ------------------------------------------------------------------ generators
    def do_yield(self, node, st):
        """`yield x` appends to the ghost output sequence __yielded__ (eager-sequence view, assumption A6)."""
        if "__yielded__" not in st.env:
            raise Unsupported("yield in a function whose contract does not declare a yielded sequence")
        ref = st.env["__yielded__"]
        if isinstance(node, ast.Yield):
            if node.value is None:
                raise Unsupported("bare yield")
            for v, s in self.ev(node.value, st):
                if isinstance(v, Exc):
                    yield ("raise", v), s
                    continue
                cur = s.heap[ref.ref]
                elem = cur.elem
                s.heap[ref.ref] = VSeq(elem, cur.pieces + [Piece("lit", items=[self.to_term(v, elem, s)])])
                yield ("next",), s
        else:
            for v, s in self.ev(node.value, st):
                if isinstance(v, Exc):
                    yield ("raise", v), s
                    continue
                other = self.as_seq(v, s, "yield from")
                cur = s.heap[ref.ref]
                s.heap[ref.ref] = VSeq(cur.elem, cur.pieces + list(other.pieces))
                yield ("next",), s


def _as_load(target):
    t = ast.parse(ast.unparse(target), mode="eval").body
    return ast.copy_location(t, target)


def _root_name(node) -> Optional[str]:
    while isinstance(node, (ast.Attribute, ast.Subscript)):
        node = node.value
    return node.id if isinstance(node, ast.Name) else None


def _target_names(t):
    if isinstance(t, ast.Name):
        return [t.id]
    if isinstance(t, (ast.Tuple, ast.List)):
        out = []
        for e in t.elts:
            out.extend(_target_names(e))
        return out
    return []
