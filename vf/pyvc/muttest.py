"""developer tool: apply a sed-like replacement to a scratch copy of /repo/rich and re-run contracts.
usage: muttest.py <file> <old> <new> <contract-substring>"""
import os, shutil, subprocess, sys, tempfile
f, old, new, pat = sys.argv[1:5]
d = tempfile.mkdtemp(dir="/dev/shm")
try:
    shutil.copytree("/repo/rich", d + "/rich")
    p = f"{d}/rich/{f}"
    s = open(p).read()
    assert s.count(old) >= 1, "pattern not found"
    open(p, "w").write(s.replace(old, new, 1))
    env = dict(os.environ, VF_REPO=d)
    subprocess.run(["python3-vt", "-m", "vf.pyvc.trial", pat, "-v"], env=env, cwd="/verif")
finally:
    shutil.rmtree(d)
